import EG.Props.C05
/-
  C13 — read-only operations never change the graph, even when a user callback raises.
  In the mirror model a callback is the table `F`; "raises at its k-th invocation" is the
  universally quantified argument `fault = some k`.  `neighbors` is the only read-only entry
  point that stores anything (its memo); `find_links`, the traversals, searches and renderers
  are functions FROM the world in the model because the code (after the repair of
  make_pyvis_net) contains no store — for those the frame property is by construction and
  the burden is on the correspondence: the harness snapshots `vars()` of every object around
  every read-only call and sweeps a fault over every invocation index of every callback.
-/
namespace EG

/-- everything observable except the contents of the neighbor memo -/
def SameGraph (w w' : World) : Prop :=
  w'.nV = w.nV ∧ w'.nL = w.nL ∧ w'.nW = w.nW ∧ w'.vcls = w.vcls ∧ w'.links = w.links ∧ w'.ends = w.ends ∧
  w'.lcls = w.lcls ∧ w'.members = w.members ∧ w'.unis = w.unis ∧ w'.laws = w.laws ∧
  w'.appliesTo = w.appliesTo ∧ w'.rules = w.rules ∧ w'.attrs = w.attrs ∧ w'.caching = w.caching

theorem neighbors_sameGraph (F : Nat → LId → Option VId → Bool) (w : World) (v : VId) (dir unk : Nat)
    (filt fault : Option Nat) : SameGraph w (M.neighbors w F v dir unk filt fault).1 := by
  unfold M.neighbors
  simp only []
  split
  · simp [SameGraph]
  · split
    · simp [SameGraph]
    · split <;> simp [SameGraph]

/-- `neighbors()` — also when its filter raises at ANY invocation index — leaves every vertex,
    link and universe as it was, leaves no incorrect memo behind, and touches no other vertex's
    memo -/
theorem C13_neighbors_frame (F : Nat → LId → Option VId → Bool) (w : World) (v : VId) (dir unk : Nat)
    (filt fault : Option Nat) (h : CacheOK F w) :
    SameGraph w (M.neighbors w F v dir unk filt fault).1 ∧
    CacheOK F (M.neighbors w F v dir unk filt fault).1 ∧
    ∀ x, x ≠ v → (M.neighbors w F v dir unk filt fault).1.cache x = w.cache x := by
  have hq := C05_query_preserves F w v dir unk filt fault h
  exact ⟨neighbors_sameGraph F w v dir unk filt fault, hq.1, hq.2.2.2.2.2.2.2.2.2.2⟩

/-- however the faulted call ended, repeating it with a well-behaved callback gives the normal
    answer (the one a recomputation on the untouched graph gives) -/
theorem C13_repeat_ok (F : Nat → LId → Option VId → Bool) (w : World) (v : VId) (dir unk : Nat)
    (filt fault : Option Nat) (h : CacheOK F w) :
    let w' := (M.neighbors w F v dir unk filt fault).1
    (M.neighbors w' F v dir unk filt none).2 = M.neighborsPure w F v dir unk filt := by
  intro w'
  have hq := C05_query_preserves F w v dir unk filt fault h
  have h1 := C05_transparent F w' v dir unk filt hq.1
  rw [h1]
  have hl : w'.links = w.links := hq.2.1
  have he : w'.ends = w.ends := hq.2.2.1
  have hc : w'.lcls = w.lcls := hq.2.2.2.1
  exact neighborsPure_congr w w' F v dir unk filt (by rw [hl]) (by intro l _; rw [hc, he]; exact ⟨rfl, rfl⟩)

/-- `find_links` (with or without a raising filter) and every other query op of the alphabet
    return the world they were given -/
theorem C13_step_readonly (F : Nat → LId → Option VId → Bool) (w : World) (op : Op)
    (hop : match op with | .neighbors .. | .findLinks .. => True | _ => False) :
    SameGraph w (M.step F w op).1 := by
  cases op <;> simp at hop
  case neighbors v dir unk filt fault =>
    simp only [M.step, C.step]
    split
    · simp [SameGraph]
    · have := neighbors_sameGraph F w v dir unk filt fault
      split <;> simp_all
  case findLinks a b ds unk filt fault =>
    simp only [M.step, C.step]
    split
    · simp [SameGraph]
    · split <;> simp [SameGraph]

/-- read-only calls at any point of any history: the graph part of the world after the history
    extended by any number of queries (faulted or not) is that of the history itself -/
theorem C13_queries_invisible (F : Nat → LId → Option VId → Bool) (w : World) (qs : List Op)
    (hq : ∀ op ∈ qs, match op with | .neighbors .. | .findLinks .. => True | _ => False) :
    SameGraph w (M.runFrom F w qs).1 := by
  induction qs generalizing w with
  | nil => simp [M.runFrom, C.runFrom, SameGraph]
  | cons op ops ih =>
    have h1 := C13_step_readonly F w op (hq op (by simp))
    have h2 := ih (M.step F w op).1 (fun o ho => hq o (by simp [ho]))
    simp only [M.runFrom, C.runFrom] at h2 ⊢
    unfold SameGraph at *
    simp only [M.step] at h1 h2
    refine ⟨?_, ?_, ?_, ?_, ?_, ?_, ?_, ?_, ?_, ?_, ?_, ?_, ?_, ?_⟩ <;> simp_all

end EG
