import EG.Proofs.CacheLemmas
/-
  C05 — neighbor caching is transparent: cached answers always equal recomputed ones, at
  every point of every history that interleaves mutations, queries and flag toggles.
  Property theorems only; helpers in EG/Proofs/CacheLemmas.lean.
-/
namespace EG

/-- every memoised answer equals the answer recomputed from the current graph — required
    WHETHER OR NOT the caching flag is on, because an entry written earlier becomes visible
    again when the flag is switched back on -/
def CacheOK (F : Nat → LId → Option VId → Bool) (w : World) : Prop :=
  ∀ v key ans, M.cacheLookup key (w.cache v) = some ans →
    M.neighborsPure w F v key.dir key.unk key.filt = .ok ans

/-- transparency: with or without the flag, `neighbors()` answers what a recomputation gives -/
theorem C05_transparent (F : Nat → LId → Option VId → Bool) (w : World) (v : VId) (dir unk : Nat)
    (filt : Option Nat) (h : CacheOK F w) :
    (M.neighbors w F v dir unk filt none).2 = M.neighborsPure w F v dir unk filt :=
  neighbors_answer w F v dir unk filt h

/-- arguments that cannot serve as a memo key (an unhashable filter callable): the query is
    answered by recomputation whether the flag is on or off — it does not raise — and the world,
    memos included, is left exactly as it was -/
theorem C05_unhashable_never_cached (F : Nat → LId → Option VId → Bool) (w : World) (v : VId)
    (dir unk : Nat) (filt fault : Option Nat) (h : M.unhashable filt = true) :
    (M.neighbors w F v dir unk filt fault).1 = w ∧
    (M.neighbors w F v dir unk filt none).2 = M.neighborsPure w F v dir unk filt := by
  constructor
  · simp only [M.neighbors, h, Bool.not_true, Bool.and_false, Bool.false_eq_true, if_false]
    cases M.nbLoop w F v dir unk filt fault (w.links v) [] 0 <;> rfl
  · simp only [M.neighbors, M.neighborsPure, h, Bool.not_true, Bool.and_false, Bool.false_eq_true, if_false]
    cases M.nbLoop w F v dir unk filt none (w.links v) [] 0 <;> rfl

/-- a query (even one whose filter raises at its `k`-th invocation) touches nothing but the
    memo of the queried vertex, and keeps every memo correct -/
theorem C05_query_preserves (F : Nat → LId → Option VId → Bool) (w : World) (v : VId) (dir unk : Nat)
    (filt : Option Nat) (fault : Option Nat) (h : CacheOK F w) :
    let w' := (M.neighbors w F v dir unk filt fault).1
    CacheOK F w' ∧ w'.links = w.links ∧ w'.ends = w.ends ∧ w'.lcls = w.lcls ∧
    w'.members = w.members ∧ w'.unis = w.unis ∧ w'.laws = w.laws ∧ w'.appliesTo = w.appliesTo ∧
    w'.attrs = w.attrs ∧ w'.caching = w.caching ∧ (∀ x, x ≠ v → w'.cache x = w.cache x) := by
  intro w'
  refine ⟨neighbors_cache F w v dir unk filt fault h, ?_⟩
  rcases neighbors_world w F v dir unk filt fault with e | ⟨ans, _, e⟩
  · have e' : w' = w := e
    rw [e']; exact ⟨rfl, rfl, rfl, rfl, rfl, rfl, rfl, rfl, rfl, fun _ _ => rfl⟩
  · have e' : w' = _ := e
    rw [e']
    exact ⟨rfl, rfl, rfl, rfl, rfl, rfl, rfl, rfl, rfl, fun x hx => upd_other _ _ _ _ hx⟩

/-- every public call — whichever mutator, on whichever object, flag on or off — keeps every
    memo correct -/
theorem C05_step_preserves (F : Nat → LId → Option VId → Bool) (w : World) (op : Op)
    (hi : Inv w) (h : CacheOK F w) : CacheOK F (M.step F w op).1 :=
  step_cache_M F w op hi h

theorem C05_all_histories (F : Nat → LId → Option VId → Bool) (ops : List Op) (k : Nat) :
    CacheOK F (M.run F (ops.take k)).1 :=
  run_cache F (ops.take k)

/-- consequence: at any point of any history, a `neighbors()` call answers exactly what it
    would answer with caching disabled -/
theorem C05_answers_transparent (F : Nat → LId → Option VId → Bool) (ops : List Op) (v : VId)
    (dir unk : Nat) (filt : Option Nat) :
    let w := (M.run F ops).1
    (M.neighbors w F v dir unk filt none).2 = (M.neighbors { w with caching := false } F v dir unk filt none).2 := by
  intro w
  have hk : CacheOK F w := by
    have := C05_all_histories F ops ops.length
    rwa [List.take_length] at this
  rw [C05_transparent F w v dir unk filt hk, neighbors_answer_off _ F v dir unk filt rfl]
  exact (neighborsPure_congr w { w with caching := false } F v dir unk filt rfl
    (fun _ _ => ⟨rfl, rfl⟩)).symm

/-- non-vacuity: a memo is written, and a mutation of the OTHER end while the flag is off
    invalidates it -/
example :
    let F : Nat → LId → Option VId → Bool := fun _ _ _ => true
    let w0 := (M.run F [.newVertex .V [] [] [], .newVertex .V [] [] [], .flag true,
       .newEdge .D (some 0) (some 1), .neighbors 0 0 2 none none, .flag false]).1
    (w0.cache 0).length = 1 ∧ ((M.step F w0 (.setV2 0 (some 0))).1.cache 0).length = 0 := by
  intro F w0; exact ⟨by decide +kernel, by decide +kernel⟩

end EG
