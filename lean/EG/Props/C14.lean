import EG.Proofs.RenderLemmas
/-
  C14 — PlantUML source shows each member vertex and each internal link once, oriented.
  The model is the STRUCTURE of the source: the declaration header lines (member order) and
  the relation lines; the text layer around them is parsed back by the harness.
-/
namespace EG
namespace R

/-- an empty universe yields None -/
theorem C14_empty (w : World) (o : POpts) (u : VId) (h : w.members u = []) :
    pumlDoc w o u = .ok none := by
  simp [pumlDoc, h]

/-- each member is declared exactly once, in universe order, under its title and with the
    options of the nearest configured class of its hierarchy -/
theorem C14_decl_once (w : World) (o : POpts) (u : VId) (decls rels : List String)
    (h : pumlDoc w o u = .ok (some (decls, rels))) :
    decls.length = (w.members u).length ∧
    ∀ i (hi : i < (w.members u).length), ∃ vo t,
      resolveV o (w.vcls ((w.members u)[i])) = .ok vo ∧ title w vo ((w.members u)[i]) = .ok t ∧
      decls[i]? = some s!"{vo.type} {t} <<{clsName (w.vcls ((w.members u)[i]))}>>" := by
  obtain ⟨hd, _⟩ := pumlDoc_ok w o u decls rels h
  obtain ⟨hl, hi'⟩ := mapE_ok _ _ _ hd
  refine ⟨hl, ?_⟩
  intro i hi
  obtain ⟨y, hy1, hy2⟩ := hi' i hi
  obtain ⟨vo, t, h1, h2, h3⟩ := declOf_ok w o _ y hy2
  exact ⟨vo, t, h1, h2, by rw [hy1, h3]⟩

/-- the links shown are exactly the links attached to some member, each once -/
theorem C14_shown_links (w : World) (u : VId) :
    (shownLinks w u).Nodup ∧ ∀ l, l ∈ shownLinks w u ↔ ∃ m ∈ w.members u, l ∈ w.links m := by
  refine ⟨nodup_eraseDups _, ?_⟩
  intro l
  simp only [shownLinks, List.mem_eraseDups, List.mem_flatMap]

/-- each link whose two ends are members (indeed each link attached to a member) appears as
    exactly one relation line, and no relation line is emitted for a link that does not exist:
    the relation lines are, one for one, the shown links -/
theorem C14_relations_exact (w : World) (o : POpts) (u : VId) (decls rels : List String)
    (h : pumlDoc w o u = .ok (some (decls, rels))) :
    rels.length = (shownLinks w u).length ∧
    ∀ i (hi : i < (shownLinks w u).length), relOf w o ((shownLinks w u)[i]) = .ok (rels.getD i "") := by
  obtain ⟨_, hr⟩ := pumlDoc_ok w o u decls rels h
  obtain ⟨hl, hi'⟩ := mapE_ok _ _ _ hr
  refine ⟨hl, ?_⟩
  intro i hi
  obtain ⟨y, hy1, hy2⟩ := hi' i hi
  rw [hy2, List.getD_eq_getElem?_getD, hy1]
  rfl

/-- every link with both ends members is shown (by C01's symmetry it is attached to them) -/
theorem C14_internal_link_shown (w : World) (u : VId) (hs : Sym w) (l : LId) (a b : VId)
    (he : w.ends l = [some a, some b]) (ha : a ∈ w.members u) :
    l ∈ shownLinks w u := by
  rw [(C14_shown_links w u).2]
  exact ⟨a, ha, (hs.1 a l).mpr (by simp [he])⟩

/-- orientation and arrow ends: the relation line of a link runs from the title of v1 to the
    title of v2 with the arrow ends configured for the nearest configured class of the link -/
theorem C14_orientation (w : World) (o : POpts) (l : LId) (a b : VId) (rest : List (Option VId))
    (s : String) (he : w.ends l = some a :: some b :: rest) (h : relOf w o l = .ok s) :
    ∃ lo oa ob ta tb, resolveL o (w.lcls l) = .ok lo ∧ resolveV o (w.vcls a) = .ok oa ∧
      resolveV o (w.vcls b) = .ok ob ∧ title w oa a = .ok ta ∧ title w ob b = .ok tb ∧
      s = s!"{ta} {lo.v1side}--{lo.v2side} {tb}" := by
  simp only [relOf] at h
  split at h
  · cases h
  · rename_i lo hlo
    split at h
    · cases h
    · rw [he] at h
      simp only at h
      split at h
      · rename_i oa ob hoa hob
        split at h
        · rename_i ta tb hta htb
          simp only [Except.ok.injEq] at h
          exact ⟨lo, oa, ob, ta, tb, hlo, hoa, hob, hta, htb, h.symm⟩
        · cases h
        · cases h
      · cases h
      · cases h

/-- nearest configured class: a subclass without its own entry uses its parent's options, a
    subclass with its own entry uses its own -/
theorem C14_resolve_nearest (o : POpts) :
    (∀ x, o.lopt .DD = none → o.lopt .D = some x → resolveL o .DD = .ok x) ∧
    (∀ x, o.lopt .DD = some x → resolveL o .DD = .ok x) ∧
    (∀ x, o.vopt .SV = none → o.vopt .V = some x → resolveV o .SV = .ok x) ∧
    (∀ x, o.vopt .SV = some x → resolveV o .SV = .ok x) := by
  refine ⟨?_, ?_, ?_, ?_⟩ <;> intro x <;> intros <;> simp [resolveL, resolveV, lMro, vMro, List.findSome?, *]

/-- … also for a class with several bases: the lookup follows the method resolution order
    (MV(SV, MX): MV, SV, MX, Vertex), so a configured SECOND base wins over the root class, and
    a configured first base wins over the second -/
theorem C14_resolve_mro (o : POpts) :
    (∀ x, o.vopt .MV = none → o.vopt .SV = none → o.vopt .MX = some x → resolveV o .MV = .ok x) ∧
    (∀ x, o.vopt .MV = none → o.vopt .SV = some x → resolveV o .MV = .ok x) ∧
    (∀ x, o.vopt .MV = none → o.vopt .SV = none → o.vopt .MX = none → o.vopt .V = some x →
      resolveV o .MV = .ok x) := by
  refine ⟨?_, ?_, ?_⟩ <;> intro x <;> intros <;> simp [resolveV, vMro, List.findSome?, *]

/-- … and for a link class deriving from both edge classes (`DU(DirectedEdge, UnDirectedEdge)`):
    its own entry first, else DirectedEdge's, else UnDirectedEdge's -/
theorem C14_resolve_mro_link (o : POpts) :
    (∀ x, o.lopt .DU = none → o.lopt .D = some x → resolveL o .DU = .ok x) ∧
    (∀ x, o.lopt .DU = none → o.lopt .D = none → o.lopt .U = some x → resolveL o .DU = .ok x) ∧
    (∀ x, o.lopt .DU = some x → resolveL o .DU = .ok x) := by
  refine ⟨?_, ?_, ?_⟩ <;> intro x <;> intros <;> simp [resolveL, lMro, List.findSome?, *]

end R
end EG
