import EG.Proofs.SingleLemmas
/-
  C17 — semi-singletons: per class, instances correspond one-to-one to argument keys.
  `cfg.mapOf` says which metaclass (instance map) a class uses — several classes may share one,
  a subclass shares its parent's; `cfg.keyOf m a` is the value of that metaclass's hash function
  on argument tuple `a` (equal keys = "arguments whose key equals").  Property theorems only.
-/
namespace EG
namespace Sg

variable (cfg : SSCfg)

/-- well-formedness of reachable states: every map is a dict (one entry per key), every entry
    of class `c` lives in `c`'s map and holds an instance of class `c` created earlier -/
def SS.WF (s : SS) : Prop :=
  (∀ m, ((s.maps m).map (·.1)).Nodup) ∧
  (∀ m, ∀ p ∈ s.maps m, cfg.mapOf p.1.1 = m ∧ s.instCls p.2 = p.1.1 ∧ p.2 < s.next) ∧
  (∀ e ∈ s.inits, e.1 < s.next ∧ s.instCls e.1 = e.2.1)

theorem C17_wf_all_histories (ops : List SSOp) : (SS.run cfg {} ops).1.WF cfg := by
  exact SS.run_wf' cfg ops {} (SS.init_wf' cfg)

/-- the live mapping of class `c` for argument tuple `a` -/
def live (s : SS) (c a : Nat) : Option Nat :=
  slookup (c, cfg.keyOf (cfg.mapOf c) a) (s.maps (cfg.mapOf c))

/-- constructing with arguments whose key equals a live key returns that key's instance,
    runs no `__init__`, and changes nothing -/
theorem C17_live_key_returns_same_no_init (s : SS) (c a a' i : Nat)
    (hk : cfg.keyOf (cfg.mapOf c) a' = cfg.keyOf (cfg.mapOf c) a) (hl : live cfg s c a = some i) :
    (s.step cfg (.construct c a')).2 = .inst i ∧ (s.step cfg (.construct c a')).1.inits = s.inits ∧
    (s.step cfg (.construct c a')).1.maps = s.maps := by
  unfold live at hl
  rw [← hk] at hl
  rw [SS.step_construct_hit cfg s c a' i hl]
  exact ⟨rfl, rfl, rfl⟩

/-- constructing with a key that is not live creates a NEW instance (different from every
    mapped instance), of the class that was called, with `__init__` run exactly once -/
theorem C17_new_key_new_instance (s : SS) (hs : s.WF cfg) (c a : Nat) (hl : live cfg s c a = none) :
    (s.step cfg (.construct c a)).2 = .inst s.next ∧
    (∀ m, ∀ p ∈ s.maps m, p.2 ≠ s.next) ∧
    (s.step cfg (.construct c a)).1.instCls s.next = c ∧
    (s.step cfg (.construct c a)).1.inits = s.inits ++ [(s.next, c, a)] ∧
    live cfg (s.step cfg (.construct c a)).1 c a = some s.next := by
  unfold live at hl ⊢
  rw [SS.step_construct_miss cfg s c a hl]
  refine ⟨rfl, ?_, by simp, rfl, ?_⟩
  · intro m p hp
    exact Nat.ne_of_lt (hs.2.1 m p hp).2.2
  · simp only [upd_same, slookup_append, hl, slookup, if_true]

/-- the object returned by a construction is always an instance of the class that was called -/
theorem C17_returns_called_class (s : SS) (hs : s.WF cfg) (c a i : Nat)
    (h : (s.step cfg (.construct c a)).2 = .inst i) :
    (s.step cfg (.construct c a)).1.instCls i = c := by
  cases hl : slookup (c, cfg.keyOf (cfg.mapOf c) a) (s.maps (cfg.mapOf c)) with
  | some j =>
    rw [SS.step_construct_hit cfg s c a j hl] at h ⊢
    simp only [SSAns.inst.injEq] at h
    subst h
    exact (hs.2.1 _ _ (slookup_mem hl)).2.1
  | none =>
    rw [SS.step_construct_miss cfg s c a hl] at h ⊢
    simp only [SSAns.inst.injEq] at h
    subst h
    simp

/-- a construction with a key that is not live whose `__init__` raises registers NOTHING: the
    exception reaches the caller and the state (maps, instances, `__init__` log) is unchanged, so
    `check` / `get_all` keep reporting the key as absent and a retry constructs afresh -/
theorem C17_failed_construction_registers_nothing (s : SS) (c a : Nat) (hl : live cfg s c a = none) :
    s.step cfg (.constructFail c a) = (s, .raised) := by
  unfold live at hl
  simp only [SS.step, hl]

/-- … with a live key the instance is returned and `__init__` does not run (cannot raise) -/
theorem C17_failing_args_on_live_key (s : SS) (c a i : Nat) (hl : live cfg s c a = some i) :
    s.step cfg (.constructFail c a) = (s, .inst i) := by
  unfold live at hl
  simp only [SS.step, hl]

/-- `check` and `get_all` report exactly the live mappings and create nothing -/
theorem C17_reports_exact (s : SS) (c a : Nat) :
    (s.step cfg (.check c a)).1 = s ∧
    (s.step cfg (.check c a)).2 = (match live cfg s c a with | some i => .inst i | none => .none) ∧
    (s.step cfg (.getAll c)).1 = s ∧
    (∀ i, (∃ l, (s.step cfg (.getAll c)).2 = .insts l ∧ i ∈ l) ↔
          ∃ k, ((c, k), i) ∈ s.maps (cfg.mapOf c)) := by
  refine ⟨?_, ?_, rfl, ?_⟩
  · simp only [SS.step]
    split <;> rfl
  · unfold live
    simp only [SS.step]
    split <;> simp [*]
  · intro i
    simp only [SS.step]
    constructor
    · rintro ⟨l, hl, hi⟩
      simp only [SSAns.insts.injEq] at hl
      subst hl
      simp only [List.mem_map, List.mem_filter, beq_iff_eq] at hi
      obtain ⟨⟨⟨c1, k⟩, i1⟩, ⟨hp, hc⟩, rfl⟩ := hi
      simp only at hc
      subst hc
      exact ⟨k, hp⟩
    · rintro ⟨k, hp⟩
      refine ⟨_, rfl, ?_⟩
      simp only [List.mem_map, List.mem_filter, beq_iff_eq]
      exact ⟨((c, k), i), ⟨hp, rfl⟩, rfl⟩

/-- dropping a missing mapping raises KeyError and changes nothing; dropping a live one
    removes exactly it -/
theorem C17_drop (s : SS) (hs : s.WF cfg) (c a : Nat) :
    (live cfg s c a = none → s.step cfg (.drop c a) = (s, .keyError)) ∧
    (∀ i, live cfg s c a = some i →
      (s.step cfg (.drop c a)).2 = .ok ∧ live cfg (s.step cfg (.drop c a)).1 c a = none ∧
      ∀ c' a', (c', cfg.keyOf (cfg.mapOf c') a') ≠ (c, cfg.keyOf (cfg.mapOf c) a) →
        live cfg (s.step cfg (.drop c a)).1 c' a' = live cfg s c' a') := by
  have _ := hs   -- holds for every state; the hypothesis is not needed
  unfold live
  constructor
  · intro hl; exact SS.step_drop_miss cfg s c a hl
  · intro i hl
    rw [SS.step_drop_hit cfg s c a i hl]
    refine ⟨rfl, ?_, ?_⟩
    · simp only [upd_same]
      exact slookup_filter_none _ _ (by intro v; simp) _
    · intro c' a' hne
      simp only
      apply slookup_upd_iso
      intro hm
      rw [slookup_filter _ _ (by intro v; simp [hne])]

/-- isolation: construct / drop / clear on class `c`, and add_mapping of an instance of class
    `c`, never change what another class `c'` maps (hence what it returns or reports) — even
    when the two share one metaclass object or one is a subclass of the other -/
theorem C17_isolation (s : SS) (c c' a a' : Nat) (h : c' ≠ c) (i : Nat) (hi : s.instCls i = c) (hlt : i < s.next) :
    live cfg (s.step cfg (.construct c a)).1 c' a' = live cfg s c' a' ∧
    live cfg (s.step cfg (.drop c a)).1 c' a' = live cfg s c' a' ∧
    live cfg (s.step cfg (.clear c)).1 c' a' = live cfg s c' a' ∧
    live cfg (s.step cfg (.addMapping i a)).1 c' a' = live cfg s c' a' := by
  have kne : ∀ x y : Nat, ((c', x) : SKey) ≠ (c, y) := by
    intro x y e; exact h (congrArg Prod.fst e)
  unfold live
  refine ⟨?_, ?_, ?_, ?_⟩
  · cases hl : slookup (c, cfg.keyOf (cfg.mapOf c) a) (s.maps (cfg.mapOf c)) with
    | some j => rw [SS.step_construct_hit cfg s c a j hl]
    | none =>
      rw [SS.step_construct_miss cfg s c a hl]
      simp only
      apply slookup_upd_iso
      intro hm
      exact slookup_append_single_ne _ _ _ (kne _ _) _
  · cases hl : slookup (c, cfg.keyOf (cfg.mapOf c) a) (s.maps (cfg.mapOf c)) with
    | none => rw [SS.step_drop_miss cfg s c a hl]
    | some j =>
      rw [SS.step_drop_hit cfg s c a j hl]
      simp only
      apply slookup_upd_iso
      intro hm
      exact slookup_filter _ _ (by intro v; simp [kne]) _
  · simp only [SS.step]
    apply slookup_upd_iso
    intro hm
    exact slookup_filter _ _ (by intro v; simp [h]) _
  · rw [SS.step_add_ok cfg s i a hlt]
    subst hi
    simp only
    apply slookup_upd_iso
    intro hm
    exact slookup_sinsert_other _ _ _ (kne _ _) _

/-- clear removes every mapping of the class -/
theorem C17_clear (s : SS) (c a : Nat) : live cfg (s.step cfg (.clear c)).1 c a = none := by
  simp only [SS.step, live, upd_same]
  exact slookup_filter_none _ _ (by intro v; simp) _

/-- non-vacuity: equal hashes do not collide, a shared metaclass and a subclass do not mix -/
example :
    let cfg : SSCfg := { mapOf := fun c => if c ≤ 2 then 0 else 1, keyOf := fun _ a => a }
    (SS.run cfg {} [.construct 0 4, .construct 0 5, .construct 1 4, .construct 2 4, .construct 0 4,
      .clear 1, .check 0 4, .check 1 4, .getAll 0]).2 =
    [.inst 0, .inst 1, .inst 2, .inst 3, .inst 0, .ok, .inst 0, .none, .insts [0, 1]] := by
  decide

end Sg
end EG
