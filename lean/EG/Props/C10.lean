import EG.Proofs.PickleLemmas
/-
  C10 — nrpickler round-trips any graph (the part a theorem can carry: the SCHEDULING).
  The non-recursive pickler defers every `save`, `write` and `memoize` into a queue; the
  theorem says that, for every object graph of every depth, processing that queue emits the
  stream of the standard recursive pickler (up to replacing "build, then pop, then GET" by
  "discard the parts, then GET": the same effect on the unpickler's stack) with the same memo,
  and does so in a flat loop.  Byte-level faithfulness and the loader are pickle's / dill's and
  are tested by the correspondence (stream equality with dill.dumps, load-and-compare, fresh
  interpreter), not proved.  Property theorems only.
-/
namespace EG
namespace Pk

/-- exactly `n` iterations of the loop -/
def steps (H : Heap) : Nat → Conf → Option Conf
  | 0, c => some c
  | n+1, c => match nrStep H c with
    | none => none
    | some c' => steps H n c'

theorem steps_eq_stepsL (H : Heap) (n : Nat) (c : Conf) : steps H n c = stepsL H n c := by
  induction n generalizing c with
  | zero => rfl
  | succ n ih =>
    simp only [steps, stepsL]
    cases nrStep H c with
    | none => rfl
    | some c' => exact ih c'

/-- refinement: if the recursive pickler (with whatever recursion depth it needs) saves `o`
    from memo state `memo` emitting `s` and ending with memo `m'`, then the queue machine started
    with `save o` in front of ANY pending queue `q` reaches, after finitely many iterations, the
    configuration where exactly that item has been consumed, the memo is `m'`, and the emitted
    opcodes normalise to `s` -/
theorem C10_nr_refines_rec (H : Heap) (f o : Nat) (memo : List Nat) (s : List POp) (m' : List Nat)
    (h : rec H f o memo = some (s, m')) :
    ∀ (q : List Item) (out : List POp), ∃ n s',
      steps H n ⟨.save o :: q, memo, out⟩ = some ⟨q, m', out ++ s'⟩ ∧ normalize s' = normalize s := by
  intro q out
  obtain ⟨n, s', hs, hn, _, _⟩ := rec_sim H f o memo s m' h q out
  exact ⟨n, s', by rw [steps_eq_stepsL]; exact hs, hn⟩

/-- whole-dump corollary: with enough loop iterations `nrDump` returns the recursive pickler's
    stream (normalised) and memo -/
theorem C10_dump_eq (H : Heap) (f root : Nat) (s : List POp) (m' : List Nat)
    (h : rec H f root [] = some (s, m')) :
    ∃ fuel s', nrDump H fuel root = some (s', m') ∧ normalize s' = normalize s := by
  obtain ⟨n, s', hs, hn⟩ := C10_nr_refines_rec H f root [] s m' h [] []
  rw [steps_eq_stepsL] at hs
  have hr := nrRun_of_stepsL 0 hs rfl
  refine ⟨n, s', ?_, hn⟩
  simp only [Nat.add_zero] at hr
  simp [nrDump, hr]

/-- no recursion: one loop iteration handles exactly one queue item and at most expands ONE
    object by one level — the pending work lives in the queue, not on the call stack -/
theorem C10_step_flat (H : Heap) (c c' : Conf) (h : nrStep H c = some c') :
    ∃ item rest, c.queue = item :: rest ∧
      (c'.queue = rest ∨
       ∃ o tup k bs as, item = .save o ∧ H o = .node tup k bs as ∧
         c'.queue.length ≤ rest.length + bs.length + as.length + 4) := by
  obtain ⟨queue, memo, out⟩ := c
  cases queue with
  | nil => simp [nrStep] at h
  | cons item rest =>
    refine ⟨item, rest, rfl, ?_⟩
    cases item with
    | write op =>
      simp only [nrStep, Option.some.injEq] at h
      subst h; exact Or.inl rfl
    | memoI o =>
      simp only [nrStep] at h
      cases hm : memoIdx memo o with
      | some i =>
        simp only [hm, Option.some.injEq] at h
        subst h; exact Or.inl rfl
      | none =>
        simp only [hm, Option.some.injEq] at h
        subst h; exact Or.inl rfl
    | save o =>
      simp only [nrStep] at h
      cases hm : memoIdx memo o with
      | some i =>
        simp only [hm, Option.some.injEq] at h
        subst h; exact Or.inl rfl
      | none =>
        simp only [hm] at h
        cases hH : H o with
        | atom a =>
          simp only [hH, Option.some.injEq] at h
          subst h; exact Or.inl rfl
        | node tup k bs as =>
          simp only [hH, Option.some.injEq] at h
          subst h
          refine Or.inr ⟨o, tup, k, bs, as, rfl, hH, ?_⟩
          cases tup <;> simp <;> omega

/-- the recursive pickler needs recursion depth proportional to the depth of the graph: on a
    chain of `n` nested objects it fails with any smaller fuel … -/
def chain (n : Nat) : Heap := fun o => if o < n then .node false 0 [] [o + 1] else .atom 0

theorem C10_rec_needs_depth (n f : Nat) (hf : f ≤ n) : rec (chain n) f 0 [] = none := by
  apply rec_chain_none (chain n) n (fun o ho => by simp [chain, ho]) f 0 []
  · omega
  · intro x hx; cases hx

/-- … while the queue machine completes it (in 3n + 3 flat iterations … any sufficient number) -/
theorem C10_nr_handles_depth (n : Nat) : ∃ fuel r, nrDump (chain n) fuel 0 = some r := by
  obtain ⟨⟨s, m⟩, hr⟩ := rec_chain_some (chain n) n (fun o ho => by simp [chain, ho])
    (fun o ho => by simp [chain, Nat.not_lt.mpr ho]) n 0 [] (by omega) (fun x hx => by cases hx)
  obtain ⟨fuel, s', hd, _⟩ := C10_dump_eq (chain n) (n + 1) 0 s m hr
  exact ⟨fuel, (s', m), hd⟩

/-- non-vacuity: the D10 shape — a tuple reachable from its own element and shared — where the
    deferred memoisation finds the object already memoised (Pop, Get) and sharing is preserved -/
example :
    let H : Heap := fun o => match o with
      | 0 => .node false 9 [] [1, 2]        -- the list [b, a]
      | 1 => .node false 1 [] [3]           -- b, state holds the tuple
      | 2 => .node false 1 [] [3]           -- a, state holds the tuple
      | 3 => .node true 7 [2] []            -- t = (a,)
      | _ => .atom 0
    (rec H 10 0 []).map (·.2) = some [0, 1, 2, 3] ∧
    (nrDump H 100 0).map (fun r => (normalize r.1, r.2)) = (rec H 10 0 []).map (fun r => (normalize r.1, r.2)) ∧
    ((nrDump H 100 0).map (fun r => r.1.contains .pop)) = some true := by
  decide +kernel

end Pk
end EG
