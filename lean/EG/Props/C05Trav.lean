import EG.StepX
import EG.Proofs.TravStateLemmas
/-
  C05 / C13 for the traversal and search ENTRY POINTS, on the model in which they really go
  through `neighbors()` and its memo (EG.TravState, EG.StepX).

  C05: "every traversal and every search returns exactly what it would return with caching
        disabled, at every point of every history that interleaves mutations with queries".
  C13: "all traversals and searches leave every vertex, link and universe observably unchanged".
  Property theorems only; helpers in EG/Proofs/TravStateLemmas.lean.
-/
set_option linter.unusedSimpArgs false
set_option linter.unusedVariables false
namespace EG

/-- the invariant only reads the graph part of the world -/
theorem inv_of_sameGraph {w w' : World} (h : Inv w) (g : SameGraph w w') : Inv w' := by
  obtain ⟨g1, g2, g3, g4, g5, g6, g7, g8, g9, g10, g11, g12, g13, g14⟩ := g
  simp only [Inv, Sym, USym, LawSym, Fresh] at h ⊢
  rw [g1, g2, g3, g5, g6, g8, g9, g10, g11]
  exact h

theorem cacheOK_flagOff (F : Nat → LId → Option VId → Bool) (w : World) (h : CacheOK F w) :
    CacheOK F { w with caching := false } := by
  intro v key ans hk
  have := h v key ans hk
  rw [← this]
  exact neighborsPure_congr _ _ F v _ _ _ rfl (fun _ _ => ⟨rfl, rfl⟩)

/-- a traversal (bft, dft_recursive, dft_iterative; list or generator form), made on a world
    whose memos are correct, lists exactly what the memo-free description `TO.traverse` lists —
    the object of the C06 / C07 theorems — and raises exactly when that does -/
theorem C05_traversal_transparent (F : Nat → LId → Option VId → Bool) (w : World) (ffr : Nat → Bool)
    (kind : TO.TravKind) (uni : Option VId) (start : VId) (dir unk : Nat) (via : Option Nat)
    (h : CacheOK F w) :
    (TS.traverse w F ffr kind uni start dir unk via).2 = TO.traverse w F ffr kind uni start dir unk via :=
  (TS.traverse_spec w F ffr kind uni start dir unk via h).1

/-- … and each search returns what the memo-free description `TO.search` returns -/
theorem C05_search_transparent (F : Nat → LId → Option VId → Bool) (w : World)
    (kind : TO.SearchKind) (uni : Option VId) (start : VId) (attr val : Nat) (h : CacheOK F w) :
    (TS.search w F kind uni start attr val).2 = TO.search w F kind uni start attr val :=
  (TS.search_spec w F kind uni start attr val h).1

/-- with the flag on or off the same listing: the call on `w` and the call on `w` with
    `NEIGHBOR_CACHING` switched off answer identically -/
theorem C05_traversal_flag_irrelevant (F : Nat → LId → Option VId → Bool) (w : World) (ffr : Nat → Bool)
    (kind : TO.TravKind) (uni : Option VId) (start : VId) (dir unk : Nat) (via : Option Nat)
    (h : CacheOK F w) :
    (TS.traverse w F ffr kind uni start dir unk via).2 =
      (TS.traverse { w with caching := false } F ffr kind uni start dir unk via).2 := by
  rw [C05_traversal_transparent F w ffr kind uni start dir unk via h,
    C05_traversal_transparent F _ ffr kind uni start dir unk via (cacheOK_flagOff F w h)]
  exact TO.traverse_congr w F _ ffr kind uni start dir unk via rfl rfl rfl rfl rfl

theorem C05_search_flag_irrelevant (F : Nat → LId → Option VId → Bool) (w : World)
    (kind : TO.SearchKind) (uni : Option VId) (start : VId) (attr val : Nat) (h : CacheOK F w) :
    (TS.search w F kind uni start attr val).2 =
      (TS.search { w with caching := false } F kind uni start attr val).2 := by
  rw [C05_search_transparent F w kind uni start attr val h,
    C05_search_transparent F _ kind uni start attr val (cacheOK_flagOff F w h)]
  have e1 := TO.resolvedNb_congr w F { w with caching := false } rfl rfl rfl rfl 0 2 none
  have e2 := TO.errOf_congr w F { w with caching := false } rfl rfl rfl rfl 0 2 none
  have e3 := TO.inUni_congr w { w with caching := false } rfl rfl uni
  have e4 : TO.attrMatch w attr val = TO.attrMatch { w with caching := false } attr val := rfl
  have e5 : ∀ nb, TO.fuelFor w nb = TO.fuelFor { w with caching := false } nb := fun _ => rfl
  simp only [TO.search, e1, e2, e3, e4, e5]

/-- a traversal or search leaves the graph as it was (C13) and every memo correct (C05),
    whatever it listed and whether or not a `neighbors()` call raised on the way -/
theorem C13_traversal_readonly (F : Nat → LId → Option VId → Bool) (w : World) (ffr : Nat → Bool)
    (kind : TO.TravKind) (uni : Option VId) (start : VId) (dir unk : Nat) (via : Option Nat)
    (h : CacheOK F w) :
    SameGraph w (TS.traverse w F ffr kind uni start dir unk via).1 ∧
    CacheOK F (TS.traverse w F ffr kind uni start dir unk via).1 :=
  (TS.traverse_spec w F ffr kind uni start dir unk via h).2

theorem C13_search_readonly (F : Nat → LId → Option VId → Bool) (w : World)
    (kind : TO.SearchKind) (uni : Option VId) (start : VId) (attr val : Nat) (h : CacheOK F w) :
    SameGraph w (TS.search w F kind uni start attr val).1 ∧
    CacheOK F (TS.search w F kind uni start attr val).1 :=
  (TS.search_spec w F kind uni start attr val h).2

/-- `basic_render` (which asks `neighbors()` for every member, through the memo) returns exactly
    the string the memo-free description `R.basicRender` gives — the object of the C16 theorems —
    with caching on or off, … -/
theorem C05_render_transparent (F : Nat → LId → Option VId → Bool) (w : World) (u : VId) (rf : R.RFun)
    (sort : Option (Option VId → Nat)) (h : CacheOK F w) :
    (R.basicRenderS w F u rf sort).2 = R.basicRender w F u rf sort :=
  (R.basicRenderS_spec w F u rf sort h).1

/-- … leaves the graph as it was, every memo correct — also when a `neighbors()` call raises
    half-way through the universe -/
theorem C13_render_readonly (F : Nat → LId → Option VId → Bool) (w : World) (u : VId) (rf : R.RFun)
    (sort : Option (Option VId → Nat)) (h : CacheOK F w) :
    SameGraph w (R.basicRenderS w F u rf sort).1 ∧ CacheOK F (R.basicRenderS w F u rf sort).1 :=
  (R.basicRenderS_spec w F u rf sort h).2

/-! ### histories that contain traversals and searches -/

theorem stepX_keeps (F : Nat → LId → Option VId → Bool) (R : Nat → Option VId → Bool) (w : World)
    (op : XOp) (hi : Inv w) (hc : CacheOK F w) :
    Inv (M.stepX F R w op).1 ∧ CacheOK F (M.stepX F R w op).1 := by
  cases op with
  | base op =>
    simp only [M.stepX]
    refine ⟨?_, C05_step_preserves F w op hi hc⟩
    have e : M.step F w op = S.step F w op := step_agree F w op hi
    rw [e]; exact step_inv F w op hi
  | traverse kind uni start dir unk via res =>
    simp only [M.stepX]
    split
    · exact ⟨hi, hc⟩
    · have := C13_traversal_readonly F w (resultFilter R w.nV res) kind uni start dir unk via hc
      exact ⟨inv_of_sameGraph hi this.1, this.2⟩
  | search kind uni start attr val =>
    simp only [M.stepX]
    split
    · exact ⟨hi, hc⟩
    · have := C13_search_readonly F w kind uni start attr val hc
      exact ⟨inv_of_sameGraph hi this.1, this.2⟩

theorem runFromX_keeps (F : Nat → LId → Option VId → Bool) (R : Nat → Option VId → Bool)
    (ops : List XOp) : ∀ w, Inv w → CacheOK F w →
    Inv (M.runFromX F R w ops).1 ∧ CacheOK F (M.runFromX F R w ops).1 := by
  induction ops with
  | nil => intro w hi hc; exact ⟨hi, hc⟩
  | cons op ops ih =>
    intro w hi hc
    obtain ⟨h1, h2⟩ := stepX_keeps F R w op hi hc
    exact ih _ h1 h2

/-- after every prefix of every history that interleaves constructions, mutations, flag
    toggles, `neighbors`, `find_links`, TRAVERSALS and SEARCHES: the association invariants hold
    and every memo equals a recomputation -/
theorem C05_all_histories_with_traversals (F : Nat → LId → Option VId → Bool)
    (R : Nat → Option VId → Bool) (ops : List XOp) (k : Nat) :
    Inv (M.runX F R (ops.take k)).1 ∧ CacheOK F (M.runX F R (ops.take k)).1 :=
  runFromX_keeps F R (ops.take k) World.init inv_init (cacheGood_init F)

/-- consequence: at any point of any such history every traversal and every search answers
    exactly what the memo-free descriptions say (for which C06, C07, C08 are proved) -/
theorem C05_history_traversal_answers (F : Nat → LId → Option VId → Bool)
    (R : Nat → Option VId → Bool) (ops : List XOp) (ffr : Nat → Bool)
    (kind : TO.TravKind) (uni : Option VId) (start : VId) (dir unk : Nat) (via : Option Nat)
    (skind : TO.SearchKind) (attr val : Nat) :
    let w := (M.runX F R ops).1
    (TS.traverse w F ffr kind uni start dir unk via).2 = TO.traverse w F ffr kind uni start dir unk via ∧
    (TS.search w F skind uni start attr val).2 = TO.search w F skind uni start attr val := by
  intro w
  have hk : CacheOK F w := by
    have := (C05_all_histories_with_traversals F R ops ops.length).2
    rwa [List.take_length] at this
  exact ⟨C05_traversal_transparent F w ffr kind uni start dir unk via hk,
    C05_search_transparent F w skind uni start attr val hk⟩

/-- the read-only operations of the extended alphabet -/
def XOp.readOnly : XOp → Prop
  | .base (.neighbors ..) | .base (.findLinks ..) | .traverse .. | .search .. => True
  | _ => False

/-- C13 over whole query sequences: a history extended by any number of `neighbors`,
    `find_links`, traversal and search calls (made on a reachable world) has the graph of the
    history itself -/
theorem C13_queries_invisible_x (F : Nat → LId → Option VId → Bool) (R : Nat → Option VId → Bool)
    (qs : List XOp) (hq : ∀ op ∈ qs, op.readOnly) :
    ∀ w, Inv w → CacheOK F w → SameGraph w (M.runFromX F R w qs).1 := by
  induction qs with
  | nil => intro w _ _; exact TS.sameGraph_refl w
  | cons op ops ih =>
    intro w hi hc
    obtain ⟨h1, h2⟩ := stepX_keeps F R w op hi hc
    have hs : SameGraph w (M.stepX F R w op).1 := by
      have hro := hq op (by simp)
      cases op with
      | base o =>
        simp only [M.stepX]
        cases o <;> simp [XOp.readOnly] at hro
        case neighbors v dir unk filt fault => exact C13_step_readonly F w _ trivial
        case findLinks a b ds unk filt fault => exact C13_step_readonly F w _ trivial
      | traverse kind uni start dir unk via res =>
        simp only [M.stepX]
        split
        · exact TS.sameGraph_refl w
        · exact (C13_traversal_readonly F w _ kind uni start dir unk via hc).1
      | search kind uni start attr val =>
        simp only [M.stepX]
        split
        · exact TS.sameGraph_refl w
        · exact (C13_search_readonly F w kind uni start attr val hc).1
    exact TS.sameGraph_trans hs (ih (fun o ho => hq o (by simp [ho])) _ h1 h2)

/-- non-vacuity: with caching on, a breadth-first traversal from V0 over V0→V1→V2 lists all
    three and leaves one memo entry on each vertex it expanded; a later `neighbors(V0)` is a hit -/
example :
    let F : Nat → LId → Option VId → Bool := fun _ _ _ => true
    let R : Nat → Option VId → Bool := fun _ _ => true
    let r := M.runX F R [.base (.newVertex .V [] [] []), .base (.newVertex .V [] [] []),
      .base (.newVertex .V [] [] []), .base (.flag true), .base (.newEdge .D (some 0) (some 1)),
      .base (.newEdge .D (some 1) (some 2)), .traverse .bft none 0 0 2 none none]
    r.2.getLast? = some (.listing [0, 1, 2] none) ∧
    (r.1.cache 0).length = 1 ∧ (r.1.cache 1).length = 1 ∧ (r.1.cache 2).length = 1 := by
  intro F R r
  refine ⟨?_, ?_, ?_, ?_⟩ <;> decide +kernel

end EG
