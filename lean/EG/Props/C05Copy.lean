import EG.Proofs.CopyLemmas
import EG.Props.C05Trav
/-
  C05, last clause — "… and whether the graph was built in this interpreter or un-pickled into a
  fresh one."  The un-pickled graph is an isomorphic copy (`EG.Copy`: every object renamed, every
  ordered container in the same order, the memo tables carried along with their vertices, the
  caching flag whatever it is in the loading interpreter).  Property theorems only; helpers in
  EG/Proofs/CopyLemmas.lean.
-/
namespace EG

variable (r : Renaming)

/-- a recomputation on the copy answers the renamed answer of the original (or raises the same) -/
theorem C05_copy_recomputes (hb : r.Bij) (w : World) (flag : Bool) (F : Nat → LId → Option VId → Bool)
    (v : VId) (dir unk : Nat) (filt : Option Nat) :
    M.neighborsPure (w.copy r flag) (copyF r F) (r.ρ v) dir unk filt
      = (M.neighborsPure w F v dir unk filt).map r.ans :=
  neighborsPure_copy r hb w flag F v dir unk filt

/-- memo tables that were correct before pickling are correct in the copy, whatever the flag is
    there: a warm memo that crossed the pickle boundary answers what a recomputation on the
    un-pickled graph answers -/
theorem C05_copy_cacheOK (hb : r.Bij) (w : World) (flag : Bool) (F : Nat → LId → Option VId → Bool)
    (h : CacheOK F w) : CacheOK (copyF r F) (w.copy r flag) := by
  intro v key ans hl
  have hv : r.ρ (r.ρ' v) = v := hb.vr v
  rw [← hv, copy_cache r hb, cacheLookup_copy] at hl
  cases hc : M.cacheLookup key (w.cache (r.ρ' v)) with
  | none => rw [hc] at hl; cases hl
  | some a =>
    rw [hc] at hl
    simp only [Option.map_some, Option.some.injEq] at hl
    have := h (r.ρ' v) key a hc
    rw [← hv, neighborsPure_copy r hb, this, ← hl]
    rfl

/-- so every `neighbors()` call on the un-pickled graph — flag on or off there — answers the
    renamed recomputation of the original -/
theorem C05_unpickled_transparent (hb : r.Bij) (w : World) (flag : Bool)
    (F : Nat → LId → Option VId → Bool) (h : CacheOK F w) (v : VId) (dir unk : Nat) (filt : Option Nat) :
    (M.neighbors (w.copy r flag) (copyF r F) (r.ρ v) dir unk filt none).2
      = (M.neighborsPure w F v dir unk filt).map r.ans := by
  rw [C05_transparent (copyF r F) (w.copy r flag) (r.ρ v) dir unk filt (C05_copy_cacheOK r hb w flag F h)]
  exact neighborsPure_copy r hb w flag F v dir unk filt

/-- the renaming keeps unused names unused (it permutes the objects that exist) -/
structure Renaming.Keeps (w : World) : Prop where
  bij : r.Bij
  v : ∀ x, w.nV ≤ x → w.nV ≤ r.ρ' x
  l : ∀ x, w.nL ≤ x → w.nL ≤ r.σ' x

theorem mem_map_bij_v (hb : r.Bij) (x : VId) (xs : List VId) : x ∈ xs.map r.ρ ↔ r.ρ' x ∈ xs := by
  simp only [List.mem_map]
  constructor
  · rintro ⟨a, ha, rfl⟩; rwa [hb.vl]
  · intro h; exact ⟨_, h, hb.vr x⟩

theorem mem_map_bij_l (hb : r.Bij) (x : LId) (xs : List LId) : x ∈ xs.map r.σ ↔ r.σ' x ∈ xs := by
  simp only [List.mem_map]
  constructor
  · rintro ⟨a, ha, rfl⟩; rwa [hb.ll]
  · intro h; exact ⟨_, h, hb.lr x⟩

theorem mem_map_bij_o (hb : r.Bij) (x : VId) (xs : List (Option VId)) :
    some x ∈ xs.map (Option.map r.ρ) ↔ some (r.ρ' x) ∈ xs := by
  simp only [List.mem_map]
  constructor
  · rintro ⟨a, ha, he⟩
    cases a with
    | none => cases he
    | some y =>
      simp only [Option.map_some, Option.some.injEq] at he
      rw [← he, hb.vl]; exact ha
  · intro h; exact ⟨_, h, by simp only [Option.map_some, hb.vr]⟩

theorem nodup_map_inj {α : Type} (f : α → α) (g : α → α) (hg : ∀ x, g (f x) = x) (xs : List α)
    (h : xs.Nodup) : (xs.map f).Nodup := by
  induction xs with
  | nil => exact List.nodup_nil
  | cons a t ih =>
    rw [List.nodup_cons] at h
    rw [List.map_cons, List.nodup_cons]
    refine ⟨?_, ih h.2⟩
    intro hm
    rw [List.mem_map] at hm
    obtain ⟨b, hb, he⟩ := hm
    have : b = a := by rw [← hg b, he, hg]
    exact h.1 (this ▸ hb)

/-- the copy of a world that satisfies the association invariants satisfies them -/
theorem inv_copy (w : World) (flag : Bool) (hk : r.Keeps w) (hi : Inv w) : Inv (w.copy r flag) := by
  obtain ⟨⟨hs1, hs2⟩, ⟨hu1, hu2, hu3⟩, hl, hf1, hf2, hf3⟩ := hi
  have hb := hk.bij
  refine ⟨⟨?_, ?_⟩, ⟨?_, ?_, ?_⟩, ?_, ?_, ?_, ?_⟩
  · intro v l
    simp only [World.copy]
    rw [mem_map_bij_l r hb, mem_map_bij_o r hb]
    exact hs1 _ _
  · intro v; simp only [World.copy]; exact nodup_map_inj r.σ r.σ' hb.ll _ (hs2 _)
  · intro v u
    simp only [World.copy]
    rw [mem_map_bij_v r hb, mem_map_bij_v r hb]
    exact hu1 _ _
  · intro u; simp only [World.copy]; exact nodup_map_inj r.ρ r.ρ' hb.vl _ (hu2 _)
  · intro v; simp only [World.copy]; exact nodup_map_inj r.ρ r.ρ' hb.vl _ (hu3 _)
  · intro u L
    simp only [World.copy]
    rw [hl (r.ρ' u) L]
    cases w.appliesTo L with
    | none => simp
    | some x =>
      simp only [Option.map_some, Option.some.injEq]
      constructor
      · intro h; rw [h, hb.vr]
      · intro h; rw [← h, hb.vl]
  · intro l h; simp only [World.copy]; rw [hf1 _ (hk.l l h)]; rfl
  · intro v h
    simp only [World.copy]
    obtain ⟨a, b, c, d⟩ := hf2 _ (hk.v v h)
    rw [a, b, c, d]; exact ⟨rfl, rfl, rfl, rfl⟩
  · intro L h; simp only [World.copy]; rw [hf3 L h]; rfl

/-- **the un-pickled clause for whole histories**: build a graph by any history (mutations, flag
    toggles, queries, traversals, searches — memos warm or not), pickle and load it (any renaming of
    the objects, any value of the flag in the loading interpreter), continue with any history
    there: after every prefix the association invariants hold and every memo — those that crossed
    the pickle boundary and those written since — equals a recomputation -/
theorem C05_histories_across_pickling (F : Nat → LId → Option VId → Bool)
    (R R' : Nat → Option VId → Bool) (ops1 ops2 : List XOp) (flag : Bool) (k : Nat)
    (hk : r.Keeps (M.runX F R ops1).1) :
    let w' := (M.runFromX (copyF r F) R' ((M.runX F R ops1).1.copy r flag) (ops2.take k)).1
    Inv w' ∧ CacheOK (copyF r F) w' := by
  intro w'
  have h1 := C05_all_histories_with_traversals F R ops1 ops1.length
  rw [List.take_length] at h1
  exact runFromX_keeps (copyF r F) R' (ops2.take k) _ (inv_copy r _ flag hk h1.1)
    (C05_copy_cacheOK r hk.bij _ flag F h1.2)

/-- consequence: at every point of every history continued in the loading interpreter, every
    traversal and every search — all their `neighbors()` calls going through the memos, those that
    crossed the boundary included — answers what the memo-free descriptions say -/
theorem C05_unpickled_traversals_transparent (F : Nat → LId → Option VId → Bool)
    (R R' : Nat → Option VId → Bool) (ops1 ops2 : List XOp) (flag : Bool)
    (hk : r.Keeps (M.runX F R ops1).1) (ffr : Nat → Bool)
    (kind : TO.TravKind) (uni : Option VId) (start : VId) (dir unk : Nat) (via : Option Nat)
    (skind : TO.SearchKind) (attr val : Nat) :
    let w' := (M.runFromX (copyF r F) R' ((M.runX F R ops1).1.copy r flag) ops2).1
    (TS.traverse w' (copyF r F) ffr kind uni start dir unk via).2
        = TO.traverse w' (copyF r F) ffr kind uni start dir unk via ∧
    (TS.search w' (copyF r F) skind uni start attr val).2 = TO.search w' (copyF r F) skind uni start attr val := by
  intro w'
  have hk' : CacheOK (copyF r F) w' := by
    have := (C05_histories_across_pickling r F R R' ops1 ops2 flag ops2.length hk).2
    rwa [List.take_length] at this
  exact ⟨C05_traversal_transparent (copyF r F) w' ffr kind uni start dir unk via hk',
    C05_search_transparent (copyF r F) w' skind uni start attr val hk'⟩

/-- the harness's `reload` operation (the caller pickles / deep-copies the graph and goes on with the copy, naming
    the copies as it named the originals) is the copy under the identity renaming: the same world -/
theorem C05_reload_is_identity (w : World) :
    w.copy ⟨id, id, id, id⟩ w.caching = w := by
  have h1 : ∀ l : List (Option VId), l.map (Option.map id) = l := by
    intro l; induction l with
    | nil => rfl
    | cons a t ih => rw [List.map_cons, ih]; cases a <;> rfl
  have h2 : ∀ c : List (Key × List (Option VId)),
      c.map (fun e => (e.1, (⟨id, id, id, id⟩ : Renaming).ans e.2)) = c := by
    intro c; induction c with
    | nil => rfl
    | cons a t ih => rw [List.map_cons, ih]; simp only [Renaming.ans, h1]
  cases w
  simp only [World.copy, World.mk.injEq, id, true_and]
  refine ⟨?_, ?_, ?_, ?_, ?_, ?_⟩ <;> funext x <;> first | exact List.map_id _ | exact h1 _ | exact h2 _ | simp

/-- non-vacuity: a warm memo crosses the boundary (vertices 0, 1 swapped by the renaming, caching
    switched OFF while loading and ON again later) and is found, renamed, in the copy -/
example :
    let F : Nat → LId → Option VId → Bool := fun _ _ _ => true
    let r : Renaming := ⟨fun v => if v = 0 then 1 else if v = 1 then 0 else v,
                         fun v => if v = 0 then 1 else if v = 1 then 0 else v, id, id⟩
    let w := (M.run F [.newVertex .V [] [] [], .newVertex .V [] [] [], .flag true,
       .newEdge .D (some 0) (some 1), .neighbors 0 0 2 none none]).1
    (w.cache 0) = [(⟨0, 2, none⟩, [some 1])] ∧ ((w.copy r false).cache 1) = [(⟨0, 2, none⟩, [some 0])] ∧
    (M.neighbors (w.copy r true) (copyF r F) 1 0 2 none none).2 = .ok [some 0] := by
  intro F r w; exact ⟨by decide +kernel, by decide +kernel, by decide +kernel⟩

end EG
