import EG.Generated.LawsTable
/-
  C19 (the tie to the code, regenerated on every run) — the complete one-step transition table
  of the universe ↔ laws association over two universes and two law sets: from each of the 7
  consistent states, each of the 12 assignments made on the REAL code gives exactly the four
  pointers the mirror model gives (`C19_laws_impl_eq_model`), raises nothing, ends in a consistent
  state and took effect (`C19_laws_impl_eq_spec`).  Every reachable state of this pool is one of
  the 7 row states, so the table is the pool's whole state machine.  Kernel evaluation.
-/
namespace EG
namespace Tab

theorem C19_laws_table_complete : implLaws.length = 84 := by decide +kernel

theorem C19_laws_impl_eq_model : implLaws.all lawRowOk = true := by decide +kernel

theorem C19_laws_impl_eq_spec : implLaws.all lawRowSpecOk = true := by decide +kernel

/-- the 7 row states are closed under all 12 assignments: nothing else is reachable -/
theorem C19_laws_states_closed :
    implLaws.all (fun r => implLaws.any (fun r' => r'.s0 == r.r0 && r'.s1 == r.r1)) = true := by
  decide +kernel

end Tab
end EG
