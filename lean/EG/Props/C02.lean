import EG.Proofs.Inv
/-
  C02 — Universe membership is symmetric, ordered and duplicate-free after every history.
-/
namespace EG

theorem C02_all_histories (F : Nat → LId → Option VId → Bool) (ops : List Op) (k : Nat) :
    USym (M.run F (ops.take k)).1 := (run_agree F (ops.take k)).2.2.1

/-- removing a non-member raises ValueError and changes nothing (from either side) -/
theorem C02_remove_nonmember (F : Nat → LId → Option VId → Bool) (w : World) (u v : VId)
    (h : Inv w) (hu : w.isUni u = true) (hv : w.vOK v = true) (hm : v ∉ w.members u) :
    M.step F w (.uniRemove u v) = (w, .err .value) ∧ M.step F w (.vRemove v u) = (w, .err .value) := by
  have hm' : u ∉ w.unis v := fun hc => hm ((h.2.1.1 v u).mpr hc)
  rw [step_agree F w _ h, step_agree F w _ h]
  simp [S.step, C.step, S.prims, C.ofExc, hu, hv, hm, hm']

/-- insertion order: a successful add appends at the END of the member list and touches no
    other universe's list -/
theorem C02_add_appends (F : Nat → LId → Option VId → Bool) (w : World) (u v : VId)
    (h : Inv w) (hu : w.isUni u = true) (hv : w.vOK v = true) (hm : v ∉ w.members u) :
    (M.step F w (.uniAdd u v)).1.members u = w.members u ++ [v] ∧
    (M.step F w (.vAdd v u)).1.members u = w.members u ++ [v] ∧
    ∀ u', u' ≠ u → (M.step F w (.uniAdd u v)).1.members u' = w.members u' ∧
                    (M.step F w (.vAdd v u)).1.members u' = w.members u' := by
  rw [step_agree F w _ h, step_agree F w _ h]
  simp [S.step, C.step, S.prims, C.ofOpt, hu, hv, hm, S.uniAddVertex, S.addToUniverse]
  intro u' hu'; simp [hu']

/-- adding a present member changes nothing -/
theorem C02_add_present (F : Nat → LId → Option VId → Bool) (w : World) (u v : VId)
    (h : Inv w) (hu : w.isUni u = true) (hv : w.vOK v = true) (hm : v ∈ w.members u) :
    (M.step F w (.uniAdd u v)).1.members = w.members ∧ (M.step F w (.uniAdd u v)).1.unis = w.unis ∧
    (M.step F w (.vAdd v u)).1.members = w.members ∧ (M.step F w (.vAdd v u)).1.unis = w.unis := by
  have hm' : u ∈ w.unis v := (h.2.1.1 v u).mp hm
  rw [step_agree F w _ h, step_agree F w _ h]
  simp [S.step, C.step, S.prims, C.ofOpt, hu, hv, hm, hm', S.uniAddVertex, S.addToUniverse]

/-- a removal only deletes: the remaining members keep their relative order -/
theorem C02_remove_keeps_order (F : Nat → LId → Option VId → Bool) (w : World) (u v : VId)
    (h : Inv w) (hu : w.isUni u = true) (hv : w.vOK v = true) (hm : v ∈ w.members u) :
    (M.step F w (.uniRemove u v)).1.members u = (w.members u).erase v ∧
    (M.step F w (.vRemove v u)).1.members u = (w.members u).erase v := by
  have hm' : u ∈ w.unis v := (h.2.1.1 v u).mp hm
  rw [step_agree F w _ h, step_agree F w _ h]
  simp [S.step, C.step, S.prims, C.ofExc, hu, hv, hm, hm', S.uniRemoveVertex, S.removeFromUniverse]

/-- operations that are not membership operations or constructors never change membership -/
theorem C02_frame (F : Nat → LId → Option VId → Bool) (w : World) (op : Op) (h : Inv w)
    (hop : match op with
      | .newVertex .. | .newUniverse .. | .uniAdd .. | .uniRemove .. | .vAdd .. | .vRemove .. => False
      | _ => True) :
    (M.step F w op).1.members = w.members ∧ (M.step F w op).1.unis = w.unis := by
  rw [step_agree F w op h]
  refine (step_S F w op h).2 ?_
  cases op <;> first | exact hop.elim | trivial

/-- `universes=` / `vertices=` with duplicates: stored once each, first occurrence order -/
theorem C02_ctor_dedup (F : Nat → LId → Option VId → Bool) (w : World) (c : VCls)
    (attrs : List (Nat × Nat)) (us : List VId) (h : Inv w)
    (hc : c ≠ .UNI) (hus : us.all w.isUni = true) :
    (M.step F w (.newVertex c attrs [] us)).1.unis w.nV = dedupKeepFirst us := by
  rw [step_agree F w _ h]
  have hus' : ∀ u ∈ us, u < w.nV := by
    simp only [List.all_eq_true] at hus
    exact fun u hu => isUni_lt (hus u hu)
  obtain ⟨w', e, _, h2⟩ := C.newVertex_S w c attrs [] us h (by simp) hus'
  have hc' : (c == VCls.UNI) = false := by cases c <;> simp at hc ⊢
  simp only [S.step, C.step, hc', hus, e, List.all_nil]
  exact h2

end EG
