import EG.Proofs.RenderLemmas
/-
  C16 — plain-text rendering: one well-formed line per vertex listing its neighbours.
  `rf` is the rendering function (rfunc or repr), `nb v` the FORWARD neighbours of `v` as
  `neighbors()` returns them.  Property theorems only.
-/
namespace EG
namespace R

/-- an empty universe yields None -/
theorem C16_empty (w : World) (F : Nat → LId → Option VId → Bool) (u : VId) (rf : RFun)
    (sort : Option (Option VId → Nat)) (h : w.members u = []) :
    basicRender w F u rf sort = .ok none := by
  simp [basicRender, h]

/-- without a sort key: one line per member, in universe order, each the vertex's rendering,
    ` -> `, and the renderings of its neighbours in `neighbors()` order joined by `, ` -/
theorem C16_lines (w : World) (F : Nat → LId → Option VId → Bool) (u : VId) (rf : RFun)
    (nb : VId → List (Option VId)) (hne : w.members u ≠ [])
    (hnb : ∀ v ∈ w.members u, M.neighborsPure w F v 0 2 none = .ok (nb v)) :
    basicRender w F u rf none =
      .ok (some ("\n".intercalate ((w.members u).map fun v =>
        rf (some v) ++ " -> " ++ ", ".intercalate ((nb v).map rf)))) := by
  have hm : (w.members u).isEmpty = false := by
    cases hh : w.members u with
    | nil => exact absurd hh hne
    | cons _ _ => rfl
  simp only [basicRender, hm, renderLines_ok w F rf none nb (w.members u) hnb]
  rfl

/-- with a sort key: the members in the (stable) order of the key, each with its neighbours
    sorted by the key -/
theorem C16_lines_sorted (w : World) (F : Nat → LId → Option VId → Bool) (u : VId) (rf : RFun)
    (key : Option VId → Nat) (nb : VId → List (Option VId)) (hne : w.members u ≠ [])
    (hnb : ∀ v ∈ w.members u, M.neighborsPure w F v 0 2 none = .ok (nb v)) :
    basicRender w F u rf (some key) =
      .ok (some ("\n".intercalate (((sortBy key ((w.members u).map some)).filterMap id).map fun v =>
        rf (some v) ++ " -> " ++ ", ".intercalate ((sortBy key (nb v)).map rf)))) := by
  have hm : (w.members u).isEmpty = false := by
    cases hh : w.members u with
    | nil => exact absurd hh hne
    | cons _ _ => rfl
  have hnb' : ∀ v ∈ (sortBy key ((w.members u).map some)).filterMap id,
      M.neighborsPure w F v 0 2 none = .ok (nb v) :=
    fun v hv => hnb v ((mem_sortBy_filterMap key _ v).mp hv)
  simp only [basicRender, hm, renderLines_ok w F rf (some key) nb _ hnb']
  rfl

/-- the sort used is a stable sort by the key: a permutation of its input, ordered by the key -/
theorem C16_sortBy_spec (key : Option VId → Nat) (xs : List (Option VId)) :
    (sortBy key xs).Perm xs ∧ (sortBy key xs).Pairwise (fun a b => key a ≤ key b) := ⟨sortBy_perm key xs, sortBy_pairwise key xs⟩

/-- a vertex without neighbours still gets a line: its rendering followed by the arrow -/
theorem C16_isolated (rf : RFun) (v : VId) : line rf v [] = rf (some v) ++ " -> " := by
  simp [line]

/-- an exception of `neighbors()` (e.g. NotImplementedError for an unknown link class) is
    propagated -/
theorem C16_propagates (w : World) (F : Nat → LId → Option VId → Bool) (u : VId) (rf : RFun)
    (pre post : List VId) (v : VId) (e : Err) (nb : VId → List (Option VId))
    (hm : w.members u = pre ++ v :: post)
    (hpre : ∀ x ∈ pre, M.neighborsPure w F x 0 2 none = .ok (nb x))
    (hv : M.neighborsPure w F v 0 2 none = .error e) :
    basicRender w F u rf none = .error e := by
  have hm : (w.members u).isEmpty = false := by rw [hm]; cases pre <;> rfl
  simp only [basicRender, hm]
  rw [‹w.members u = _›, renderLines_err w F rf none nb pre post v e hpre hv]
  rfl

/-- non-vacuity -/
example : line (fun x => match x with | none => "none" | some v => s!"v{v}") 0 [some 1, none, some 0]
    = "v0 -> v1, none, v0" := by decide

end R
end EG
