import EG.Proofs.PickleLoadLemmas
import EG.Props.C10
/-
  C10, the LOADING side — on the abstract heap, loading what the pickler wrote rebuilds the
  object graph: "new objects of the same classes with the same attributes, the same ordered
  links per vertex, ordered ends per link and ordered members per universe, with shared objects
  still shared".

  `vmLoad` is the stack machine of the unpickler on the abstract opcodes (EG.PickleLoad).  For
  every heap, every depth and every root: the stream of the recursive pickler — hence, by
  `C10_dump_eq`, the stream of the queue machine of `nrpickler` — loads to a heap that is
  isomorphic to the reachable part of the original: the same kinds, the same ORDERED `before`
  and `after` children, one new object per original object (shared stays shared, distinct stays
  distinct), atoms as themselves.

  Partial in one respect, stated as a hypothesis: `NoReentry` — no NON-tuple object is met again
  while the arguments of its own reduce are being saved (the stream contains no `POP`).  Cycles
  through instance state — how vertices, links and universes refer to each other — and a tuple
  that is reachable from its own elements (`t = (a,); a.t = t`, the shape of defect D10) are
  covered.  For the queue machine's own stream the corollary `C10_nr_load_roundtrip` needs the
  stream to be free of `POP` as well (the machine writes `POP`, GET where the recursive pickler
  writes `POP_MARK`, GET for a re-entered tuple; `C10_dump_eq` says the two streams agree up to
  exactly that replacement).  The byte level (opcode encodings, framing) and pickle's own loader
  remain trusted / tested.
-/
set_option linter.unusedSimpArgs false
set_option linter.unusedVariables false
namespace EG
namespace Pk

theorem built_init (H : Heap) : Built H [] ({} : VM).memo ({} : VM).heap ({} : VM).next [] :=
  ⟨rfl, List.nodup_nil, fun i hi => by simp at hi, fun i j r h => by simp at h⟩

/-- the round trip for the recursive pickler's stream -/
theorem C10_load_roundtrip (H : Heap) (tupK : Nat → Bool) (hwf : KindsWF H tupK) (f root : Nat)
    (s : List POp) (m' : List Nat) (h : rec H f root [] = some (s, m')) (hn : NoReentry s) :
    ∃ v S, vmLoad tupK s = some (v, S) ∧
      -- the value returned is the image of the root
      v = phi H m' S.memo root ∧
      -- every pickled object is rebuilt: same kind, same ordered children (images)
      (∀ o ∈ m', ∃ tup k bs as r, H o = .node tup k bs as ∧ phi H m' S.memo o = .ref r ∧ Val.ref r ∈ S.memo ∧
        S.heap r = ⟨k, bs.map (phi H m' S.memo), if tup then [] else as.map (phi H m' S.memo)⟩) ∧
      -- one new object per original object: sharing is preserved and nothing is merged
      (∀ o ∈ m', ∀ o' ∈ m', phi H m' S.memo o = phi H m' S.memo o' → o = o') ∧
      -- the pickled objects are closed under children (so they are everything reachable)
      (Known H m' root ∧ ∀ o ∈ m', ∀ tup k bs as, H o = .node tup k bs as →
        (∀ b ∈ bs, Known H m' b) ∧ (tup = false → ∀ a ∈ as, Known H m' a)) := by
  obtain ⟨S, hrun, hst, hk, hb, _⟩ := rec_ok H tupK hwf f root [] s m' h hn {} [] (built_init H)
  have hload : vmLoad tupK s = some (phi H m' S.memo root, S) := by
    simp only [vmLoad, hrun, hst]
  -- index form of "o ∈ m'"
  have idx : ∀ o ∈ m', ∃ i, ∃ hi : i < m'.length, m'[i] = o ∧ memoIdx m' o = some i := by
    intro o ho
    obtain ⟨i, hi⟩ := memoIdx_of_mem ho
    obtain ⟨h1, h2, _⟩ := memoIdx_some hi
    refine ⟨i, h1, ?_, hi⟩
    rw [List.getElem?_eq_getElem h1] at h2; exact Option.some.inj h2
  have node : ∀ o ∈ m', ∃ (tup : Bool) (k : Nat) (bs as : List Nat) (r i : Nat), H o = .node tup k bs as ∧ S.memo[i]? = some (Val.ref r) ∧
      m'[i]? = some o ∧ phi H m' S.memo o = .ref r ∧
      S.heap r = ⟨k, bs.map (phi H m' S.memo), if tup then [] else as.map (phi H m' S.memo)⟩ ∧
      (∀ b ∈ bs, Known H m' b) ∧ (tup = false → ∀ a ∈ as, Known H m' a) := by
    intro o ho
    obtain ⟨i, hi, hmi, hix⟩ := idx o ho
    obtain ⟨tup, k, bs, as, r, h1, h2, h3, h4, h5, h6, h7⟩ := hb.node i hi
    rw [hmi] at h1
    obtain ⟨g1, g2⟩ := h7 (by simp)
    refine ⟨tup, k, bs, as, r, i, h1, h2, by rw [List.getElem?_eq_getElem hi, hmi], phi_of_memo h1 hix _ h2, ?_, h6, g2⟩
    have : S.heap r = ⟨(S.heap r).kind, (S.heap r).before, (S.heap r).after⟩ := rfl
    rw [this, h4, h5, g1]
  refine ⟨_, S, hload, rfl, ?_, ?_, hk, ?_⟩
  · intro o ho
    obtain ⟨tup, k, bs, as, r, i, h1, h2, _, h3, h4, _⟩ := node o ho
    exact ⟨tup, k, bs, as, r, h1, h3, List.mem_of_getElem? h2, h4⟩
  · intro o ho o' ho' he
    obtain ⟨_, _, _, _, r, i, _, h2, hm, h3, _⟩ := node o ho
    obtain ⟨_, _, _, _, r', j, _, h2', hm', h3', _⟩ := node o' ho'
    rw [h3, h3'] at he
    cases he
    have hij := hb.inj i j r h2 h2'
    subst hij
    rw [hm] at hm'
    exact Option.some.inj hm'
  · intro o ho tup k bs as hH
    obtain ⟨tup', k', bs', as', r, i, h1, _, _, _, _, h5, h6⟩ := node o ho
    rw [hH] at h1; cases h1
    exact ⟨h5, h6⟩

/-- `Build1, Pop, Get` is the only thing `normalize` rewrites: a stream without `POP` is its own
    normal form, and a stream whose normal form has neither `POP` nor `POP_MARK` is that normal form -/
theorem normalize_eq_self_of_noPop : ∀ (a : List POp), (∀ op ∈ a, op ≠ .pop) → normalize a = a := by
  intro a
  fun_induction normalize a with
  | case1 k n i rest ih => intro h; exact absurd rfl (h .pop (by simp))
  | case2 op rest hne ih =>
    intro h
    rw [ih (fun o ho => h o (List.mem_cons_of_mem _ ho))]
  | case3 => intro _; rfl

/-- the round trip for the stream of the QUEUE MACHINE of `nrpickler` (no recursion, any depth):
    whenever it is free of `POP`, it is the recursive pickler's stream and loads to the
    isomorphic heap -/
theorem C10_nr_load_roundtrip (H : Heap) (tupK : Nat → Bool) (hwf : KindsWF H tupK) (f root : Nat)
    (s : List POp) (m' : List Nat) (h : rec H f root [] = some (s, m')) (hn : NoReentry s) :
    ∃ fuel s', nrDump H fuel root = some (s', m') ∧
      (NoReentry s' → s' = s ∧ ∃ v S, vmLoad tupK s' = some (v, S) ∧ v = phi H m' S.memo root) := by
  obtain ⟨fuel, s', hd, hnorm⟩ := C10_dump_eq H f root s m' h
  refine ⟨fuel, s', hd, ?_⟩
  intro hn'
  have e : s' = s := by
    rw [← normalize_eq_self_of_noPop s' hn', ← normalize_eq_self_of_noPop s hn]; exact hnorm
  obtain ⟨v, S, hl, hv, _⟩ := C10_load_roundtrip H tupK hwf f root s m' h hn
  exact ⟨e, v, S, by rw [e]; exact hl, hv⟩

/-- non-vacuity 1: a graph with a cycle through instance state and a shared tuple
    (list [b, a]; b and a hold the same tuple t; b also holds the list itself) -/
example :
    let H : Heap := fun o => match o with
      | 0 => .node false 9 [] [1, 2]
      | 1 => .node false 1 [5] [3, 0]
      | 2 => .node false 1 [] [3]
      | 3 => .node true 7 [4] []
      | _ => .atom 7
    let tupK : Nat → Bool := fun k => k == 7
    ((rec H 10 0 []).bind fun r => (vmLoad tupK r.1).map fun p =>
      (p.1, (List.range p.2.next).map p.2.heap)) =
    some (.ref 0, [⟨9, [], [.ref 1, .ref 3]⟩, ⟨1, [.atom 7], [.ref 2, .ref 0]⟩, ⟨7, [.atom 7], []⟩,
      ⟨1, [], [.ref 2]⟩]) := by
  decide +kernel

/-- non-vacuity 2: the D10 shape — a tuple reachable from its own element (`t = (a,)`, `a.t = t`,
    root list [b, a] with `b.ref = t`): the stream of the recursive pickler contains `POP_MARK`,
    no `POP`, and loads with the tuple shared -/
example :
    let H : Heap := fun o => match o with
      | 0 => .node false 9 [] [1, 2]
      | 1 => .node false 1 [] [3]
      | 2 => .node false 1 [] [3]
      | 3 => .node true 7 [2] []
      | _ => .atom 0
    let tupK : Nat → Bool := fun k => k == 7
    ((rec H 10 0 []).map fun r => (r.1.contains (.discard 7 1), r.1.contains .pop)) = some (true, false) ∧
    ((rec H 10 0 []).bind fun r => (vmLoad tupK r.1).map fun p =>
      (p.1, (List.range p.2.next).map p.2.heap)) =
    some (.ref 0, [⟨9, [], [.ref 1, .ref 2]⟩, ⟨1, [], [.ref 3]⟩, ⟨1, [], [.ref 3]⟩, ⟨7, [.ref 2], []⟩]) := by
  decide +kernel

end Pk
end EG
