import EG.Props.C06World
import EG.Props.C07
import EG.Proofs.TravWorldLemmas
/-
  C07 at the level of the WORLD: on a graph where `neighbors()` of every vertex returns and no
  neighbour is None, the three traversal ENTRY POINTS list the vertices in the canonical orders
  of C07, computed from `nbOf` — the answer list of the real `neighbors()` (itself in `v.links`
  order, C04) — and the membership test of the call.  Hence the order is a function of the
  link order alone: worlds that agree on links, ends, link classes and members (whatever their
  attributes, memos, law sets …) give the same listings.  Property theorems only.
-/
namespace EG
namespace TO

variable (w : World) (F : Nat → LId → Option VId → Bool)

/-- `uni is None or y in uni.vertices` as a Bool -/
def memberB (uni : Option VId) (y : VId) : Bool :=
  match uni with
  | none => true
  | some u => (w.members u).contains y

/-- on vertex ids the extended universe test of the entry points is `memberB` -/
theorem inUni_eq_memberB (uni : Option VId) {x : Nat} (hx : x < w.nV) :
    inUni w uni x = memberB w uni x := by
  have h1 : ¬ x > w.nV := by omega
  cases uni with
  | none => simp [inUni, memberB, h1]
  | some u => simp [inUni, memberB, h1, hx]

/-- BFS entry point = the level-by-level listing spec of C07 over `nbOf` / `memberB` -/
theorem C07_world_bft_order (uni : Option VId) (start : VId) (dir unk : Nat) (via : Option Nat)
    (ht : TotalAt w F dir unk via) (hs : start < w.nV) (hu : memberOf w uni start) :
    traverse w F (fun _ => true) .bft uni start dir unk via =
      (T.bftSpec (nbOf w F dir unk via) (memberB w uni) (w.nV + 1) [start] 0, none) := by
  rw [traverse_true_eq_pure w F .bft uni start dir unk via ht hs hu,
    pure_bft_order w F uni start dir unk via ht hs (memberB w uni)
      (fun x hx => inUni_eq_memberB w uni hx)]

/-- recursive DFS entry point = pre-order DFS over `nbOf` / `memberB` -/
theorem C07_world_dftRecursive_order (uni : Option VId) (start : VId) (dir unk : Nat)
    (via : Option Nat) (ht : TotalAt w F dir unk via) (hs : start < w.nV)
    (hu : memberOf w uni start) :
    traverse w F (fun _ => true) .dftr uni start dir unk via =
      (T.dftRecursive (nbOf w F dir unk via) (memberB w uni) (fun _ => true) (w.nV + 1) start, none) := by
  rw [traverse_true_eq_pure w F .dftr uni start dir unk via ht hs hu,
    pure_dftr_order w F uni start dir unk via ht hs (memberB w uni)
      (fun x hx => inUni_eq_memberB w uni hx)]

/-- iterative DFS entry point = pre-order DFS over the REVERSED `neighbors()` lists -/
theorem C07_world_dftIterative_order (uni : Option VId) (start : VId) (dir unk : Nat)
    (via : Option Nat) (ht : TotalAt w F dir unk via) (hs : start < w.nV)
    (hu : memberOf w uni start) :
    traverse w F (fun _ => true) .dfti uni start dir unk via =
      (T.dftRecursive (fun v => (nbOf w F dir unk via v).reverse) (memberB w uni) (fun _ => true)
        (w.nV + 1) start, none) := by
  rw [traverse_true_eq_pure w F .dfti uni start dir unk via ht hs hu,
    pure_dfti_order w F uni start dir unk via ht hs hu (memberB w uni)
      (fun x hx => inUni_eq_memberB w uni hx)]

/-- the listings are a function of the link order alone: two worlds with the same vertices,
    the same link lists per vertex, the same ends and classes of links and the same members
    give the same answer for every traversal call (with or without exceptions) — attributes,
    universes of vertices, law sets, memo contents, the caching flag do not matter.  In
    particular rebuilding the same graph in the same order reproduces every sequence. -/
theorem C07_world_function_of_link_order (w' : World) (ffr : Nat → Bool) (kind : TravKind)
    (uni : Option VId) (start : VId) (dir unk : Nat) (via : Option Nat)
    (hn : w.nV = w'.nV) (hl : w.links = w'.links) (he : w.ends = w'.ends) (hc : w.lcls = w'.lcls)
    (hm : w.members = w'.members) :
    traverse w F ffr kind uni start dir unk via = traverse w' F ffr kind uni start dir unk via :=
  traverse_congr w F w' ffr kind uni start dir unk via hn hl he hc hm

/-- when `neighbors()` raises for some reached vertex the traversal raises too, having yielded
    a duplicate-free prefix that begins with the start vertex (when anything was yielded) and
    contains only vertices reachable through the universe.

    Note the second clause: with `uni = None` a `None` neighbour (a link one of whose ends is
    None) passes the universe test, is yielded (as id `w.nV`), and only then does
    `neighbors(None)` raise — see `C06_world_none_is_yielded` below; a first draft of this
    statement claimed `x < w.nV` for every yielded id and is refuted by that example. -/
theorem C06_world_error_prefix (kind : TravKind) (uni : Option VId) (start : VId)
    (dir unk : Nat) (via : Option Nat) (hs : start < w.nV) (hu : memberOf w uni start)
    (out : List Nat) (e : Err)
    (h : traverse w F (fun _ => true) kind uni start dir unk via = (out, some e)) :
    out.Nodup ∧ (∀ x ∈ out, x < w.nV ∨ (x = w.nV ∧ uni = none)) ∧
    (out ≠ [] → out.head? = some start) ∧
    ∀ x ∈ out, T.Reach (resolvedNb w F dir unk via) (inUni w uni) start x :=
  error_prefix w F kind uni start dir unk via hs hu out e h

/-- one vertex `0` with one undirected link `0` whose ends are `(0, None)`: `bft(None, 0)`
    yields `0`, then `None` (id `1 = w.nV`), then raises AttributeError -/
def cexWorld : World :=
  { World.init with
    nV := 1, nL := 1
    links := fun v => if v = 0 then [0] else []
    ends := fun _ => [some 0, none]
    lcls := fun _ => .U }

theorem C06_world_none_is_yielded :
    cexWorld.nV = 1 ∧ (0 : Nat) < cexWorld.nV ∧ memberOf cexWorld none 0 ∧
    traverse cexWorld (fun _ _ _ => true) (fun _ => true) .bft none 0 0 2 none =
      ([0, 1], some .attribute) :=
  ⟨by decide, by decide, trivial, by decide⟩

end TO
end EG
