import EG.Generated.NeighborsTable
/-
  C04 (part 1: the tie to the code) — `neighbors()` of the real code, evaluated on the
  complete per-link decision domain (6 two-ended classes (one deriving from BOTH edge classes) × 4 positions × 4 direction values
  × 4 unknown-handling values × 3 filter outcomes = 1152 rows, regenerated from /repo on
  every run), agrees row by row with the mirror model, and — on the rows the statement
  speaks about — with the rule as the statement reads.  Checked by kernel evaluation over
  the whole table; no axioms.
-/
namespace EG
namespace Tab

/-- no row can silently go missing -/
theorem C04_table_complete : implNb.length = 1152 := by decide +kernel

/-- real code = mirror model on every row -/
theorem C04_impl_eq_model : implNb.all nbRowOk = true := by decide +kernel

/-- real code = the documented rule on every row where the vertex is an end of the link -/
theorem C04_impl_eq_spec : implNb.all nbRowSpecOk = true := by decide +kernel

end Tab
end EG
