import EG.Proofs.TravOpsLemmas
/-
  C06 / C08 at the level of the WORLD: the traversal and search entry points (pre-flight
  checks, resolution of `neighbors()`, loop, cut at the first exception) on a graph where
  `neighbors()` of every vertex returns and no neighbour is None.  This composes C04 (what
  `neighbors()` returns) with the pure-loop theorems of C06 / C08.
-/
namespace EG
namespace TO

variable (w : World) (F : Nat → LId → Option VId → Bool)

/-- `neighbors(v, dir, unk, via)` returns for every vertex and never contains None -/
def TotalAt (dir unk : Nat) (via : Option Nat) : Prop :=
  ∀ v, v < w.nV → ∃ l : List VId, M.neighborsPure w F v dir unk via = .ok (l.map some) ∧ ∀ y ∈ l, y < w.nV

/-- the neighbours of `v` as a list of vertices -/
def nbOf (dir unk : Nat) (via : Option Nat) (v : VId) : List VId :=
  match M.neighborsPure w F v dir unk via with
  | .ok l => l.filterMap id
  | .error _ => []

/-- membership test of the call: `uni is None or y in uni.vertices` -/
def memberOf (uni : Option VId) (y : VId) : Prop :=
  match uni with
  | none => True
  | some u => y ∈ w.members u

/-- `y` is reachable from `s` along links `neighbors()` follows, through members of the universe -/
inductive ReachW (uni : Option VId) (dir unk : Nat) (via : Option Nat) (s : VId) : VId → Prop
  | refl : ReachW uni dir unk via s s
  | step {x y : VId} : ReachW uni dir unk via s x → y ∈ nbOf w F dir unk via x → memberOf w uni y →
      ReachW uni dir unk via s y

/-- on a total world `nbOf` is the resolved neighbour function (for vertices) -/
theorem resolvedNb_eq_nbOf {dir unk : Nat} {via : Option Nat} (ht : TotalAt w F dir unk via)
    {x : Nat} (hx : x < w.nV) : resolvedNb w F dir unk via x = nbOf w F dir unk via x := by
  obtain ⟨l, hl, _⟩ := ht x hx
  rw [resolvedNb_of_ok w F hx hl]
  simp only [nbOf, hl]
  exact (filterMap_id_map_some l).symm

/-- reachability over the resolved graph is reachability in the world -/
theorem reach_iff_reachW (uni : Option VId) (start : VId) (dir unk : Nat) (via : Option Nat)
    (ht : TotalAt w F dir unk via) (hs : start < w.nV) (x : Nat) :
    T.Reach (resolvedNb w F dir unk via) (inUni w uni) start x ↔
      ReachW w F uni dir unk via start x := by
  have hb : T.Bounded (resolvedNb w F dir unk via) w.nV := resolvedNb_bounded w F ht
  constructor
  · intro h
    induction h with
    | refl => exact ReachW.refl
    | step hx hy hU ih =>
      have hxlt := reach_lt hb hs hx
      have hylt := hb _ hxlt _ hy
      rw [resolvedNb_eq_nbOf w F ht hxlt] at hy
      exact ReachW.step ih hy ((inUni_lt w uni hylt).1 hU)
  · intro h
    have key : T.Reach (resolvedNb w F dir unk via) (inUni w uni) start x ∧ x < w.nV := by
      induction h with
      | refl => exact ⟨T.Reach.refl, hs⟩
      | step hx hy hm ih =>
        obtain ⟨ih1, ih2⟩ := ih
        rw [← resolvedNb_eq_nbOf w F ht ih2] at hy
        have hylt := hb _ ih2 _ hy
        exact ⟨T.Reach.step ih1 hy ((inUni_lt w uni hylt).2 hm), hylt⟩
    exact key.1

/-- every traversal entry point returns (no exception), lists no vertex twice, starts with the
    start vertex and lists exactly the vertices reachable through the universe -/
theorem C06_world_exact (kind : TravKind) (uni : Option VId) (start : VId) (dir unk : Nat)
    (via : Option Nat) (ht : TotalAt w F dir unk via) (hs : start < w.nV)
    (hu : memberOf w uni start) :
    ∃ out, traverse w F (fun _ => true) kind uni start dir unk via = (out, none) ∧
      out.Nodup ∧ out.head? = some start ∧ (∀ x ∈ out, x < w.nV) ∧
      ∀ x, x ∈ out ↔ ReachW w F uni dir unk via start x := by
  have hp := pureOut_exact w F kind uni start dir unk via ht hs hu
  refine ⟨pureOut w F (fun _ => true) kind uni start dir unk via,
    traverse_true_eq_pure w F kind uni start dir unk via ht hs hu, hp.1, hp.2.1,
    pureOut_lt w F kind uni start dir unk via ht hs hu, fun x => ?_⟩
  exact (hp.2.2 x).trans (reach_iff_reachW w F uni start dir unk via ht hs x)

/-- the three traversals agree as sets -/
theorem C06_world_agree (uni : Option VId) (start : VId) (dir unk : Nat) (via : Option Nat)
    (ht : TotalAt w F dir unk via) (hs : start < w.nV) (hu : memberOf w uni start) (x : Nat) :
    (x ∈ (traverse w F (fun _ => true) .bft uni start dir unk via).1 ↔
      x ∈ (traverse w F (fun _ => true) .dftr uni start dir unk via).1) ∧
    (x ∈ (traverse w F (fun _ => true) .bft uni start dir unk via).1 ↔
      x ∈ (traverse w F (fun _ => true) .dfti uni start dir unk via).1) := by
  obtain ⟨o1, e1, _, _, _, m1⟩ := C06_world_exact w F .bft uni start dir unk via ht hs hu
  obtain ⟨o2, e2, _, _, _, m2⟩ := C06_world_exact w F .dftr uni start dir unk via ht hs hu
  obtain ⟨o3, e3, _, _, _, m3⟩ := C06_world_exact w F .dfti uni start dir unk via ht hs hu
  rw [e1, e2, e3]
  exact ⟨(m1 x).trans (m2 x).symm, (m1 x).trans (m3 x).symm⟩

/-- ff_result only removes entries from the listing -/
theorem C06_world_ff_result (kind : TravKind) (uni : Option VId) (start : VId) (dir unk : Nat)
    (via : Option Nat) (ffr : Nat → Bool) (ht : TotalAt w F dir unk via) (hs : start < w.nV)
    (hu : memberOf w uni start) :
    traverse w F ffr kind uni start dir unk via =
      ((traverse w F (fun _ => true) kind uni start dir unk via).1.filter ffr, none) := by
  rw [traverse_eq_pure w F ffr kind uni start dir unk via ht hs hu,
    traverse_true_eq_pure w F kind uni start dir unk via ht hs hu]

/-- the search entry points return the first listed vertex (of the corresponding traversal
    with default settings) that has the attribute with the sought value, or None -/
theorem C08_world_first_match (uni : Option VId) (start : VId) (attr val : Nat)
    (ht : TotalAt w F 0 2 none) (hs : start < w.nV) (hu : memberOf w uni start) :
    search w F .bfs uni start attr val =
      .inr ((traverse w F (fun _ => true) .bft uni start 0 2 none).1.find? (hasAttrVal w attr val)) ∧
    search w F .dfsr uni start attr val =
      .inr ((traverse w F (fun _ => true) .dftr uni start 0 2 none).1.find? (hasAttrVal w attr val)) ∧
    search w F .dfsi uni start attr val =
      .inr ((traverse w F (fun _ => true) .dfti uni start 0 2 none).1.find? (hasAttrVal w attr val)) := by
  refine ⟨?_, ?_, ?_⟩
  · rw [traverse_true_eq_pure w F .bft uni start 0 2 none ht hs hu]
    exact search_eq_find w F .bfs uni start attr val ht hs hu
  · rw [traverse_true_eq_pure w F .dftr uni start 0 2 none ht hs hu]
    exact search_eq_find w F .dfsr uni start attr val ht hs hu
  · rw [traverse_true_eq_pure w F .dfti uni start 0 2 none ht hs hu]
    exact search_eq_find w F .dfsi uni start attr val ht hs hu

/-- the pre-flight checks: a start vertex outside the given universe raises ValueError (bft and
    bfs on an EMPTY universe return the empty listing / None instead) -/
theorem C06_world_preflight (kind : TravKind) (u : VId) (start : VId) (dir unk : Nat)
    (via : Option Nat) (ffr : Nat → Bool) (hne : w.members u ≠ []) (hns : start ∉ w.members u) :
    traverse w F ffr kind (some u) start dir unk via = ([], some .value) := by
  have g1 : (w.members u).isEmpty = false := by
    cases hm : w.members u with
    | nil => exact absurd hm hne
    | cons a l => rfl
  have g2 : (!(w.members u).contains start) = true := by simpa using hns
  simp only [traverse, g1, g2]
  simp

/-- a sought value that compares equal to everything (value class 6) matches exactly the vertices
    that HAVE the attribute: a vertex lacking it is never returned, whatever the value's `__eq__` says -/
theorem C08_any_value_needs_attribute (attr : Nat) (x : VId) :
    hasAttrVal w attr 6 x = (w.attrs x).any (fun p => p.1 == attr) ∧
    ((w.attrs x).all (fun p => p.1 != attr) → ∀ val, hasAttrVal w attr val x = false) := by
  constructor
  · simp [hasAttrVal]
  · intro h val
    simp only [hasAttrVal, List.any_eq_false]
    intro p hp
    have := List.all_eq_true.1 h p hp
    simp at this
    simp [this]

/-- "a value equal (==) to the one sought": a value that is not equal to itself (value class 8: `math.nan`, the SAME
    object stored on the vertex and sought) matches no vertex — the test is `==`, never identity -/
theorem C08_nan_never_matches (attr : Nat) (x : VId) : hasAttrVal w attr 8 x = false := by
  simp [hasAttrVal]

end TO
end EG
