import EG.Proofs.QueryLemmas
import EG.Props.C04Table
/-
  C04 (part 2: general theorems on the mirror model) — `neighbors()` follows exactly the
  documented direction / unknown-type / filter rules, for every world, vertex and setting.
  Property theorems only; helpers in EG/Proofs/QueryLemmas.lean.
-/
namespace EG
open Tab

/-- position of `v` in a link whose two ends are `a`, `b` -/
def posOf (a b : Option VId) (v : VId) : Pos :=
  if a = some v ∧ b = some v then .both else if a = some v then .v1 else if b = some v then .v2 else .neither

/-- the opposite end -/
def otherOf (a b : Option VId) (v : VId) : Option VId :=
  if a = some v then b else if b = some v then a else none

/-- the filter outcome on link `l` with opposite end `x` -/
def filtOf (F : Nat → LId → Option VId → Bool) (filt : Option Nat) (l : LId) (x : Option VId) : Filt :=
  match filt with
  | none => .none
  | some k => if F k l x then .acc else .rej

/-- outcome of the loop body for ONE link -/
def linkOut (w : World) (F : Nat → LId → Option VId → Bool) (v : VId) (dir unk : Nat)
    (filt : Option Nat) (l : LId) : Out :=
  ofResult (M.nbLoop w F v dir unk filt none [l] [] 0)

/-- the per-link rule, for every world: a two-ended link with ends `[a, b]`, one of which is
    `v`, contributes exactly what the statement says (class by kind, direction by position,
    unknown classes by `unknown_handling`, and a filter, if given, must accept — whatever the
    class) -/
theorem C04_link_rule (w : World) (F : Nat → LId → Option VId → Bool) (v : VId) (dir unk : Nat)
    (filt : Option Nat) (l : LId) (a b : Option VId)
    (he : w.ends l = [a, b]) (hk : (w.lcls l).kind ≠ .nary) (hv : a = some v ∨ b = some v) :
    linkOut w F v dir unk filt l =
      specNbG (w.lcls l).kind (posOf a b v) dir unk (filtOf F filt l (otherOf a b v)) (otherOf a b v) := by
  rw [linkOut, M.ofResult_nbLoop_single]
  simp only [M.nbOne, M.other, he, hk, List.getD_cons_zero, List.getD_cons_succ, ↓reduceIte]
  have hd : dir = 0 ∨ dir = 1 ∨ dir = 2 ∨ 2 < dir := by omega
  have hu : unk = 0 ∨ unk = 1 ∨ 1 < unk := by omega
  cases hkind : (w.lcls l).kind <;> simp only [hkind] at hk ⊢
  all_goals
    rcases hd with rfl | rfl | rfl | hd <;> rcases hu with rfl | rfl | hu <;> cases filt <;>
    simp [M.pre, specNbG, posOf, otherOf, filtOf] <;> grind

/-- in-order collection of the per-link outcomes, stopping at the first raise -/
def collect (w : World) (F : Nat → LId → Option VId → Bool) (v : VId) (dir unk : Nat)
    (filt : Option Nat) : List LId → Except Err (List (Option VId))
  | [] => .ok []
  | l :: ls =>
    match linkOut w F v dir unk filt l with
    | .raise e => .error e
    | .skip => collect w F v dir unk filt ls
    | .emit x =>
      match collect w F v dir unk filt ls with
      | .error e => .error e
      | .ok r => .ok (x :: r)

/-- order and multiplicity: the answer is the in-order concatenation of the per-link
    contributions over `v.links` (one entry per qualifying link; parallel edges repeat; a
    self-loop yields `v` once), and the first raising link aborts the call -/
theorem C04_order_and_multiplicity (w : World) (F : Nat → LId → Option VId → Bool) (v : VId)
    (dir unk : Nat) (filt : Option Nat) :
    M.neighborsPure w F v dir unk filt = collect w F v dir unk filt (w.links v) := by
  unfold M.neighborsPure
  induction w.links v with
  | nil => rfl
  | cons l ls ih =>
    rw [M.nbLoop_cons_nil, collect, linkOut, M.ofResult_nbLoop_single, ih]
    cases M.nbOne w F v dir unk filt l <;> rfl

/-- a filter only restricts: same raise behaviour, and the filtered answer is a sublist of the
    unfiltered one -/
theorem C04_filter_restricts (w : World) (F : Nat → LId → Option VId → Bool) (v : VId)
    (dir unk : Nat) (k : Nat) :
    (∀ e, M.neighborsPure w F v dir unk (some k) = .error e ↔ M.neighborsPure w F v dir unk none = .error e) ∧
    (∀ r r0, M.neighborsPure w F v dir unk (some k) = .ok r → M.neighborsPure w F v dir unk none = .ok r0 →
      r.Sublist r0) := by
  exact M.nbLoop_filter_restricts w F v dir unk k (w.links v)

/-- every link of `x` is two-ended with exactly two ends -/
def TwoEndedAt (w : World) (x : VId) : Prop :=
  ∀ l ∈ w.links x, (w.lcls l).kind ≠ .nary ∧ (w.ends l).length = 2

/-- FORWARD / BACKWARD duality: `t` occurs k times among the FORWARD neighbours of `v` exactly
    when `v` occurs k times among the BACKWARD neighbours of `t` -/
theorem C04_fwd_bwd_duality (w : World) (F : Nat → LId → Option VId → Bool) (v t : VId) (unk : Nat)
    (hs : Sym w) (hv : TwoEndedAt w v) (ht : TwoEndedAt w t)
    (r1 r2 : List (Option VId))
    (h1 : M.neighborsPure w F v 0 unk none = .ok r1) (h2 : M.neighborsPure w F t 2 unk none = .ok r2) :
    r1.count (some t) = r2.count (some v) := by
  rw [M.nbLoop_count w F v 0 unk none (some t) (w.links v) r1 h1,
    M.nbLoop_count w F t 2 unk none (some v) (w.links t) r2 h2]
  apply List.Perm.length_eq
  rw [List.perm_ext_iff_of_nodup ((hs.2 v).sublist List.filter_sublist)
    ((hs.2 t).sublist List.filter_sublist)]
  intro l
  simp only [List.mem_filter, decide_eq_true_eq]
  constructor
  · rintro ⟨hl, ho⟩
    obtain ⟨hk, hlen⟩ := hv l hl
    obtain ⟨x, y, he⟩ := M.ends_pair _ hlen
    obtain ⟨d1, d2⟩ := M.nbOne_dual w F v t unk l x y he hk
    exact ⟨(hs.1 t l).mpr (d2 ho).1, d1.mp ho⟩
  · rintro ⟨hl, ho⟩
    obtain ⟨hk, hlen⟩ := ht l hl
    obtain ⟨x, y, he⟩ := M.ends_pair _ hlen
    obtain ⟨d1, d2⟩ := M.nbOne_dual w F v t unk l x y he hk
    exact ⟨(hs.1 v l).mpr (d2 (d1.mpr ho)).2, d1.mpr ho⟩

/-- non-vacuity: a vertex with a parallel pair, a self-loop and an incoming edge -/
example :
    let w := (M.run (fun _ _ _ => true)
      [.newVertex .V [] [] [], .newVertex .V [] [] [], .newEdge .D (some 0) (some 1),
       .newEdge .U (some 0) (some 1), .newEdge .D (some 0) (some 0), .newEdge .D (some 1) (some 0),
       .newEdge .X (some 0) (some 1)]).1
    M.neighborsPure w (fun _ _ _ => true) 0 0 1 none = .ok [some 1, some 1, some 0, some 1] ∧
    M.neighborsPure w (fun _ _ _ => true) 1 2 1 none = .ok [some 0, some 0, some 0] ∧
    M.neighborsPure w (fun _ _ _ => true) 0 0 2 none = .error .notImpl := by
  intro w; exact ⟨by rfl, by rfl, by rfl⟩

end EG
