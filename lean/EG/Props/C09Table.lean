import EG.Generated.FindLinksTable
/-
  C09 (part 1: the tie to the code) — `find_links()` of the real code on the complete
  per-link decision domain (6 classes × 4 relations of the link to (a,b) × direction flag
  × 4 unknown-handling values × 3 filter outcomes = 576 rows, regenerated every run).
-/
namespace EG
namespace Tab

theorem C09_table_complete : implFl.length = 576 := by decide +kernel

theorem C09_impl_eq_model : implFl.all flRowOk = true := by decide +kernel

theorem C09_impl_eq_spec : implFl.all flRowSpecOk = true := by decide +kernel

end Tab
end EG
