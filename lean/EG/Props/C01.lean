import EG.Proofs.Inv
/-
  C01 — Vertex-link association is symmetric and duplicate-free after every history.
  Property theorems only; helper lemmas live in EG/Proofs.
-/
namespace EG

/-- after every prefix of every history of public calls (over every aliasing of their
    arguments: ids are arbitrary naturals) the association is symmetric and duplicate-free -/
theorem C01_all_histories (F : Nat → LId → Option VId → Bool) (ops : List Op) (k : Nat) :
    Sym (M.run F (ops.take k)).1 := (run_agree F (ops.take k)).2.1

/-- a call that raises (or is rejected as ill-formed) leaves the world exactly as it was -/
theorem C01_raise_no_effect (F : Nat → LId → Option VId → Bool) (w : World) (op : Op) :
    (∃ e, (M.step F w op).2 = .err e) ∨ (M.step F w op).2 = .bad → (M.step F w op).1 = w :=
  C.step_raise M.prims F w op

/-- non-vacuity: a history with a self-loop, a parallel pair, a half-assigned edge and a
    vertex listed twice by an n-ary link reaches a world with non-empty association -/
example : let w := (M.run (fun _ _ _ => true)
    [.newVertex .V [] [] [], .newVertex .V [] [] [], .newEdge .D (some 0) (some 0),
     .newEdge .D (some 0) (some 1), .newEdge .U (some 0) (some 1), .newEdge .X (some 1) none,
     .newNLink [some 0, some 0, some 1], .setV2 0 (some 1)]).1
    w.links 0 = [0, 1, 2, 4] ∧ w.ends 0 = [some 0, some 1] ∧ w.links 1 = [1, 2, 3, 4, 0] := by
  decide

end EG
