import EG.Proofs.Inv
/-
  C19 — a universe and its laws always point at each other, after any (re)assignments.
-/
namespace EG

theorem C19_all_histories (F : Nat → LId → Option VId → Bool) (ops : List Op) (k : Nat) :
    LawSym (M.run F (ops.take k)).1 := (run_agree F (ops.take k)).2.2.2.1

/-- every assignment succeeds (in particular giving laws to a universe whose laws are None),
    from either side, to another object or to None, and has the requested effect -/
theorem C19_every_assignment_succeeds (F : Nat → LId → Option VId → Bool) (w : World) (h : Inv w)
    (u : VId) (L : WId) (hu : w.isUni u = true) (hL : w.wOK L = true) :
    (M.step F w (.setLaws u (some L))).2 = .ok ∧ (M.step F w (.setLaws u (some L))).1.laws u = some L ∧
    (M.step F w (.setLaws u none)).2 = .ok ∧ (M.step F w (.setLaws u none)).1.laws u = none ∧
    (M.step F w (.setAppliesTo L (some u))).2 = .ok ∧
      (M.step F w (.setAppliesTo L (some u))).1.appliesTo L = some u ∧
    (M.step F w (.setAppliesTo L none)).2 = .ok ∧
      (M.step F w (.setAppliesTo L none)).1.appliesTo L = none := by
  rw [step_agree F w _ h, step_agree F w _ h, step_agree F w _ h, step_agree F w _ h]
  simp [S.step, C.step, S.prims, C.ofOpt, hu, hL, S.setLaws_laws, S.setAppliesTo_appliesTo]

/-- a universe constructed without laws gets a fresh law set of its own; constructed with a
    law set in use elsewhere it takes it over -/
theorem C19_ctor (F : Nat → LId → Option VId → Bool) (w : World) (h : Inv w)
    (attrs : List (Nat × Nat)) (L : WId) (hL : w.wOK L = true) :
    (M.step F w (.newUniverse attrs [] none)).1.laws w.nV = some w.nW ∧
    (M.step F w (.newUniverse attrs [] (some L))).1.laws w.nV = some L := by
  have hL' : L < w.nW := by simpa [World.wOK] using hL
  rw [step_agree F w _ h, step_agree F w _ h]
  obtain ⟨w1, e1, _, l1⟩ := C.newUniverse_S w attrs [] none h (by simp) (by intro x hx; cases hx)
  obtain ⟨w2, e2, _, l2⟩ := C.newUniverse_S w attrs [] (some L) h (by simp)
    (by intro x hx; cases hx; exact hL')
  simp only [S.step, C.step, hL, e1, e2, List.all_nil]
  exact ⟨l1, l2⟩

/-- the rule attributes of a law set never change after construction, whatever is called -/
theorem C19_rules_immutable (F : Nat → LId → Option VId → Bool) (w : World) (op : Op) (L : WId)
    (hL : L < w.nW) : (M.step F w op).1.rules L = w.rules L :=
  C.step_rules M.prims_rulesPres F w op L hL

/-- … and read back what was passed to the constructor -/
theorem C19_rules_readback (F : Nat → LId → Option VId → Bool) (w : World) (r : Nat) :
    (M.step F w (.newLaws r)).2 = .laws w.nW ∧ (M.step F w (.newLaws r)).1.rules w.nW = r := by
  simp [M.step, C.step, M.allocLaws]

end EG
