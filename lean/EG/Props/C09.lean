import EG.Proofs.QueryLemmas
import EG.Props.C04
import EG.Props.C09Table
/-
  C09 (part 2: general theorems on the mirror model) — `find_links` returns exactly the links
  `neighbors()` would follow from a to b.
-/
namespace EG
open Tab

/-- relation of a link with ends `[x, y]` to the queried pair (a, b) -/
def relOf (x y : Option VId) (a b : VId) : Rel :=
  if otherOf x y a ≠ some b then .away
  else if a = b then .loop
  else if x = some a then .ab else .ba

/-- outcome of the `find_links` loop body for ONE link -/
def flOut (w : World) (F : Nat → LId → Option VId → Bool) (a b : VId) (ds : Bool) (unk : Nat)
    (filt : Option Nat) (l : LId) : FOut :=
  match M.flLoop w F a b ds unk filt none [l] [] 0 with
  | .error e => .raise e
  | .ok [] => .absent
  | .ok _ => .found

/-- `flOut` is the loop body `M.flOne` -/
theorem flOut_eq (w : World) (F : Nat → LId → Option VId → Bool) (a b : VId) (ds : Bool)
    (unk : Nat) (filt : Option Nat) (l : LId) :
    flOut w F a b ds unk filt l = M.flOne w F a b ds unk filt l := by
  rw [flOut, M.flLoop_single]
  cases M.flOne w F a b ds unk filt l <;> rfl

/-- the per-link rule, for every world -/
theorem C09_link_rule (w : World) (F : Nat → LId → Option VId → Bool) (a b : VId) (ds : Bool)
    (unk : Nat) (filt : Option Nat) (l : LId) (x y : Option VId)
    (he : w.ends l = [x, y]) (hk : (w.lcls l).kind ≠ .nary) :
    flOut w F a b ds unk filt l =
      specFl (w.lcls l).kind (relOf x y a b) ds unk (filtOf F filt l none) := by
  rw [flOut_eq]
  simp only [M.flOne, M.other, he, hk, List.getD_cons_zero, ↓reduceIte]
  have hu : unk = 0 ∨ unk = 1 ∨ 1 < unk := by omega
  cases hkind : (w.lcls l).kind <;> simp only [hkind] at hk ⊢
  all_goals
    rcases hu with rfl | rfl | hu <;> cases ds <;> cases filt <;>
    simp [specFl, relOf, otherOf, filtOf] <;> grind

/-- exactness: when the call returns, a link is in the result iff it is attached to `a` and
    its own outcome is `found`; the result has no duplicates (it is a set) -/
theorem C09_exact (w : World) (F : Nat → LId → Option VId → Bool) (a b : VId) (ds : Bool)
    (unk : Nat) (filt : Option Nat) (J : List LId)
    (h : M.findLinks w F a b ds unk filt = .ok J) :
    J.Nodup ∧ ∀ l, l ∈ J ↔ l ∈ w.links a ∧ flOut w F a b ds unk filt l = .found := by
  have := M.flLoop_exact w F a b ds unk filt (w.links a) [] 0 J h List.nodup_nil
  simpa [flOut_eq] using this

/-- the call raises iff some attached link's own outcome is a raise (the first such) -/
theorem C09_raises (w : World) (F : Nat → LId → Option VId → Bool) (a b : VId) (ds : Bool)
    (unk : Nat) (filt : Option Nat) :
    (∃ e, M.findLinks w F a b ds unk filt = .error e) ↔
      ∃ l ∈ w.links a, ∃ e, flOut w F a b ds unk filt l = .raise e := by
  simp only [flOut_eq]
  exact M.flLoop_raises w F a b ds unk filt (w.links a) [] 0

/-- size = multiplicity in `neighbors`: with direction sensitivity against FORWARD, without it
    against ANY — whenever both calls return, for a filter that looks at the link only -/
theorem C09_count (w : World) (F : Nat → LId → Option VId → Bool) (a b : VId) (unk : Nat)
    (filt : Option Nat) (hs : Sym w) (ha : TwoEndedAt w a)
    (hF : ∀ k l x, F k l x = F k l none)
    (J : List LId) (r : List (Option VId)) (ds : Bool)
    (h1 : M.findLinks w F a b ds unk filt = .ok J)
    (h2 : M.neighborsPure w F a (if ds then 0 else 1) unk filt = .ok r) :
    J.length = r.count (some b) := by
  rw [M.nbLoop_count w F a _ unk filt (some b) (w.links a) r h2,
    M.flLoop_eq_filter w F a b ds unk filt (w.links a) [] 0 J h1 (hs.2 a) (by simp), List.nil_append]
  congr 1
  apply List.filter_congr
  intro l hl
  obtain ⟨hk, hlen⟩ := ha l hl
  obtain ⟨x, y, he⟩ := M.ends_pair _ hlen
  simp only [M.flOne_found_iff w F a b ds unk filt l x y he hk hF]

/-- non-vacuity -/
example :
    let w := (M.run (fun _ _ _ => true)
      [.newVertex .V [] [] [], .newVertex .V [] [] [], .newEdge .D (some 0) (some 1),
       .newEdge .U (some 0) (some 1), .newEdge .D (some 1) (some 0), .newEdge .D (some 0) (some 0)]).1
    M.findLinks w (fun _ _ _ => true) 0 1 true 2 none = .ok [0, 1] ∧
    M.findLinks w (fun _ _ _ => true) 0 1 false 2 none = .ok [0, 1, 2] ∧
    M.findLinks w (fun _ _ _ => true) 0 0 true 2 none = .ok [3] := by
  intro w; exact ⟨by rfl, by rfl, by rfl⟩

end EG
