import EG.Proofs.UnlinkLemmas
import EG.Props.C09
/-
  C03 / C09 — `explicit.unlink(a, b)`: removes exactly the links joining a and b (every type,
  both directions), returns exactly those, afterwards `find_links(a, b)` is empty for every
  setting, and links between other pairs are still found.
  Stated for vertices all of whose links are proper two-ended links (exactly two ends).
-/
namespace EG

/-- every link attached to any vertex is a two-ended link with exactly two ends -/
def AllTwoEnded (w : World) : Prop := ∀ x, TwoEndedAt w x

/-- link `l` joins `a` and `b` (in either orientation; a self-loop when a = b) -/
def Joins (w : World) (l : LId) (a b : VId) : Prop :=
  w.ends l = [some a, some b] ∨ w.ends l = [some b, some a]

/-- what unlink returns / removes: exactly the links of `a` that join `a` and `b` -/
theorem C03_unlink_exact (F : Nat → LId → Option VId → Bool) (w : World) (a b : VId)
    (h : Inv w) (ht : AllTwoEnded w) (ha : w.vOK a = true) (hb : w.vOK b = true) :
    ∃ w' J, M.step F w (.unlink a b false) = (w', .links J) ∧
      M.step F w (.unlink a b true) = (w', .nothing) ∧
      J.Nodup ∧ (∀ l, l ∈ J ↔ l ∈ w.links a ∧ Joins w l a b) ∧
      -- the joining links are detached from both ends and lose both ends …
      (∀ l ∈ J, w'.ends l = []) ∧
      (∀ v, w'.links v = (w.links v).filter (fun l => !(J.contains l))) ∧
      -- … and every other link is untouched
      (∀ l, l ∉ J → w'.ends l = w.ends l) ∧
      w'.members = w.members ∧ w'.unis = w.unis ∧ w'.laws = w.laws ∧ Inv w' := by
  obtain ⟨w', J, hstep, hn, hm, he, hl, ho, hf, hi⟩ := unlink_core F w a b h ht ha hb
  exact ⟨w', J, hstep false, hstep true, hn, hm, he, hl, ho, hf.members, hf.unis, hf.laws, hi⟩

/-- after unlink(a, b) `find_links(a, b)` (and `(b, a)`) is empty for every direction flag,
    unknown-handling value and filter -/
theorem C09_after_unlink_empty (F : Nat → LId → Option VId → Bool) (w : World) (a b : VId)
    (h : Inv w) (ht : AllTwoEnded w) (ha : w.vOK a = true) (hb : w.vOK b = true)
    (ds : Bool) (unk : Nat) (filt : Option Nat) :
    let w' := (M.step F w (.unlink a b true)).1
    M.findLinks w' F a b ds unk filt = .ok [] ∧ M.findLinks w' F b a ds unk filt = .ok [] := by
  obtain ⟨w', J, hstep, hn, hm, he, hl, ho, hf, hi⟩ := unlink_core F w a b h ht ha hb
  simp only [hstep true]
  -- a link that survives in `links' v` is an unchanged link of `v` outside `J`
  have surv : ∀ v l, l ∈ w'.links v →
      l ∈ w.links v ∧ l ∉ J ∧ w'.lcls l = w.lcls l ∧ w'.ends l = w.ends l := by
    intro v l hlv
    rw [hl v, List.mem_filter] at hlv
    have hnJ : l ∉ J := by simpa using hlv.2
    exact ⟨hlv.1, hnJ, by rw [hf.lcls], ho l hnJ⟩
  constructor
  · apply M.flLoop_all_absent
    intro l hlv
    obtain ⟨hla, hnJ, e1, e2⟩ := surv a l hlv
    rw [M.flOne_congr w w' F a b ds unk filt l e1 e2]
    obtain ⟨o, hoo, hj⟩ := M.other_joins w a b l h.1 hla (ht a l hla).1 (ht a l hla).2
    apply M.flOne_absent_of_other _ _ _ _ _ _ _ _ o hoo
    intro hob
    exact hnJ ((hm l).mpr ⟨hla, hj.mp hob⟩)
  · apply M.flLoop_all_absent
    intro l hlv
    obtain ⟨hlb, hnJ, e1, e2⟩ := surv b l hlv
    rw [M.flOne_congr w w' F b a ds unk filt l e1 e2]
    obtain ⟨o, hoo, hj⟩ := M.other_joins w b a l h.1 hlb (ht b l hlb).1 (ht b l hlb).2
    apply M.flOne_absent_of_other _ _ _ _ _ _ _ _ o hoo
    intro hob
    have hj' := hj.mp hob
    have hla : l ∈ w.links a := by
      rw [h.1.1 a l]
      rcases hj' with e | e <;> rw [e] <;> simp
    exact hnJ ((hm l).mpr ⟨hla, hj'.symm⟩)

/-- … while links between other pairs are still found exactly as before -/
theorem C09_after_unlink_others (F : Nat → LId → Option VId → Bool) (w : World) (a b c d : VId)
    (h : Inv w) (ht : AllTwoEnded w) (ha : w.vOK a = true) (hb : w.vOK b = true)
    (hne : ¬ ((c = a ∧ d = b) ∨ (c = b ∧ d = a)))
    (ds : Bool) (unk : Nat) (filt : Option Nat) :
    let w' := (M.step F w (.unlink a b true)).1
    M.findLinks w' F c d ds unk filt = M.findLinks w F c d ds unk filt := by
  obtain ⟨w', J, hstep, hn, hm, he, hl, ho, hf, hi⟩ := unlink_core F w a b h ht ha hb
  simp only [hstep true, M.findLinks]
  rw [hl c]
  -- the surviving links are read identically in both worlds …
  rw [M.flLoop_congr w w' F c d ds unk filt none _ (by
    intro l hlv
    rw [List.mem_filter] at hlv
    have hnJ : l ∉ J := by simpa using hlv.2
    exact ⟨by rw [hf.lcls], ho l hnJ⟩)]
  -- … and the removed ones were skipped by the loop anyway
  apply M.flLoop_filter_absent
  intro l hlc hp
  have hlJ : l ∈ J := by simpa using hp
  have hj := ((hm l).mp hlJ).2
  obtain ⟨o, hoo, hne'⟩ := M.other_of_joins_ne w a b c d l hj (ht c l hlc).1
    ((h.1.1 c l).mp hlc) hne
  exact M.flOne_absent_of_other w F c d ds unk filt l o hoo hne'

/-- non-vacuity -/
example :
    let F : Nat → LId → Option VId → Bool := fun _ _ _ => true
    let w := (M.run F [.newVertex .V [] [] [], .newVertex .V [] [] [], .newVertex .V [] [] [],
      .newEdge .D (some 0) (some 1), .newEdge .U (some 1) (some 0), .newEdge .X (some 0) (some 1),
      .newEdge .D (some 0) (some 2), .newEdge .D (some 0) (some 0)]).1
    (M.step F w (.unlink 0 1 false)).2 = .links [0, 1, 2] ∧
    (M.step F w (.unlink 0 1 false)).1.links 0 = [3, 4] ∧
    (M.step F w (.unlink 0 0 false)).2 = .links [4] := by
  intro F w; exact ⟨by decide +kernel, by decide +kernel, by decide +kernel⟩

end EG
