import EG.Generated.PumlTables
/-
  C14 (the tie to the code, regenerated on every run) — the real `render_to_plantuml_src`,
  evaluated on
    * every two-ended link class × every placement of its two ends among two members and an
      outsider (54 rows): the relation line it emits,
    * every vertex class of the pool × every set of configured vertex classes (384 rows) and
      every link class × every set of configured link classes (384 rows): WHICH configured class's
      options it uses (the walk along the real `__mro__`),
  agrees row by row with the mirror model (`R.pumlDoc`, `R.resolveV`, `R.resolveL` of EG.Render),
  and — for links between members — with the statement (`title(v1) --> title(v2)` for directed,
  `--` for undirected classes, nearest configured class).  Kernel evaluation over the complete
  tables; no axioms beyond propext.
-/
namespace EG
namespace Tab

theorem C14_tables_complete :
    implRel.length = 54 ∧ implResV.length = 384 ∧ implResL.length = 384 := by
  refine ⟨?_, ?_, ?_⟩ <;> decide +kernel

/-- real code = mirror model: the relation line of every one-link world -/
theorem C14_rel_impl_eq_model : implRel.all relRowOk = true := by decide +kernel

/-- real code = the statement on every row whose link joins two members -/
theorem C14_rel_impl_eq_spec : implRel.all relRowSpecOk = true := by decide +kernel

/-- real code = mirror model: the configured class used for every vertex class and every
    configuration (this is what ties `vMro` to the real method resolution orders) -/
theorem C14_resolveV_impl_eq_model : implResV.all resVRowOk = true := by decide +kernel

/-- … and for every link class (`lMro`) -/
theorem C14_resolveL_impl_eq_model : implResL.all resLRowOk = true := by decide +kernel

end Tab
end EG
