import EG.Generated.TrueSingletonTable
/-
  C18 (the tie to the code, regenerated on every run) — the complete one-step transition table of
  the true singletons over the pool of four classes (a class, a subclass of it, a class with falsy
  instances, a class whose metaclass derives from TrueSingleton): from each of the 16 sets of
  classes that have an instance, each of the 17 calls made on the REAL metaclass does what the
  mirror model does and leaves the same set of classes with an instance
  (`C18_ts_impl_eq_model`), and that is what the statement says (`C18_ts_impl_eq_spec`).  All 16
  states occur as a row state and as a result, so this is the pool's whole state machine.
-/
namespace EG
namespace Tab

theorem C18_ts_table_complete : implTS.length = 272 := by decide +kernel

theorem C18_ts_impl_eq_model : implTS.all tsRowOk = true := by decide +kernel

theorem C18_ts_impl_eq_spec : implTS.all tsRowSpecOk = true := by decide +kernel

end Tab
end EG
