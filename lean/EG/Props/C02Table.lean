import EG.Generated.UniTable
/-
  C02 (the tie to the code, regenerated on every run) — the complete one-step transition table of
  universe membership over two vertices and two universes: the REAL code reaches 45 states (the
  four ORDERED membership lists) from the empty one; from each, each of the 16 calls (add / remove
  from the universe's side and from the vertex's side) raises or not and leaves the four lists
  exactly as the mirror model says (`C02_uni_impl_eq_model`), and the lists are symmetric and
  duplicate-free afterwards (`C02_uni_impl_eq_spec`).  The exploration stops when no call leads
  to a new state, so the table is the pool's whole state machine (45 × 16 = 720 rows).
-/
namespace EG
namespace Tab

theorem C02_uni_table_complete : implUni.length = 720 ∧ implUniStates = 45 := by
  constructor <;> decide +kernel

theorem C02_uni_impl_eq_model : implUni.all uniRowOk = true := by decide +kernel

theorem C02_uni_impl_eq_spec : implUni.all uniRowSpecOk = true := by decide +kernel

end Tab
end EG
