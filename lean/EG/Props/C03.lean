import EG.Proofs.Inv
/-
  C03 — every mutation has exactly its documented effect and no other: the mirror model
  (what is compared with the code) equals the plain reference model S on every history,
  worlds and return values alike; frame corollaries are read off S's closed forms.
-/
namespace EG

/-- replaying any history: same world (every field, caches included) and same answers -/
theorem C03_refinement (F : Nat → LId → Option VId → Bool) (ops : List Op) :
    M.run F ops = S.run F ops := (run_agree F ops).1

/-- assigning v1/v2 (idx 0/1) of a link with both ends present: that entry, and only that
    entry, becomes the assigned vertex; every other link's ends, every universe membership,
    and the ordered `links` of every vertex other than the previous and the new end are
    untouched -/
theorem C03_setEnd_frame (F : Nat → LId → Option VId → Bool) (w : World) (l : LId) (x : Option VId)
    (idx : Nat) (hidx : idx = 0 ∨ idx = 1)
    (h : Inv w) (hl : w.twoEnded l = true) (hx : w.ovOK x = true) (hlen : 2 ≤ (w.ends l).length) :
    let w' := (M.step F w (if idx = 0 then .setV1 l x else .setV2 l x)).1
    w'.ends l = (w.ends l).set idx x ∧
    (∀ l', l' ≠ l → w'.ends l' = w.ends l') ∧
    (∀ v, some v ≠ (w.ends l).getD idx none → some v ≠ x → w'.links v = w.links v) ∧
    w'.members = w.members ∧ w'.unis = w.unis ∧ w'.laws = w.laws := by
  have hlen' : ¬ (w.ends l).length < 2 := by omega
  rcases hidx with rfl | rfl
  · simp only [if_true]
    rw [step_agree F w _ h]
    simp only [S.step, C.step, hl, hx, C.setEnd_S, hlen', C.ofExc, S.replaceEnd, if_false,
      Bool.not_true, Bool.or_self, Bool.false_eq_true, if_true]
    refine ⟨trivial, ?_, ?_, trivial, trivial, trivial⟩
    · intro l' hl'; simp [hl']
    · intro v h1 h2; rw [List.getD_eq_getElem?_getD] at h1; simp [h1, h2]
  · simp only [if_false, Nat.one_ne_zero]
    rw [step_agree F w _ h]
    simp only [S.step, C.step, hl, hx, C.setEnd_S, hlen', C.ofExc, S.replaceEnd, if_false,
      Bool.not_true, Bool.or_self, Bool.false_eq_true, if_true]
    refine ⟨trivial, ?_, ?_, trivial, trivial, trivial⟩
    · intro l' hl'; simp [hl']
    · intro v h1 h2; rw [List.getD_eq_getElem?_getD] at h1; simp [h1, h2]

/-- the previous vertex is detached only if it is no longer an end; if it still is, its
    ordered links are exactly as before -/
theorem C03_setEnd_keeps_if_still_end (F : Nat → LId → Option VId → Bool) (w : World) (l : LId)
    (x : Option VId) (idx : Nat) (hidx : idx = 0 ∨ idx = 1) (o : VId)
    (h : Inv w) (hl : w.twoEnded l = true) (hx : w.ovOK x = true) (hlen : 2 ≤ (w.ends l).length)
    (ho : (w.ends l).getD idx none = some o) (hstill : some o ∈ (w.ends l).set idx x) :
    (M.step F w (if idx = 0 then .setV1 l x else .setV2 l x)).1.links o = w.links o := by
  have hlen' : ¬ (w.ends l).length < 2 := by omega
  have hmem : some o ∈ w.ends l := by
    have hi : idx < (w.ends l).length := by omega
    rw [← ho, List.getD_eq_getElem?_getD, List.getElem?_eq_getElem hi]; simp
  have hlk : l ∈ w.links o := (h.1.1 o l).mpr hmem
  rcases hidx with rfl | rfl
  · simp only [if_true]
    rw [step_agree F w _ h]
    simp [S.step, C.step, hl, hx, C.setEnd_S, hlen', C.ofExc, S.replaceEnd, hstill, hlk]
  · simp only [if_false, Nat.one_ne_zero]
    rw [step_agree F w _ h]
    simp [S.step, C.step, hl, hx, C.setEnd_S, hlen', C.ofExc, S.replaceEnd, hstill, hlk]

/-- end assignment on an edge that has lost an end raises IndexError and changes nothing -/
theorem C03_setEnd_lost_end (F : Nat → LId → Option VId → Bool) (w : World) (l : LId) (x : Option VId)
    (hl : w.twoEnded l = true) (hx : w.ovOK x = true) (hlen : (w.ends l).length < 2) :
    M.step F w (.setV1 l x) = (w, .err .index) ∧ M.step F w (.setV2 l x) = (w, .err .index) := by
  simp [M.step, C.step, hl, hx, C.setEnd, hlen, C.ofExc]

/-- creating an edge appends it to the links of both ends (once for a self-loop), in
    v1-then-v2 order, and touches no other vertex and no other link -/
theorem C03_newEdge_appends (F : Nat → LId → Option VId → Bool) (w : World) (c : LCls) (a b : VId)
    (h : Inv w) (hc : c.kind ≠ .nary) (ha : w.vOK a = true) (hb : w.vOK b = true) :
    let r := M.step F w (.newEdge c (some a) (some b))
    r.2 = .link w.nL ∧ r.1.ends w.nL = [some a, some b] ∧
    r.1.links a = w.links a ++ [w.nL] ∧ r.1.links b = w.links b ++ [w.nL] ∧
    (∀ v, v ≠ a → v ≠ b → r.1.links v = w.links v) ∧
    (∀ l', l' ≠ w.nL → r.1.ends l' = w.ends l') := by
  have he : w.ends w.nL = [] := h.2.2.2.1 _ (Nat.le_refl _)
  have hn : ∀ v, w.nL ∉ w.links v := by
    intro v hv; have := (h.1.1 v w.nL).mp hv; rw [he] at this; simp at this
  have hc' : (c.kind == Kind.nary) = false := by simpa using hc
  simp only []
  rw [step_agree F w _ h]
  simp only [S.step, C.step, hc', World.ovOK, ha, hb, C.newLink, M.allocLink, C.addVertices, S.prims,
    S.addVertex, upd, Bool.not_true, Bool.or_self, Bool.false_eq_true, if_false]
  refine ⟨trivial, ?_, ?_, ?_, ?_, ?_⟩
  · simp
  · simp [hn]
  · by_cases hab : b = a
    · subst hab; simp [hn]
    · simp [hn, hab]
  · intro v hva hvb; simp [hva, hvb]
  · intro l' hl'; simp [hl']

/-- dontdup=True creates nothing when a joining link already exists: it returns the first
    link of `a` whose other end is `b`, and the world is unchanged -/
theorem C03_dontdup_creates_nothing (F : Nat → LId → Option VId → Bool) (w : World) (c : LCls)
    (a b : VId) (l : LId)
    (hc : c.kind ≠ .nary) (ha : w.vOK a = true) (hb : w.vOK b = true)
    (hj : M.firstJoining w a b (w.links a) = .ok (some l)) :
    M.step F w (.linkFromTo a c b true) = (w, .link l) := by
  have hc' : (c.kind == Kind.nary) = false := by simpa using hc
  simp [M.step, C.step, hc', ha, hb, C.linkFromTo, hj]

end EG
