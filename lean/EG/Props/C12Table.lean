import EG.Generated.ExchangeTable
/-
  C12 (the tie to the code, regenerated on every run) — the alias-free model of EG.Alias, about
  which `C12_noninterference` is proved, is the model in which NO exchange point shares a
  collection with the caller.  Whether the code is that model is measured on every run: for every
  point at which the library hands a collection out (the five accessors, `neighbors()` with empty /
  non-empty answers from a miss and from a hit, `find_links`, the three traversals) or takes one in
  (the `universes=` / `links=` / `vertices=` / `edge_whitelist=` constructor arguments, plain and
  as read-only views, the inputs of the two adjacency builders, the result of `unlink`), with
  caching off, on, and on for one vertex class only, the caller's collection is edited in every way
  its type allows and the row records whether anything observable changed.  The theorem says no
  row does (114 rows; kernel evaluation).
-/
namespace EG
namespace A

theorem C12_exchange_table_complete : implExchange.length = 114 := by decide +kernel

/-- the real code shares no collection with the caller at any exchange point, in any state of
    the table: it is the alias-free model -/
theorem C12_exchange_no_leak : implExchange.all (fun r => !r.leaks) = true := by decide +kernel

end A
end EG
