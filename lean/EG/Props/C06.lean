import EG.Proofs.TravCore
/-
  C06 — every traversal visits exactly the reachable in-universe vertices, once each.
  `nb` is the resolved `neighbors()` function under the chosen direction / unknown-handling /
  ff_via settings, `inU` the universe test (`fun _ => true` for `uni=None`), `ffr` the
  ff_result predicate.  Property theorems only.
-/
namespace EG
namespace T

variable (nb : Nat → List Nat) (inU : Nat → Bool) (ffr : Nat → Bool)

/-! ### ff_result only removes entries from the listing (any fuel, any graph) -/

theorem C06_ff_result_bft (f s : Nat) :
    bft nb inU ffr f s = (bft nb inU (fun _ => true) f s).filter ffr := by
  have e : (if ffr s = true then [s] else []) = [s].filter ffr := by
    by_cases h : ffr s = true <;> simp [h]
  unfold bft
  rw [e, bftLoop_ff nb inU ffr f [s] [s] [s]]
  simp

theorem C06_ff_result_dftRecursive (f s : Nat) :
    dftRecursive nb inU ffr f s = (dftRecursive nb inU (fun _ => true) f s).filter ffr := by
  obtain ⟨m, hm⟩ := dftRec_shape nb inU f [] s
  simp [dftRecursive, hm]

theorem C06_ff_result_dftIterative (f s : Nat) :
    dftIterative nb inU ffr f s = (dftIterative nb inU (fun _ => true) f s).filter ffr := by
  have := dftIterLoop_ff nb inU ffr f [s] [] []
  simpa [dftIterative] using this

/-! ### termination: with enough fuel the result no longer depends on the fuel -/

theorem C06_bft_terminates (n : Nat) (hb : Bounded nb n) (s : Nat) (hs : s < n) (f : Nat)
    (hf : n + 1 ≤ f) : bft nb inU ffr f s = bft nb inU ffr (n + 1) s := by
  unfold bft
  have hi : BInv n [s] [s] := ⟨⟨by simp, by simpa using hs⟩, by simp⟩
  exact bftLoop_fuel inU ffr hb f (n + 1) [s] [s] _ hi (by simp; omega) (by simp; omega)

theorem C06_dftRecursive_terminates (n : Nat) (hb : Bounded nb n) (s : Nat) (hs : s < n) (f : Nat)
    (hf : n + 1 ≤ f) : dftRecursive nb inU ffr f s = dftRecursive nb inU ffr (n + 1) s := by
  unfold dftRecursive
  have hg : Good n ([], ([] : List Nat)).1 := ⟨by simp, by simp⟩
  rw [dftRec_fuel inU ffr hb f (n + 1) ([], []) s hg hs (by simp) (by simp; omega) (by simp)]

theorem C06_dftIterative_terminates (n : Nat) (hb : Bounded nb n) (s : Nat) (hs : s < n) (f : Nat)
    (hf : n + degSum nb n + 2 ≤ f) :
    dftIterative nb inU ffr f s = dftIterative nb inU ffr (n + degSum nb n + 2) s := by
  unfold dftIterative
  have hi : IInv n [s] [] := ⟨⟨by simp, by simp⟩, by simpa using hs⟩
  exact dftIterLoop_fuel inU ffr hb f _ [s] [] [] hi
    (by simp [remW_nil_range]; omega) (by simp [remW_nil_range]; omega)

/-! ### exactness, no repetition, start first (unfiltered listing; start is a member) -/

theorem C06_bft_exact (n : Nat) (hb : Bounded nb n) (s : Nat) (hs : s < n) (f : Nat)
    (hf : n + 1 ≤ f) :
    let out := bft nb inU (fun _ => true) f s
    out.Nodup ∧ out.head? = some s ∧ ∀ x, x ∈ out ↔ Reach nb inU s x := by
  have hi : BInv n [s] [s] := ⟨⟨by simp, by simpa using hs⟩, by simp⟩
  have hi2 : BInv2 nb inU s [s] [s] :=
    ⟨by simp, by intro x hx; simp at hx; subst hx; exact Reach.refl, by simp⟩
  have := bftLoop_exact hb f [s] [s] hi hi2 (by simp; omega)
  simpa [bft] using this

theorem C06_dftRecursive_exact (n : Nat) (hb : Bounded nb n) (s : Nat) (hs : s < n) (f : Nat)
    (hf : n + 1 ≤ f) :
    let out := dftRecursive nb inU (fun _ => true) f s
    out.Nodup ∧ out.head? = some s ∧ ∀ x, x ∈ out ↔ Reach nb inU s x := by
  obtain ⟨m, hm⟩ := dftRec_shape nb inU f [] s
  have hg : Good n ([], ([] : List Nat)).1 := ⟨by simp, by simp⟩
  obtain ⟨p, mo, e⟩ := dftRec_post (fun _ => true) hb (P := Reach nb inU s)
    (fun x y hx hy hu => Reach.step hx hy hu) f ([], []) s hg hs (by simp) (by simp; omega)
    Reach.refl (by simp)
  have hm0 := hm (fun _ => true) []
  have e' : m = s :: mo := by rw [hm0] at e; simpa using e
  subst e'
  have hout : dftRecursive nb inU (fun _ => true) f s = s :: mo := by
    simp [dftRecursive, hm0]
  rw [hm0] at p
  simp only [List.nil_append] at p
  simp only [hout]
  refine ⟨p.good.1, by simp, fun x => ⟨p.inv x, ?_⟩⟩
  exact reach_mem_of_closed nb inU (by simp) (fun y hy => p.closed y hy (by simp)) x

theorem C06_dftIterative_exact (n : Nat) (hb : Bounded nb n) (s : Nat) (hs : s < n)
    (hsU : inU s = true) (f : Nat) (hf : n + degSum nb n + 2 ≤ f) :
    let out := dftIterative nb inU (fun _ => true) f s
    out.Nodup ∧ out.head? = some s ∧ ∀ x, x ∈ out ↔ Reach nb inU s x := by
  have hi : IInv n [s] [] := ⟨⟨by simp, by simp⟩, by simpa using hs⟩
  have hi2 : IInv2 nb inU s [s] [] :=
    ⟨by intro x hx _; simp at hx; subst hx; exact Reach.refl, by simp, by simp, Or.inl ⟨rfl, rfl⟩⟩
  have := dftIterLoop_exact hb hsU f [s] [] hi hi2 (by simp [remW_nil_range]; omega)
  simpa [dftIterative] using this

/-- the three traversals agree as sets -/
theorem C06_agree_as_sets (n : Nat) (hb : Bounded nb n) (s : Nat) (hs : s < n) (hsU : inU s = true)
    (x : Nat) :
    (x ∈ bft nb inU (fun _ => true) (n + 1) s ↔ x ∈ dftRecursive nb inU (fun _ => true) (n + 1) s) ∧
    (x ∈ bft nb inU (fun _ => true) (n + 1) s ↔
      x ∈ dftIterative nb inU (fun _ => true) (n + degSum nb n + 2) s) := by
  have h1 := (C06_bft_exact nb inU n hb s hs (n + 1) (Nat.le_refl _)).2.2 x
  have h2 := (C06_dftRecursive_exact nb inU n hb s hs (n + 1) (Nat.le_refl _)).2.2 x
  have h3 := (C06_dftIterative_exact nb inU n hb s hs hsU (n + degSum nb n + 2) (Nat.le_refl _)).2.2 x
  exact ⟨h1.trans h2.symm, h1.trans h3.symm⟩

/-- non-vacuity: a 4-cycle with a chord, a self-loop, a parallel edge and an outsider -/
example :
    let nb : Nat → List Nat := fun v => match v with
      | 0 => [1, 1, 2] | 1 => [2, 0] | 2 => [2, 3, 4] | 3 => [0] | 4 => [5] | _ => []
    let inU : Nat → Bool := fun v => v != 4
    bft nb inU (fun _ => true) 7 0 = [0, 1, 2, 3] ∧
    dftRecursive nb inU (fun _ => true) 7 0 = [0, 1, 2, 3] ∧
    dftIterative nb inU (fun _ => true) 20 0 = [0, 2, 3, 1] := by decide

end T
end EG
