import EG.Alias
/-
  C12 — containers handed out or taken in are snapshots; mutating them changes nothing.
  In the mirror model every accessor returns a value and every constructor argument is a
  value, so the theorem is short; its content is that the MODEL the code is compared with has
  no aliasing at all.  The weight of C12 is in the correspondence: the harness really mutates
  every container the real code hands out or is given, and every later observation must still
  agree with this alias-free model.
-/
namespace EG
namespace A

theorem run_world_answers (F : Nat → LId → Option VId → Bool) (ops : List AOp) :
    ∀ s s' : State, s.w = s'.w →
      (run F s ops).1.w = (run F s' (calls ops)).1.w ∧
      callAnswers ops (run F s ops).2 = (run F s' (calls ops)).2 := by
  induction ops with
  | nil => intro s s' h; exact ⟨h, rfl⟩
  | cons op ops ih =>
    intro s s' h
    cases op with
    | call o =>
      have h1 : (step F s (.call o)).1.w = (step F s' (.call o)).1.w := by simp [step, h]
      have h2 : (step F s (.call o)).2 = (step F s' (.call o)).2 := by simp [step, h]
      obtain ⟨ih1, ih2⟩ := ih _ _ h1
      refine ⟨by simpa [run, calls] using ih1, ?_⟩
      simp only [run, calls, callAnswers]
      rw [ih2, h2]
    | mutate i e =>
      have h1 : (step F s (.mutate i e)).1.w = s'.w := by simp [step, h]
      obtain ⟨ih1, ih2⟩ := ih _ s' h1
      exact ⟨by simpa [run, calls] using ih1, by simpa [run, calls, callAnswers] using ih2⟩

/-- non-interference: for every history interleaving public calls with arbitrary caller-side
    edits of any container handed out so far (caching on or off — the flag is part of the
    world), the world and the answers of all public calls are those of the history with the
    edits erased -/
theorem C12_noninterference (F : Nat → LId → Option VId → Bool) (ops : List AOp) (w : World) :
    (run F ⟨w, []⟩ ops).1.w = (run F ⟨w, []⟩ (calls ops)).1.w ∧
    callAnswers ops (run F ⟨w, []⟩ ops).2 = (run F ⟨w, []⟩ (calls ops)).2 :=
  run_world_answers F ops _ _ rfl

/-- a handed-out container is a copy: the cached `neighbors()` answer is not the list the
    caller holds — editing the caller's list leaves the memo (and every later answer) alone -/
theorem C12_cached_answer_detached (F : Nat → LId → Option VId → Bool) (w : World) (v : VId)
    (dir unk : Nat) (filt : Option Nat) (e : Edit) :
    let s1 := (step F ⟨w, []⟩ (.call (.neighbors v dir unk filt none))).1
    let s2 := (step F s1 (.mutate 0 e)).1
    s2.w = s1.w ∧ (step F s2 (.call (.neighbors v dir unk filt none))).2 =
      (step F s1 (.call (.neighbors v dir unk filt none))).2 := by
  intro s1 s2
  have : s2.w = s1.w := by simp [s2, step]
  exact ⟨this, by simp [step, this]⟩

/-- non-vacuity: the caller clears and appends to two results; later answers are unaffected -/
example :
    let F : Nat → LId → Option VId → Bool := fun _ _ _ => true
    let ops : List AOp :=
      [.call (.newVertex .V [] [] []), .call (.newVertex .V [] [] []), .call (.flag true),
       .call (.newEdge .D (some 0) (some 1)), .call (.neighbors 0 0 2 none none),
       .mutate 0 (.append (some 0)), .mutate 0 .clear, .call (.neighbors 0 0 2 none none)]
    (run F ⟨World.init, []⟩ ops).2.getLast? = some (.verts [some 1]) := by
  intro F ops; decide +kernel

end A
end EG
