import EG.Uni
/-
  EG.StructSpec — the plain reference model S of the association primitives:
  closed-form descriptions of the effect on every field, no recursion, no
  ordering of guards.  `EG.Proofs.StructRefine` proves that the mirror model M
  (with any fuel ≥ a small constant) computes exactly these worlds.
-/
namespace EG
namespace S

/-- `v.add_to_link(l)` : append `l` to `links v` unless present; if the link did not
    list `v`, append `v` to its ends.  Caches: `v`, and — when the end list changed —
    every vertex the link now lists. -/
def addToLink (w : World) (v : VId) (l : LId) : World :=
  { w with
    links := fun x => if x = v ∧ l ∉ w.links v then w.links v ++ [l] else w.links x
    ends := fun y => if y = l ∧ l ∉ w.links v ∧ some v ∉ w.ends l then w.ends l ++ [some v] else w.ends y
    cache := fun x =>
      if x = v ∨ (l ∉ w.links v ∧ some v ∉ w.ends l ∧ some x ∈ w.ends l) then [] else w.cache x }

/-- `l.add_vertex(new)` : always append `new` to the ends; attach `l` to `new` unless
    attached.  Caches: every vertex listed afterwards. -/
def addVertex (w : World) (l : LId) (new : Option VId) : World :=
  { w with
    links := fun x => if some x = new ∧ l ∉ w.links x then w.links x ++ [l] else w.links x
    ends := fun y => if y = l then w.ends l ++ [new] else w.ends y
    cache := fun x => if some x ∈ w.ends l ++ [new] then [] else w.cache x }

/-- `v.remove_from_link(l)` (for duplicate-free `links v`): if attached, detach and drop
    every occurrence of `v` from the ends.  Caches: `v`, and every vertex listed before. -/
def removeFromLink (w : World) (v : VId) (l : LId) : World :=
  { w with
    links := fun x => if x = v then (w.links v).erase l else w.links x
    ends := fun y => if y = l ∧ l ∈ w.links v then (w.ends l).filter (· != some v) else w.ends y
    cache := fun x =>
      if x = v ∨ (l ∈ w.links v ∧ some v ∈ w.ends l ∧ some x ∈ w.ends l) then [] else w.cache x }

/-- `l.unlink_from(kill)` (for duplicate-free `links`): if listed, drop every occurrence
    of the vertex (the first `None` for `None`) and detach the link from it. -/
def unlinkFrom (w : World) (l : LId) (kill : Option VId) : World :=
  match kill with
  | none =>
    { w with
      ends := fun y => if y = l then (w.ends l).erase none else w.ends y
      cache := fun x => if none ∈ w.ends l ∧ some x ∈ w.ends l then [] else w.cache x }
  | some k =>
    { w with
      links := fun x => if x = k ∧ some k ∈ w.ends l then (w.links k).erase l else w.links x
      ends := fun y => if y = l then (w.ends l).filter (· != some k) else w.ends y
      cache := fun x => if some k ∈ w.ends l ∧ some x ∈ w.ends l then [] else w.cache x }

/-- assignment to end `idx` (0 = v1, 1 = v2) of a link with at least `idx+1` entries:
    that entry becomes `new`; the previous vertex is detached iff it is no longer listed;
    the new one is attached iff it was not; nothing else changes. -/
def replaceEnd (w : World) (l : LId) (idx : Nat) (new : Option VId) : World :=
  let old := (w.ends l).getD idx none
  let es := (w.ends l).set idx new
  { w with
    links := fun x =>
      let ls := if some x = old ∧ some x ∉ es then (w.links x).erase l else w.links x
      if some x = new ∧ l ∉ ls then ls ++ [l] else ls
    ends := fun y => if y = l then es else w.ends y
    cache := fun x => if some x ∈ w.ends l ∨ some x ∈ es then [] else w.cache x }

end S
end EG

namespace EG
namespace S

/-! ### universe membership (reference model; for duplicate-free lists) -/

/-- `u.add_vertex(v)` : append `v` to the members unless present; then `u` is appended to
    `v`'s universes unless present. -/
def uniAddVertex (w : World) (u v : VId) : World :=
  { w with
    members := fun x => if x = u ∧ v ∉ w.members u then w.members u ++ [v] else w.members x
    unis := fun x => if x = v ∧ v ∉ w.members u ∧ u ∉ w.unis v then w.unis v ++ [u] else w.unis x }

/-- `v.add_to_universe(u)` -/
def addToUniverse (w : World) (v u : VId) : World :=
  { w with
    unis := fun x => if x = v ∧ u ∉ w.unis v then w.unis v ++ [u] else w.unis x
    members := fun x => if x = u ∧ v ∉ w.members u then w.members u ++ [v] else w.members x }

/-- `u.remove_vertex(v)` for a member `v` -/
def uniRemoveVertex (w : World) (u v : VId) : World :=
  { w with
    members := fun x => if x = u then (w.members u).erase v else w.members x
    unis := fun x => if x = v then (w.unis v).erase u else w.unis x }

/-- `v.remove_from_universe(u)` for a listed universe `u` -/
def removeFromUniverse (w : World) (v u : VId) : World :=
  { w with
    unis := fun x => if x = v then (w.unis v).erase u else w.unis x
    members := fun x => if x = u then (w.members u).erase v else w.members x }

/-! ### universe ↔ laws (reference model; for worlds where the two point at each other) -/

/-- `u.laws = new` : `u` gets `new`; whoever held `new` loses it; `u`'s previous law set is
    detached. -/
def setLaws (w : World) (u : VId) (new : Option WId) : World :=
  if new = w.laws u then w else
  { w with
    laws := fun x => if x = u then new else if new.isSome ∧ w.laws x = new then none else w.laws x
    appliesTo := fun y =>
      if some y = new then some u else if some y = w.laws u then none else w.appliesTo y }

/-- `L.applies_to = new` -/
def setAppliesTo (w : World) (L : WId) (new : Option VId) : World :=
  if new = w.appliesTo L then w else
  { w with
    appliesTo := fun y =>
      if y = L then new else if new.isSome ∧ w.appliesTo y = new then none else w.appliesTo y
    laws := fun x =>
      if some x = new then some L else if some x = w.appliesTo L then none else w.laws x }

end S

/-- C02: membership is symmetric and both lists are duplicate-free. -/
def USym (w : World) : Prop :=
  (∀ v u, v ∈ w.members u ↔ u ∈ w.unis v) ∧ (∀ u, (w.members u).Nodup) ∧ ∀ v, (w.unis v).Nodup

/-- C19: `u.laws is L` exactly when `L.applies_to is u`. -/
def LawSym (w : World) : Prop :=
  ∀ u L, w.laws u = some L ↔ w.appliesTo L = some u

end EG
