import EG.Query
/-
  EG.TableSpec — the finite decision tables of `neighbors` (C04) and `find_links` (C09).

  A *row* fixes the class of ONE link, the position of the queried vertex in it, the
  direction / unknown-handling arguments and the filter outcome.  For every row
    * the harness evaluates the REAL function on the one-link graph and writes the result
      into EG/Generated/*.lean on every run (translation by exhaustive execution),
    * `modelNb` / `modelFl` evaluate the mirror model on the same one-link world,
    * `specNb` / `specFl` give the outcome as the property statement reads.
  EG/Props/C04.lean and C09.lean prove (by kernel evaluation over the complete tables)
  impl = model on every row and model = spec on every row the statement covers.
-/
namespace EG
namespace Tab

/-- position of the queried vertex (id 0) in the link; the other vertex is id 1 -/
inductive Pos | v1 | v2 | both | neither
  deriving DecidableEq, Repr

/-- filter argument: none, a filter accepting everything, a filter rejecting everything -/
inductive Filt | none | acc | rej
  deriving DecidableEq, Repr

/-- outcome for the single link: the neighbour emitted, nothing, or the exception raised -/
inductive Out | emit (x : Option VId) | skip | raise (e : Err)
  deriving DecidableEq, Repr

structure NbRow where
  cls : LCls
  pos : Pos
  dir : Nat
  unk : Nat
  filt : Filt
  out : Out
  deriving DecidableEq, Repr

def Pos.ends : Pos → List (Option VId)
  | .v1 => [some 0, some 1]
  | .v2 => [some 1, some 0]
  | .both => [some 0, some 0]
  | .neither => [some 1, some 1, some 0]

/-- the one-link world of a row: vertices 0 and 1, link 0 attached to vertex 0 -/
def rowWorld (c : LCls) (ends : List (Option VId)) : World :=
  { World.init with
    nV := 3, nL := 1
    lcls := fun _ => c
    links := fun v => if v = 0 then [0] else []
    ends := fun l => if l = 0 then ends else [] }

def Filt.arg : Filt → Option Nat
  | .none => Option.none | .acc => some 1 | .rej => some 0

/-- filter table: filter 1 accepts everything, filter 0 rejects everything -/
def constF (k : Nat) (_ : LId) (_ : Option VId) : Bool := k == 1

def ofResult : Except Err (List (Option VId)) → Out
  | .error e => .raise e
  | .ok [] => .skip
  | .ok (x :: _) => .emit x

/-- the mirror model evaluated on the row -/
def modelNb (r : NbRow) : Out :=
  ofResult (M.neighborsPure (rowWorld r.cls r.pos.ends) constF 0 r.dir r.unk r.filt.arg)

/-- the rule of the C04 statement for one link whose opposite end is `other`
    (positions: v is the origin / the destination / both ends) -/
def specNbG (k : Kind) (pos : Pos) (dir unk : Nat) (filt : Filt) (other : Option VId) : Out :=
  let qualifies : Option Bool :=       -- none = raises NotImplementedError
    if dir = 1 then some true          -- ANY: every link, whatever its class
    else match k with
      | .undirected => some true
      | .directed =>
        if dir = 0 then some (pos = .v1 ∨ pos = .both)      -- FORWARD: edges leaving v
        else some (pos = .v2 ∨ pos = .both)                  -- BACKWARD: edges entering v
      | _ => if unk = 0 then some false else if unk = 1 then some true else none
  if dir > 2 then .raise .value else
  match qualifies with
  | none => .raise .notImpl
  | some false => .skip
  | some true => if filt = .rej then .skip else .emit other

/-- … instantiated on the one-link world of a table row (v = 0, the other vertex = 1) -/
def specNb (k : Kind) (pos : Pos) (dir unk : Nat) (filt : Filt) : Out :=
  specNbG k pos dir unk filt (match pos with | .both => some 0 | _ => some 1)

def nbRowOk (r : NbRow) : Bool := r.out == modelNb r

/-- rows the statement speaks about: two-ended classes, v is an end of the link -/
def nbRowSpecOk (r : NbRow) : Bool :=
  r.pos == .neither || r.cls.kind == .nary || r.out == specNb r.cls.kind r.pos r.dir r.unk r.filt

/-! ### find_links -/

/-- relation of the link to the queried pair (a = 0, b = 1; for `loop` the query is (0,0)) -/
inductive Rel | ab | ba | loop | away
  deriving DecidableEq, Repr

def Rel.ends : Rel → List (Option VId)
  | .ab => [some 0, some 1]
  | .ba => [some 1, some 0]
  | .loop => [some 0, some 0]
  | .away => [some 0, some 2]

def Rel.b : Rel → VId
  | .loop => 0 | _ => 1

inductive FOut | found | absent | raise (e : Err)
  deriving DecidableEq, Repr

structure FlRow where
  cls : LCls
  rel : Rel
  ds : Bool
  unk : Nat
  filt : Filt
  out : FOut
  deriving DecidableEq, Repr

def modelFl (r : FlRow) : FOut :=
  match M.findLinks (rowWorld r.cls r.rel.ends) constF 0 r.rel.b r.ds r.unk r.filt.arg with
  | .error e => .raise e
  | .ok [] => .absent
  | .ok _ => .found

/-- the rule of the C09 statement for one link -/
def specFl (k : Kind) (rel : Rel) (ds : Bool) (unk : Nat) (filt : Filt) : FOut :=
  if rel = .away then .absent else
  let qualifies : Option Bool :=
    if !ds then some true
    else match k with
      | .undirected => some true
      | .directed => some (rel = .ab ∨ rel = .loop)
      | _ => if unk = 0 then some false else if unk = 1 then some true else none
  match qualifies with
  | none => .raise .notImpl
  | some false => .absent
  | some true => if filt = .rej then .absent else .found

def flRowOk (r : FlRow) : Bool := r.out == modelFl r

def flRowSpecOk (r : FlRow) : Bool :=
  r.cls.kind == .nary || r.out == specFl r.cls.kind r.rel r.ds r.unk r.filt

end Tab
end EG
