import EG.Basic
/-
  EG.Single — mirror model of structure/singleton.py
    TrueSingleton.__call__, clear_true_singleton                       (C18)
    semi_singleton_metaclass()._SemiSingleton.__call__, add_mapping,
    drop_semi_singleton_mapping, check_semi_singleton_entry_exists,
    get_all_semi_singleton_instances, clear_semi_singleton               (C17)
  Classes, argument tuples and instances are numbered; `__init__` runs are logged.
-/
namespace EG
namespace Sg

/-! ### true singletons -/

/-- `TrueSingleton.__singleton_instances` (an insertion-ordered dict class ↦ instance),
    the instance counter and the log of `__init__` runs (instance, class, argument tuple) -/
structure TS where
  inst : List (Nat × Nat) := []
  next : Nat := 0
  inits : List (Nat × Nat × Nat) := []
  deriving Repr, DecidableEq

inductive TSOp
  | construct (cls args : Nat)
  /-- a construction whose `__init__` would RAISE: a hit returns the instance as always (no
      `__init__` runs); a miss propagates the exception out of `super().__call__` before anything
      is stored, so nothing is registered and the half-built object is never seen again -/
  | constructFail (cls args : Nat)
  /-- a construction whose `__init__` itself calls `clear_true_singleton()` (a re-entrant global
      clear): on a miss `__init__` runs, the table is REPLACED by an empty one, and only then is
      the new object filed — `tbl[cls] = <construction>` evaluates the construction first and
      looks the (class-level) table up afterwards, so the object lands in the new table -/
  | constructClearing (cls args : Nat)
  | clear (cls : Option Nat)          -- `clear_true_singleton(cls)`; `none` = clear all
  deriving Repr, DecidableEq

def lookup (k : Nat) : List (Nat × Nat) → Option Nat
  | [] => none
  | (k', v) :: rest => if k' = k then some v else lookup k rest

/-- one call; the answer is the instance returned by a construction (`none` for a clear) -/
def TS.step (s : TS) : TSOp → TS × Option Nat
  | .construct c a =>
    match lookup c s.inst with
    | some i => (s, some i)
    | none =>
      -- `super().__call__(*args, **kwargs)` : new object, `__init__` runs once with these args
      ({ inst := s.inst ++ [(c, s.next)], next := s.next + 1, inits := s.inits ++ [(s.next, c, a)] },
       some s.next)
  | .constructFail c _ =>
    match lookup c s.inst with
    | some i => (s, some i)
    | none => (s, none)                       -- the exception reaches the caller
  | .constructClearing c a =>
    match lookup c s.inst with
    | some i => (s, some i)
    | none =>
      ({ inst := [(c, s.next)], next := s.next + 1, inits := s.inits ++ [(s.next, c, a)] }, some s.next)
  | .clear (some c) => ({ s with inst := s.inst.filter (fun p => p.1 != c) }, none)
  | .clear none => ({ s with inst := [] }, none)

def TS.run (s : TS) : List TSOp → TS × List (Option Nat)
  | [] => (s, [])
  | op :: ops =>
    let r := s.step op
    let r' := TS.run r.1 ops
    (r'.1, r.2 :: r'.2)

/-! ### semi-singletons -/

/-- a mapping key: (class, key of the arguments as computed by the metaclass's hash function) -/
abbrev SKey := Nat × Nat

/-- `maps m` is the instance map of metaclass `m` (insertion-ordered dict (class, key) ↦ instance);
    `instCls i` the class an instance was created as; `inits` the log of `__init__` runs
    (instance, class, argument tuple) -/
structure SS where
  maps : Nat → List (SKey × Nat) := fun _ => []
  instCls : Nat → Nat := fun _ => 0
  next : Nat := 0
  inits : List (Nat × Nat × Nat) := []

inductive SSOp
  | construct (cls args : Nat)
  | constructFail (cls args : Nat)      -- `__init__` would raise (see `TSOp.constructFail`)
  | addMapping (inst args : Nat)
  | drop (cls args : Nat)
  | check (cls args : Nat)
  | getAll (cls : Nat)
  | clear (cls : Nat)
  deriving Repr, DecidableEq

inductive SSAns
  | inst (i : Nat)
  | none
  | insts (l : List Nat)
  | keyError
  | raised         -- the exception of `__init__` reached the caller
  | ok
  | bad            -- ill-formed operation (add_mapping of an object that does not exist): rejected
  deriving Repr, DecidableEq

def slookup (k : SKey) : List (SKey × Nat) → Option Nat
  | [] => Option.none
  | (k', v) :: rest => if k' = k then some v else slookup k rest

/-- `d[k] = v` on an insertion-ordered dict: replace in place, or append -/
def sinsert (k : SKey) (v : Nat) : List (SKey × Nat) → List (SKey × Nat)
  | [] => [(k, v)]
  | (k', v') :: rest => if k' = k then (k, v) :: rest else (k', v') :: sinsert k v rest

/-- static configuration: `mapOf c` = the metaclass (instance map) class `c` uses,
    `keyOf m a` = value of that metaclass's hash function on argument tuple `a` -/
structure SSCfg where
  mapOf : Nat → Nat
  keyOf : Nat → Nat → Nat

def SS.step (cfg : SSCfg) (s : SS) : SSOp → SS × SSAns
  | .construct c a =>
    let m := cfg.mapOf c
    let k : SKey := (c, cfg.keyOf m a)
    match slookup k (s.maps m) with
    | some i => (s, .inst i)
    | Option.none =>
      ({ maps := upd s.maps m (s.maps m ++ [(k, s.next)])
         instCls := upd s.instCls s.next c
         next := s.next + 1
         inits := s.inits ++ [(s.next, c, a)] }, .inst s.next)
  | .constructFail c a =>
    let m := cfg.mapOf c
    match slookup (c, cfg.keyOf m a) (s.maps m) with
    | some i => (s, .inst i)
    | Option.none => (s, .raised)
  | .addMapping i a =>
    if i ≥ s.next then (s, .bad) else
    let c := s.instCls i
    let m := cfg.mapOf c
    ({ s with maps := upd s.maps m (sinsert (c, cfg.keyOf m a) i (s.maps m)) }, .ok)
  | .drop c a =>
    let m := cfg.mapOf c
    let k : SKey := (c, cfg.keyOf m a)
    match slookup k (s.maps m) with
    | Option.none => (s, .keyError)
    | some _ => ({ s with maps := upd s.maps m ((s.maps m).filter (fun p => p.1 != k)) }, .ok)
  | .check c a =>
    let m := cfg.mapOf c
    match slookup (c, cfg.keyOf m a) (s.maps m) with
    | some i => (s, .inst i)
    | Option.none => (s, .none)
  | .getAll c =>
    (s, .insts (((s.maps (cfg.mapOf c)).filter (fun p => p.1.1 == c)).map (·.2)))
  | .clear c =>
    let m := cfg.mapOf c
    ({ s with maps := upd s.maps m ((s.maps m).filter (fun p => p.1.1 != c)) }, .ok)

def SS.run (cfg : SSCfg) (s : SS) : List SSOp → SS × List SSAns
  | [] => (s, [])
  | op :: ops =>
    let r := s.step cfg op
    let r' := SS.run cfg r.1 ops
    (r'.1, r.2 :: r'.2)

end Sg
end EG
