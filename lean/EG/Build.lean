import EG.Query
/-
  EG.Build — mirror model of the builders
    builder/adjlist.py   : load_adj_dict
    builder/adjmatrix.py : load_adj_matrix
    builder/randgraph.py : randgraph  (the RNG is an oracle: the draws are arguments)
  generic in the primitives (instantiated with M.prims by the driver, S.prims in proofs).
-/
namespace EG
namespace C
variable (P : Prims)

/-- `for v2 in v2s: explicit.link_from_to(v1, linktype, v2); v2.add_to_universe(uni)` -/
def adjRow (w : World) (c : LCls) (u k : VId) : List VId → Option World
  | [] => some w
  | v :: vs =>
    match newLink P w c [some k, some v] with
    | .error _ => none
    | .ok (w, _) =>
      match P.addToUniverse w v u with
      | none => none
      | some w => adjRow w c u k vs

/-- `for v1, v2s in adjdict.items(): v1.add_to_universe(uni); …` -/
def adjRows (w : World) (c : LCls) (u : VId) : List (VId × List VId) → Option World
  | [] => some w
  | (k, vs) :: rest =>
    match P.addToUniverse w k u with
    | none => none
    | some w =>
      match adjRow P w c u k vs with
      | none => none
      | some w => adjRows w c u rest

/-- `load_adj_dict(adjdict, linktype=c)`; the dict as an association list in dict order -/
def loadAdjDict (w : World) (c : LCls) (adj : List (VId × List VId)) : Except Err (World × VId) :=
  match newUniverse P w [] [] none with
  | .error e => .error e
  | .ok (w, u) =>
    match adjRows P w c u adj with
    | none => .error .recursion
    | some w => .ok (w, u)

def addAllToUniverse (w : World) (u : VId) : List VId → Option World
  | [] => some w
  | v :: vs =>
    match P.addToUniverse w v u with
    | none => none
    | some w => addAllToUniverse w u vs

/-- `for j, cell in enumerate(row): if cell: link_from_to(vertices[i], linktype, vertices[j])` -/
def matRow (w : World) (c : LCls) (vi : VId) : List Bool → List VId → Option World
  | cell :: cells, vj :: vjs =>
    if cell then
      match newLink P w c [some vi, some vj] with
      | .error _ => none
      | .ok (w, _) => matRow w c vi cells vjs
    else matRow w c vi cells vjs
  | _, _ => some w

def matRows (w : World) (c : LCls) (verts : List VId) : List (List Bool) → List VId → Option World
  | row :: rows, vi :: vis =>
    match matRow P w c vi row verts with
    | none => none
    | some w => matRows w c verts rows vis
  | _, _ => some w

/-- `load_adj_matrix(matrix, vertices, linktype=c)`; cells already reduced to their truth value -/
def loadAdjMatrix (w : World) (c : LCls) (matrix : List (List Bool)) (verts : List VId) :
    Except Err (World × VId) :=
  if verts.length ≠ matrix.length then .error .value
  else if matrix.any (fun row => row.length ≠ matrix.length) then .error .value
  else
    match newUniverse P w [] [] none with
    | .error e => .error e
    | .ok (w, u) =>
      match addAllToUniverse P w u verts with
      | none => .error .recursion
      | some w =>
        match matRows P w c verts matrix verts with
        | none => .error .recursion
        | some w => .ok (w, u)

/-! ### randgraph -/

/-- `verts = [Vertex(attributes={"i": i}) for i in range(count)]`; attribute name 99 = "i" -/
def randVerts (w : World) : Nat → Nat → Option World
  | 0, _ => some w
  | n+1, i =>
    match newVertex P w .V [(99, i)] [] [] with
    | .error _ => none
    | .ok (w, _) => randVerts w n (i + 1)

/-- `k = int(random.randint(1, max(1, i)) * connectivity)`, `max(k, 1)` if ensurelink,
    `min(k, count)`; connectivity = p / q as IEEE doubles, `r` the value randint returned -/
def randK (count r p q : Nat) (ensure : Bool) : Nat :=
  let conn : Float := Float.ofNat p / Float.ofNat q
  let k := (Float.ofNat r * conn).toUInt64.toNat
  let k := if ensure then max k 1 else k
  min k count

/-- one answer of the RNG oracle for vertex `i`: the value `randint` returned and the sample
    (as indices into `verts`) -/
structure Draw where
  r : Nat
  sample : List Nat

/-- the draws are admissible answers of `random.randint(1, max(1,i))` and
    `random.sample(verts, k)` (k distinct elements) -/
def drawsOK (count p q : Nat) (ensure : Bool) : Nat → List Draw → Bool
  | _, [] => true
  | i, d :: ds =>
    (1 ≤ d.r && d.r ≤ max 1 i && d.sample.length == randK count d.r p q ensure &&
      d.sample.all (· < count) && d.sample.eraseDups.length == d.sample.length) &&
    drawsOK count p q ensure (i + 1) ds

/-- `randgraph(count, edge=c, connectivity=p/q (none = 5/count), ensurelink)` with the RNG
    answers `draws` (one per vertex) -/
def randgraph (w : World) (count : Nat) (c : LCls) (conn : Option (Nat × Nat)) (ensure : Bool)
    (draws : List Draw) : Except Err (World × VId) :=
  let (p, q) := conn.getD (5, count)
  if q = 0 then .error .other else     -- `5 / count` with count = 0 : ZeroDivisionError
  if draws.length ≠ count || !(drawsOK count p q ensure 0 draws) then .error .other else
  let base := w.nV
  match randVerts P w count 0 with
  | none => .error .recursion
  | some w =>
    let adj := (List.range count).zip draws |>.map fun (i, d) => (base + i, d.sample.map (base + ·))
    loadAdjDict P w c adj

end C
end EG
