import EG.Single
/-
  EG.SingleTableSpec — the complete one-step transition table of the TRUE SINGLETONS (C18) over
  the pool of four classes (A, B(A), C with falsy instances, D with a metaclass derived from
  TrueSingleton).  A state is the set of classes that have a live instance (16 states); from each,
  every construction (ordinary arguments / arguments that make `__init__` raise / arguments whose
  `__init__` issues a global clear) of every class and every clear (one class / all) is made on the
  REAL code (harness/tables_ts.py, on every run of the C18 check): the row records what the call
  did — returned the instance the class already had, built a new one whose `__init__` ran once,
  raised — and which classes have a live instance afterwards (found by probing a replay of the
  same scenario, once per class).  `modelTS` does the same on the mirror model.
-/
namespace EG
namespace Tab

structure TSRow where
  live : Nat          -- bit c set = class c has an instance before the call
  op : Nat            -- 0-11: construct class op/3 (kind op%3: 0 ordinary, 1 __init__ raises, 2 __init__ clears all);
                      -- 12-15: clear class op-12;  16: clear all
  outcome : Nat       -- 0 the instance the class already had (no __init__), 1 a new instance (__init__ ran once),
                      -- 2 raised, 3 (a clear) returned
  after : Nat         -- bit c set = class c has an instance after the call
  deriving DecidableEq, Repr

/-- the state in which exactly the classes of `live` have an instance (constructed in class order) -/
def tsState (live : Nat) : Sg.TS :=
  (List.range 4).foldl (fun s c => if live.testBit c then (s.step (.construct c 0)).1 else s) {}

def tsOp (op : Nat) : Sg.TSOp :=
  if op < 12 then
    (if op % 3 = 0 then .construct (op / 3) 1 else if op % 3 = 1 then .constructFail (op / 3) 9 else .constructClearing (op / 3) 10)
  else if op < 16 then .clear (some (op - 12)) else .clear none

def liveMask (s : Sg.TS) : Nat :=
  (List.range 4).foldl (fun m c => if (Sg.lookup c s.inst).isSome then m + 2 ^ c else m) 0

def modelTS (r : TSRow) : TSRow :=
  let s := tsState r.live
  let st := s.step (tsOp r.op)
  let outcome := if r.op ≥ 12 then 3 else match st.2 with
    | none => 2
    | some i => if i < s.next then 0 else 1
  { r with outcome := outcome, after := liveMask st.1 }

def tsRowOk (r : TSRow) : Bool := r == modelTS r

/-- the statement on a row: a class that has an instance keeps returning it (no `__init__`), one
    that has none builds one (or raises and registers nothing); clearing one class affects that class
    only, clearing all affects all; a constructor that clears all from inside keeps only its own -/
def tsRowSpecOk (r : TSRow) : Bool :=
  if r.op < 12 then
    let c := r.op / 3
    if r.live.testBit c then r.outcome == 0 && r.after == r.live
    else if r.op % 3 = 0 then r.outcome == 1 && r.after == r.live + 2 ^ c
    else if r.op % 3 = 1 then r.outcome == 2 && r.after == r.live
    else r.outcome == 1 && r.after == 2 ^ c
  else if r.op < 16 then
    r.outcome == 3 && r.after == (if r.live.testBit (r.op - 12) then r.live - 2 ^ (r.op - 12) else r.live)
  else r.outcome == 3 && r.after == 0

end Tab
end EG
