import EG.Render
/-
  EG.RenderTableSpec — finite decision tables of the renderers (C14, C15), in the style of
  EG.TableSpec: the harness evaluates the REAL `render_to_plantuml_src` / `make_pyvis_net` on
  every row of a finite domain on every run and writes the outcome into
  EG/Generated/RenderTables.lean; the functions below evaluate the mirror model of EG.Render on
  the same row; EG/Props/C14Table.lean and C15Table.lean prove by kernel evaluation that the two
  agree on every row.

  The row world: vertices 0 and 1 are the members of universe 3, vertex 2 is an outsider;
  links are attached to exactly the vertices they list (C01).
    * PlantUML, one link  : class × (v1, v2) ∈ {0,1,2}²               → the relation line / error
    * PlantUML, vertex MRO: vertex class × set of configured classes   → the class whose options are used
    * PlantUML, link MRO  : link class × set of configured classes     → the class whose arrow ends are used
    * PyVis, two links    : (class, (v1, v2) ∈ {0,1,2}²) × (class, (v1, v2) ∈ {0,1}²) → the edge list / error
-/
namespace EG
namespace Tab

/-- the two-ended link classes of the pool, in table order -/
def lclsOf : Nat → LCls
  | 0 => .D | 1 => .U | 2 => .DD | 3 => .UU | 4 => .X | _ => .DU

def lIdx : LCls → Nat
  | .D => 0 | .U => 1 | .DD => 2 | .UU => 3 | .X => 4 | .DU => 5 | .N => 6

def vIdx : VCls → Nat
  | .V => 0 | .SV => 1 | .FV => 2 | .UNI => 3 | .MX => 4 | .MV => 5

/-- vertices 0, 1 (members of universe 3) and 2 (outsider); `ls` = (class, v1, v2) per link -/
def renderWorld (ls : List (LCls × Nat × Nat)) (c0 : VCls := .V) : World :=
  { World.init with
    nV := 4, nL := ls.length
    vcls := fun v => if v = 3 then .UNI else if v = 0 then c0 else .V
    lcls := fun l => (ls.getD l (.N, 0, 0)).1
    ends := fun l => match ls[l]? with | some (_, a, b) => [some a, some b] | none => []
    links := fun v => (List.range ls.length).filter fun l =>
      match ls[l]? with | some (_, a, b) => a == v || b == v | none => false
    members := fun u => if u = 3 then [0, 1] else []
    unis := fun v => if v = 0 ∨ v = 1 then [3] else [] }

/-! ### PlantUML: the relation line of one link -/

inductive RelOut | line (s : String) | absent | raise (e : Err)
  deriving DecidableEq, Repr

structure RelRow where
  cls : Nat          -- index into `lclsOf`
  a : Nat
  b : Nat
  out : RelOut
  deriving DecidableEq, Repr

/-- the option table of the rows: Vertex → `$id` titles; DirectedEdge → `-->`, UnDirectedEdge → `--`
    (what the statement calls the defaults); nothing else configured -/
def relOpts : R.POpts where
  vopt := fun c => match c with | .V => some ⟨"object", false, false⟩ | _ => none
  lopt := fun c => match c with | .D => some ⟨"", ">"⟩ | .U => some ⟨"", ""⟩ | _ => none

def modelRel (r : RelRow) : RelOut :=
  match R.pumlDoc (renderWorld [(lclsOf r.cls, r.a, r.b)]) relOpts 3 with
  | .error _ => .raise .other          -- the exception class is not part of the table
  | .ok none => .absent
  | .ok (some (_, [])) => .absent
  | .ok (some (_, s :: _)) => .line s

def relRowOk (r : RelRow) : Bool := r.out == modelRel r

/-- the statement, for a link with both ends members: `title(v1) --> title(v2)` for a class
    deriving from DirectedEdge (nearest configured class first in the MRO), `--` for undirected -/
def specRel (r : RelRow) : RelOut :=
  let arrow := match lclsOf r.cls with
    | .D | .DD | .DU => some "-->"
    | .U | .UU => some "--"
    | _ => none
  match arrow with
  | none => .raise .other
  | some ar => .line s!"id{r.a} {ar} id{r.b}"

def relRowSpecOk (r : RelRow) : Bool :=
  r.a > 1 || r.b > 1 || r.out == specRel r

/-! ### PlantUML: which configured class a vertex / link class resolves to -/

structure ResRow where
  cls : Nat          -- class index (vIdx / lIdx)
  mask : Nat         -- bit k set = class number k is configured
  out : Option Nat   -- the class whose options are used; none = ValueError
  deriving DecidableEq, Repr

def vclsOf : Nat → VCls
  | 0 => .V | 1 => .SV | 2 => .FV | 3 => .UNI | 4 => .MX | _ => .MV

/-- options in which exactly the classes of `mask` are configured, each tagged with its index -/
def maskOpts (mask : Nat) : R.POpts where
  vopt := fun c => if mask.testBit (vIdx c) then some ⟨s!"t{vIdx c}", false, false⟩ else none
  lopt := fun c => if mask.testBit (lIdx c) then some ⟨s!"m{lIdx c}", "x"⟩ else none

/-- the index the model's `_resolve_options` lands on, read off the options it returns -/
def modelResV (r : ResRow) : Option Nat :=
  match R.resolveV (maskOpts r.mask) (vclsOf r.cls) with
  | .ok vo => (List.range 6).find? fun k => vo.type == s!"t{k}"
  | .error _ => none

def modelResL (r : ResRow) : Option Nat :=
  match R.resolveL (maskOpts r.mask) (lclsOf r.cls) with
  | .ok lo => (List.range 7).find? fun k => lo.v1side == s!"m{k}"
  | .error _ => none

def resVRowOk (r : ResRow) : Bool := r.out == modelResV r
def resLRowOk (r : ResRow) : Bool := r.out == modelResL r

/-! ### PyVis: the edges drawn for two links -/

inductive PvOut | edges (es : List (Nat × Nat × Bool)) | raise (e : Err)
  deriving DecidableEq, Repr

structure PvRow where
  c1 : Nat
  a1 : Nat
  b1 : Nat
  c2 : Nat
  a2 : Nat
  b2 : Nat
  out : PvOut
  deriving DecidableEq, Repr

def modelPv (r : PvRow) : PvOut :=
  match R.pyvisNet (renderWorld [(lclsOf r.c1, r.a1, r.b1), (lclsOf r.c2, r.a2, r.b2)]) 3 (fun _ => "") none with
  | .error _ => .raise .other
  | .ok (_, es) => .edges (es.map fun e => (e.src, e.dst, e.arrows))

def pvRowOk (r : PvRow) : Bool := r.out == modelPv r

/-- the statement on a row: every edge drawn corresponds to a link between the two members it
    joins (arrowed i→j: a directed link from i to j; arrow-less: a link that is not a directed
    edge), arrowed edges are one per directed link, and every link between members joins its pair -/
def pvRowSpecOk (r : PvRow) : Bool :=
  match r.out with
  | .raise _ => false
  | .edges es =>
    let links : List (Bool × Nat × Nat) :=
      [((lclsOf r.c1).subDirected, r.a1, r.b1), ((lclsOf r.c2).subDirected, r.a2, r.b2)].filter
        fun l => l.2.1 ≤ 1 && l.2.2 ≤ 1
    -- soundness of every edge
    es.all (fun e =>
      if e.2.2 then links.any (fun l => l.1 && l.2.1 == e.1 && l.2.2 == e.2.1)
      else links.any (fun l => !l.1 && ((l.2.1 == e.1 && l.2.2 == e.2.1) || (l.2.1 == e.2.1 && l.2.2 == e.1)))) &&
    -- arrowed edges one per directed link
    links.all (fun l => !l.1 ||
      (es.filter fun e => e.2.2 && e.1 == l.2.1 && e.2.1 == l.2.2).length ==
        (links.filter fun l' => l'.1 && l'.2.1 == l.2.1 && l'.2.2 == l.2.2).length) &&
    -- completeness: every link between members joins its pair of nodes
    links.all (fun l => es.any fun e => (e.1 == l.2.1 && e.2.1 == l.2.2) || (e.1 == l.2.2 && e.2.1 == l.2.1))

end Tab
end EG
