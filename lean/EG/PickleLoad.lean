import EG.Pickle
/-
  EG.PickleLoad — an abstract UNPICKLER for the opcode streams of EG.Pickle, so that the round
  trip "load ∘ dump" can be stated and proved on the abstract heap (C10: "new objects … with the
  same … ordered links per vertex, ordered ends per link and ordered members per universe, with
  shared objects still shared").

  The machine is the stack machine of `pickle.Unpickler`, restricted to the abstract opcodes:
    atom a        push the atom
    opn k         push a MARK
    build1 k n    pop the n parts above the MARK, create a NEW object of kind k with these
                  `before` children, push it            (TUPLE / REDUCE / NEWOBJ / EMPTY_LIST …)
    memo          append the top of the stack to the memo (MEMOIZE / PUT); for an object whose
                  kind has an `after` part, the MARK of that part is pushed (the real stream has
                  MARK … APPENDS / SETITEMS, or a single state for BUILD)
    get i         push memo entry i
    build2 k      pop the items above that MARK and store them as the `after` children of the
                  object below it                        (APPENDS / SETITEMS / BUILD)
    pop, discard  POP, POP_MARK
  `tupK k` says whether objects of kind `k` are tuple-like (nothing follows their
  memoisation); in pickle the opcode that builds the object determines this.
-/
namespace EG
namespace Pk

inductive Val
  | atom (a : Nat)
  | ref (r : Nat)
  deriving Repr, DecidableEq, Inhabited

inductive SV
  | mark
  | amark
  | val (v : Val)
  deriving Repr, DecidableEq

structure VNode where
  kind : Nat
  before : List Val
  after : List Val
  deriving Repr, DecidableEq, Inhabited

structure VM where
  stack : List SV := []          -- head = top of the stack
  memo : List Val := []
  heap : Nat → VNode := fun _ => ⟨0, [], []⟩
  next : Nat := 0                -- references 0 … next-1 are allocated

/-- pop the values above the first marker `m`: (the values in the order they were pushed, the
    stack below the marker) -/
def popTo (m : SV) : List SV → Option (List Val × List SV)
  | [] => none
  | x :: rest =>
    if x = m then some ([], rest) else
    match x with
    | .val v => match popTo m rest with
      | some (vs, r) => some (vs ++ [v], r)
      | none => none
    | _ => none

def vmStep (tupK : Nat → Bool) (s : VM) : POp → Option VM
  | .atom a => some { s with stack := .val (.atom a) :: s.stack }
  | .opn _ => some { s with stack := .mark :: s.stack }
  | .get i =>
    match s.memo[i]? with
    | some v => some { s with stack := .val v :: s.stack }
    | none => none
  | .build1 k n =>
    match popTo .mark s.stack with
    | some (vs, rest) =>
      if vs.length = n then
        some { s with stack := .val (.ref s.next) :: rest, heap := upd s.heap s.next ⟨k, vs, []⟩, next := s.next + 1 }
      else none
    | none => none
  | .memo =>
    match s.stack with
    | .val v :: _ =>
      let hasAfter := match v with | .ref r => !tupK (s.heap r).kind | .atom _ => false
      some { s with memo := s.memo ++ [v], stack := if hasAfter then .amark :: s.stack else s.stack }
    | _ => none
  | .pop =>
    match s.stack with
    | .val _ :: rest => some { s with stack := rest }
    | _ => none
  | .discard _ n =>
    match popTo .mark s.stack with
    | some (vs, rest) => if vs.length = n then some { s with stack := rest } else none
    | none => none
  | .build2 _ =>
    match popTo .amark s.stack with
    | some (vs, .val (.ref r) :: rest) =>
      some { s with stack := .val (.ref r) :: rest, heap := upd s.heap r { s.heap r with after := vs } }
    | _ => none

def vmRun (tupK : Nat → Bool) : VM → List POp → Option VM
  | s, [] => some s
  | s, op :: ops => match vmStep tupK s op with
    | some s' => vmRun tupK s' ops
    | none => none

/-- `loads(stream)` : the value left on the stack and the heap built -/
def vmLoad (tupK : Nat → Bool) (ops : List POp) : Option (Val × VM) :=
  match vmRun tupK {} ops with
  | some s => match s.stack with
    | [.val v] => some (v, s)
    | _ => none
  | none => none

/-- the value an original object is loaded as: an atom as itself, a node as the memo entry at
    the position where the pickler memoised it -/
def phi (H : Heap) (m : List Nat) (vm : List Val) (o : Nat) : Val :=
  match H o with
  | .atom a => .atom a
  | .node .. => match memoIdx m o with
    | some i => vm.getD i (.atom 0)
    | none => .atom 0

end Pk
end EG
