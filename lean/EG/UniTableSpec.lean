import EG.Step
/-
  EG.UniTableSpec — the complete one-step transition table of universe membership (C02) over a
  pool of two vertices (V0, V1) and two universes (V2, V3).  Every state reachable from the empty
  one through `Universe.add_vertex / remove_vertex` and `Vertex.add_to_universe /
  remove_from_universe` is found by exploring the REAL code breadth-first
  (harness/tables_uni.py, on every run of the C02 check); a state is the four ORDERED lists
  (members of V2, members of V3, universes of V0, universes of V1) and is stored with the call
  path that reaches it.  From each state each of the 16 calls is made; the row records whether it
  raised and the four lists afterwards.  `modelUni` replays path and call on the mirror model.
-/
namespace EG
namespace Tab

structure UniRow where
  path : List Nat            -- calls (codes as below) leading from the empty state to the row's state
  op : Nat                   -- kind = op / 4 (0 U.add_vertex, 1 U.remove_vertex, 2 V.add_to_universe, 3 V.remove_from_universe),
                             -- universe 2 + (op / 2) % 2, vertex op % 2
  raised : Bool
  obs : List (List Nat)      -- [V2.vertices, V3.vertices, V0.universes, V1.universes] after the call
  deriving DecidableEq, Repr

def uniOp (k : Nat) : Op :=
  let u := 2 + (k / 2) % 2
  let v := k % 2
  match k / 4 with
  | 0 => .uniAdd u v
  | 1 => .uniRemove u v
  | 2 => .vAdd v u
  | _ => .vRemove v u

def uniBase : List Op :=
  [.newVertex .V [] [] [], .newVertex .V [] [] [], .newUniverse [] [] none, .newUniverse [] [] none]

def modelUni (r : UniRow) : UniRow :=
  let w0 := (M.run (fun _ _ _ => true) (uniBase ++ r.path.map uniOp)).1
  let st := M.step (fun _ _ _ => true) w0 (uniOp r.op)
  let w := st.1
  { r with raised := (match st.2 with | .err _ => true | _ => false),
           obs := [w.members 2, w.members 3, w.unis 0, w.unis 1] }

def uniRowOk (r : UniRow) : Bool := r == modelUni r

/-- the statement on a row: afterwards membership is symmetric and duplicate-free; a raising call
    changed nothing (compared with the row that has the same path and a no-op) is covered by
    `uniRowOk` through the model's own theorem `C02_remove_nonmember`; here: symmetry, no duplicates -/
def uniRowSpecOk (r : UniRow) : Bool :=
  match r.obs with
  | [m2, m3, u0, u1] =>
    (m2.contains 0 == u0.contains 2) && (m2.contains 1 == u1.contains 2) &&
    (m3.contains 0 == u0.contains 3) && (m3.contains 1 == u1.contains 3) &&
    m2.eraseDups.length == m2.length && m3.eraseDups.length == m3.length &&
    u0.eraseDups.length == u0.length && u1.eraseDups.length == u1.length
  | _ => false

end Tab
end EG
