import EG.Step
/-
  EG.LawsTableSpec — the complete one-step transition table of the universe ↔ laws association
  (C19) over a pool of two universes (V0, V1) and two law sets (W0, W1).

  A consistent state is a partial matching between universes and law sets: 7 states.  From each,
  each of the 12 assignments (`u.laws = None | W0 | W1`, `W.applies_to = None | V0 | V1`) is made
  on the REAL code (harness/tables_laws.py, on every run of the C19 check) and the four pointers
  are read back; `modelLaw` does the same on the mirror model.  EG/Props/C19Table.lean proves by
  kernel evaluation that the two agree on all 84 rows, that every row ends in a consistent state,
  and that the assignment took effect.  Since every reachable state of the pool is a row state,
  this is the whole state machine of the pool, not a sample of it.
-/
namespace EG
namespace Tab

/-- pointer coding: 0 = None, k+1 = object number k -/
def optOf (n : Nat) : Option Nat := if n = 0 then none else some (n - 1)
def codeOf (o : Option Nat) : Nat := match o with | none => 0 | some k => k + 1

structure LawRow where
  s0 : Nat          -- V0.laws before
  s1 : Nat          -- V1.laws before
  op : Nat          -- 0-5: V(op/3).laws = code (op%3);  6-11: W((op-6)/3).applies_to = code ((op-6)%3)
  r0 : Nat          -- V0.laws after
  r1 : Nat          -- V1.laws after
  a0 : Nat          -- W0.applies_to after
  a1 : Nat          -- W1.applies_to after
  raised : Bool
  deriving DecidableEq, Repr

def lawOp (op : Nat) : Op :=
  if op < 6 then .setLaws (op / 3) (optOf (op % 3))
  else .setAppliesTo ((op - 6) / 3) (optOf ((op - 6) % 3))

def noF : Nat → LId → Option VId → Bool := fun _ _ _ => true

/-- two universes (each constructed without laws: it gets a law set of its own), both detached,
    then the state (s0, s1) set up from the universe side -/
def lawWorld (s0 s1 : Nat) : World :=
  (M.run noF [.newUniverse [] [] none, .newUniverse [] [] none, .setLaws 0 none, .setLaws 1 none,
              .setLaws 0 (optOf s0), .setLaws 1 (optOf s1)]).1

def modelLaw (r : LawRow) : LawRow :=
  let st := M.step noF (lawWorld r.s0 r.s1) (lawOp r.op)
  let w := st.1
  { r with r0 := codeOf (w.laws 0), r1 := codeOf (w.laws 1), a0 := codeOf (w.appliesTo 0), a1 := codeOf (w.appliesTo 1),
           raised := match st.2 with | .err _ => true | _ => false }

def lawRowOk (r : LawRow) : Bool := r == modelLaw r

/-- the statement on a row: no exception; afterwards `u.laws is L` exactly when `L.applies_to is u`;
    and the assignment itself took effect -/
def lawRowSpecOk (r : LawRow) : Bool :=
  !r.raised &&
  -- symmetry of the four pointers
  ((r.r0 == 1) == (r.a0 == 1)) && ((r.r0 == 2) == (r.a1 == 1)) &&
  ((r.r1 == 1) == (r.a0 == 2)) && ((r.r1 == 2) == (r.a1 == 2)) &&
  -- the requested pointer has the requested value
  (if r.op < 6 then (if r.op / 3 = 0 then r.r0 else r.r1) == r.op % 3
   else (if (r.op - 6) / 3 = 0 then r.a0 else r.a1) == (r.op - 6) % 3)

end Tab
end EG
