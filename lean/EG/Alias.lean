import EG.Step
/-
  EG.Alias — containers exchanged with the caller (C12).
  Every accessor / query of the mirror model returns a VALUE; the caller's copy is recorded as
  a *handle*, and caller-side mutations of handles (append, remove, clear, sort, item
  assignment) are operations of the history alphabet.  The code's containers are modelled as
  exactly as detached as the code makes them: `tuple(...)` / `list(...)` / `set()` results are
  fresh, and (after the repair) so are the cached `neighbors()` lists.
-/
namespace EG
namespace A

/-- a container in the caller's hands -/
abbrev Container := List (Option Nat)

/-- caller-side edits of a container -/
inductive Edit
  | append (x : Option Nat)
  | remove (x : Option Nat)
  | clear
  | sort
  | set (i : Nat) (x : Option Nat)
  deriving Repr

def Edit.apply : Edit → Container → Container
  | .append x, c => c ++ [x]
  | .remove x, c => c.erase x
  | .clear, _ => []
  | .sort, c => c.mergeSort (fun a b => a.getD 0 ≤ b.getD 0)
  | .set i x, c => c.set i x

/-- world + the containers handed out so far -/
structure State where
  w : World
  handles : List Container

inductive AOp
  | call (op : Op)                       -- a public call; its answer container becomes a handle
  | mutate (h : Nat) (e : Edit)          -- the caller edits container number `h`

def containerOf : Ans → Option Container
  | .verts vs => some vs
  | .links ls => some (ls.map some)
  | _ => none

def step (F : Nat → LId → Option VId → Bool) (s : State) : AOp → State × Ans
  | .call op =>
    let r := M.step F s.w op
    ({ w := r.1, handles := match containerOf r.2 with | some c => s.handles ++ [c] | none => s.handles }, r.2)
  | .mutate h e =>
    ({ s with handles := s.handles.modify h e.apply }, .ok)

def run (F : Nat → LId → Option VId → Bool) (s : State) : List AOp → State × List Ans
  | [] => (s, [])
  | op :: ops =>
    let r := step F s op
    let r' := run F r.1 ops
    (r'.1, r.2 :: r'.2)

/-- the history with the caller's edits erased -/
def calls : List AOp → List AOp
  | [] => []
  | .call op :: ops => .call op :: calls ops
  | .mutate _ _ :: ops => calls ops

/-- the answers to the public calls of a history -/
def callAnswers : List AOp → List Ans → List Ans
  | .call _ :: ops, a :: as => a :: callAnswers ops as
  | .mutate _ _ :: ops, _ :: as => callAnswers ops as
  | _, _ => []

/-- one exchange point of the library (a collection handed out or taken in) in one state, and
    whether an edit of the caller's collection changed anything observable on the REAL code
    (EG/Generated/ExchangeTable.lean, regenerated on every run of the C12 check).  In this model
    nothing is shared, i.e. the model is the table in which every row says `false`. -/
structure ExchangeRow where
  id : Nat
  point : String
  leaks : Bool
  deriving Repr, DecidableEq

end A
end EG
