import EG.Basic
/-
  EG.Trav — mirror model (M) of the traversal and search loops
    traversal/breadthfirst.py : ibft / bft, bfs
    traversal/depthfirst.py   : _dft_recur / dft_recursive, idft_iterative / dft_iterative,
                                _dfs_recur / dfs_recursive, dfs_iterative
  over an abstract resolved graph:
    nb v   = what `helpers.neighbors(v, …)` returns under the chosen settings
    inU v  = `uni is None or v in uni.vertices`
    ffr v  = `ff_result is None or ff_result(v)`
    p v    = `hasattr(v, attrib) and v[attrib] == val`
  Errors raised by `neighbors` and `None` neighbours are encoded by the driver as
  pseudo-vertices (see Main.lean), so these definitions are total and pure.
  The list forms are `list(generator)` in the code, so one definition serves both.
-/
namespace EG
namespace T

variable (nb : Nat → List Nat) (inU : Nat → Bool) (ffr : Nat → Bool)

/-! ### breadth-first traversal -/

/-- the `for v in neighbors(u)` loop of `ibft`; state = (visited, queue, yielded) -/
def bftScan : List Nat → List Nat → List Nat → List Nat → List Nat × List Nat × List Nat
  | vis, q, out, [] => (vis, q, out)
  | vis, q, out, v :: vs =>
    if !inU v then bftScan vis q out vs
    else if v ∈ vis then bftScan vis q out vs
    else bftScan (vis ++ [v]) (q ++ [v]) (if ffr v then out ++ [v] else out) vs

/-- the `while queue` loop of `ibft` -/
def bftLoop : Nat → List Nat → List Nat → List Nat → List Nat
  | 0, _, _, out => out
  | _+1, _, [], out => out
  | f+1, vis, u :: q, out =>
    let s := bftScan inU ffr vis q out (nb u)
    bftLoop f s.1 s.2.1 s.2.2

/-- `bft(uni, start, …)` after the pre-flight checks -/
def bft (fuel : Nat) (start : Nat) : List Nat :=
  bftLoop nb inU ffr fuel [start] [start] (if ffr start then [start] else [])

/-! ### recursive depth-first traversal -/

/-- `_dft_recur(v)`; state = (visited, yielded) -/
def dftRec : Nat → List Nat × List Nat → Nat → List Nat × List Nat
  | 0, s, _ => s
  | f+1, s, v =>
    (nb v).foldl
      (fun s w => if !inU w then s else if w ∈ s.1 then s else dftRec f s w)
      (s.1 ++ [v], if ffr v then s.2 ++ [v] else s.2)

/-- `dft_recursive(uni, start, …)` after the pre-flight checks -/
def dftRecursive (fuel : Nat) (start : Nat) : List Nat :=
  (dftRec nb inU ffr fuel ([], []) start).2

/-! ### iterative depth-first traversal -/

/-- the `while len(stack) != 0` loop of `idft_iterative`; stack top = list head -/
def dftIterLoop : Nat → List Nat → List Nat → List Nat → List Nat
  | 0, _, _, out => out
  | _+1, [], _, out => out
  | f+1, v :: st, disc, out =>
    if v ∈ disc then dftIterLoop f st disc out
    else if !inU v then dftIterLoop f st disc out
    else dftIterLoop f ((nb v).reverse ++ st) (disc ++ [v]) (if ffr v then out ++ [v] else out)

/-- `dft_iterative(uni, start, …)` after the pre-flight checks -/
def dftIterative (fuel : Nat) (start : Nat) : List Nat :=
  dftIterLoop nb inU ffr fuel [start] [] []

/-! ### searches (always default settings, no `ff_*`) -/

variable (p : Nat → Bool)

/-- the `for v in neighbors(u)` loop of `bfs`; `Sum.inl x` = `return x` -/
def bfsScan : List Nat → List Nat → List Nat → Nat ⊕ (List Nat × List Nat)
  | vis, q, [] => .inr (vis, q)
  | vis, q, v :: vs =>
    if !inU v then bfsScan vis q vs
    else if p v then .inl v
    else if v ∈ vis then bfsScan vis q vs
    else bfsScan (vis ++ [v]) (q ++ [v]) vs

def bfsLoop : Nat → List Nat → List Nat → Option Nat
  | 0, _, _ => none
  | _+1, _, [] => none
  | f+1, vis, u :: q =>
    match bfsScan inU p vis q (nb u) with
    | .inl x => some x
    | .inr s => bfsLoop f s.1 s.2

/-- `bfs(uni, start, attrib, val)` after the pre-flight checks -/
def bfs (fuel : Nat) (start : Nat) : Option Nat :=
  if p start then some start else bfsLoop nb inU p fuel [start] [start]

/-- `_dfs_recur(v)`; returns (visited, result) -/
def dfsRec : Nat → List Nat → Nat → List Nat × Option Nat
  | 0, vis, _ => (vis, none)
  | f+1, vis, v =>
    (nb v).foldl
      (fun s w =>
        match s.2 with
        | some _ => s                       -- already returned
        | none =>
          if !inU w then s else if w ∈ s.1 then s
          else if p w then (s.1, some w)
          else dfsRec f s.1 w)
      (vis ++ [v], none)

/-- `dfs_recursive(uni, start, attrib, val)` after the pre-flight checks -/
def dfsRecursive (fuel : Nat) (start : Nat) : Option Nat :=
  if p start then some start else (dfsRec nb inU p fuel [] start).2

def dfsIterLoop : Nat → List Nat → List Nat → Option Nat
  | 0, _, _ => none
  | _+1, [], _ => none
  | f+1, v :: st, disc =>
    if !inU v then dfsIterLoop f st disc
    else if v ∈ disc then dfsIterLoop f st disc
    else if p v then some v
    else dfsIterLoop f ((nb v).reverse ++ st) (disc ++ [v])

/-- `dfs_iterative(uni, start, attrib, val)` after the pre-flight checks -/
def dfsIterative (fuel : Nat) (start : Nat) : Option Nat :=
  dfsIterLoop nb inU p fuel [start] []

end T
end EG
