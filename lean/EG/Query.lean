import EG.Prims
/-
  EG.Query — mirror model (M) of
    traversal/helpers.py : neighbors (incl. the per-vertex cache), find_links
    builder/explicit.py  : link_from_to, unlink
  Filters are table-driven: `F k l x` is the truth value of filter number `k` on
  link `l` and other end `x`.  `fault = some i` makes the `i`-th filter invocation
  of this call raise (C13).
-/
namespace EG
namespace M

/-- what the per-link branch of `neighbors` does before the filter is consulted -/
inductive Pre | filt | skip | raise (e : Err)
  deriving DecidableEq, Repr

/-- the `if / elif` cascade of `neighbors` for one link of kind `k` whose first two
    ends are `a`, `b`, seen from vertex `v` -/
def pre (k : Kind) (a b : Option VId) (v : VId) (dir unk : Nat) : Pre :=
  if dir = 0 then
    if k = .undirected then .filt
    else if k = .directed ∧ a = some v then .filt
    else if k = .directed ∧ b = some v then .skip
    else if unk = 0 then .skip
    else if unk = 1 then .filt
    else .raise .notImpl
  else if dir = 2 then
    if k = .undirected then .filt
    else if k = .directed ∧ b = some v then .filt
    else if k = .directed ∧ a = some v then .skip
    else if unk = 0 then .skip
    else if unk = 1 then .filt
    else .raise .notImpl
  else if dir = 1 then .filt
  else .raise .value

/-- the `for link in vert.links` loop; `cnt` = filter invocations so far -/
def nbLoop (w : World) (F : Nat → LId → Option VId → Bool) (v : VId) (dir unk : Nat)
    (filt : Option Nat) (fault : Option Nat) :
    List LId → List (Option VId) → Nat → Except Err (List (Option VId))
  | [], acc, _ => .ok acc
  | l :: ls, acc, cnt =>
    match other w l v with
    | .error e => .error e
    | .ok v2 =>
      match pre (w.lcls l).kind ((w.ends l).getD 0 none) ((w.ends l).getD 1 none) v dir unk with
      | .skip => nbLoop w F v dir unk filt fault ls acc cnt
      | .raise e => .error e
      | .filt =>
        match filt with
        | none => nbLoop w F v dir unk filt fault ls (acc ++ [v2]) cnt
        | some k =>
          if fault = some (cnt + 1) then .error .fault
          else if F k l v2 then nbLoop w F v dir unk filt fault ls (acc ++ [v2]) (cnt + 1)
          else nbLoop w F v dir unk filt fault ls acc (cnt + 1)

def cacheLookup (k : Key) : List (Key × List (Option VId)) → Option (List (Option VId))
  | [] => none
  | (k', a) :: rest => if k' = k then some a else cacheLookup k rest

/-- filter callables that cannot be hashed (a callable dataclass, a class defining `__eq__` without
    `__hash__`): in the protocol, the filters whose number is 5 modulo 13.  The arguments of
    `neighbors()` are the memo key, so a query with such a filter is never cached (after the
    repair F14: `_qa_neighbors_get` / `_qa_neighbors_insert` treat the TypeError of the hash as
    "not cacheable"; before it the query raised). -/
def unhashable (filt : Option Nat) : Bool :=
  match filt with
  | some k => k % 13 == 5
  | none => false

/-- `helpers.neighbors(vert=v, direction_sensitive=dir, unknown_handling=unk, filterfunc)` -/
def neighbors (w : World) (F : Nat → LId → Option VId → Bool) (v : VId) (dir unk : Nat)
    (filt : Option Nat) (fault : Option Nat := none) :
    World × Except Err (List (Option VId)) :=
  let key : Key := ⟨dir, unk, filt⟩
  let memo := w.caching && !unhashable filt       -- caching on AND the arguments can serve as a key
  match (if memo then cacheLookup key (w.cache v) else none) with
  | some ans => (w, .ok ans)
  | none =>
    match nbLoop w F v dir unk filt fault (w.links v) [] 0 with
    | .error e => (w, .error e)
    | .ok ans =>
      (if memo then { w with cache := upd w.cache v ((key, ans) :: w.cache v) } else w, .ok ans)

/-- `neighbors` recomputed, ignoring and not touching the cache (the reference answer of C05) -/
def neighborsPure (w : World) (F : Nat → LId → Option VId → Bool) (v : VId) (dir unk : Nat)
    (filt : Option Nat) : Except Err (List (Option VId)) :=
  nbLoop w F v dir unk filt none (w.links v) [] 0

/-- the loop of `find_links(v1=a, v2=b, direction_sensitive=ds, unknown_handling=unk, filterfunc)`;
    the Python result is a `set`, here the list of its elements in `a.links` order -/
def flLoop (w : World) (F : Nat → LId → Option VId → Bool) (a b : VId) (ds : Bool) (unk : Nat)
    (filt : Option Nat) (fault : Option Nat) :
    List LId → List LId → Nat → Except Err (List LId)
  | [], acc, _ => .ok acc
  | l :: ls, acc, cnt =>
    match other w l a with
    | .error e => .error e
    | .ok o =>
      if o ≠ some b then flLoop w F a b ds unk filt fault ls acc cnt else
      let k := (w.lcls l).kind
      let consult : Bool :=
        if ds then
          if k = .undirected then true
          else if k = .directed then decide ((w.ends l).getD 0 none = some a)
          else decide (unk = 1)
        else true
      let raises : Bool := ds && k != .undirected && k != .directed && unk != 0 && unk != 1
      if raises then .error .notImpl
      else if !consult then flLoop w F a b ds unk filt fault ls acc cnt
      else
        let add := if l ∈ acc then acc else acc ++ [l]
        match filt with
        | none => flLoop w F a b ds unk filt fault ls add cnt
        | some f =>
          if fault = some (cnt + 1) then .error .fault
          else if F f l none then flLoop w F a b ds unk filt fault ls add (cnt + 1)
          else flLoop w F a b ds unk filt fault ls acc (cnt + 1)

def findLinks (w : World) (F : Nat → LId → Option VId → Bool) (a b : VId) (ds : Bool) (unk : Nat)
    (filt : Option Nat) (fault : Option Nat := none) : Except Err (List LId) :=
  flLoop w F a b ds unk filt fault (w.links a) [] 0

/-- `for lnk in v1.links: if lnk.other(v1) is v2: return lnk` -/
def firstJoining (w : World) (a b : VId) : List LId → Except Err (Option LId)
  | [] => .ok none
  | l :: ls =>
    match other w l a with
    | .error e => .error e
    | .ok o => if o = some b then .ok (some l) else firstJoining w a b ls

end M

namespace C
variable (P : Prims)

/-- `explicit.link_from_to(v1=a, lnktype=c, v2=b, dontdup)` -/
def linkFromTo (w : World) (a : VId) (c : LCls) (b : VId) (dontdup : Bool) :
    Except Err (World × LId) :=
  if dontdup then
    match M.firstJoining w a b (w.links a) with
    | .error e => .error e
    | .ok (some l) => .ok (w, l)
    | .ok none => newLink P w c [some a, some b]
  else newLink P w c [some a, some b]

def unlinkEach (w : World) (a b : VId) : List LId → Option World
  | [] => some w
  | l :: ls =>
    match P.unlinkFrom w l (some a) with
    | none => none
    | some w =>
      match P.unlinkFrom w l (some b) with
      | none => none
      | some w => unlinkEach w a b ls

/-- `explicit.unlink(v1=a, v2=b, destroy)`; returns the removed links (the Python
    function returns them only when `destroy=False`) -/
def unlink (w : World) (F : Nat → LId → Option VId → Bool) (a b : VId) :
    Except Err (World × List LId) :=
  match M.findLinks w F a b false 2 none with
  | .error e => .error e
  | .ok J =>
    match unlinkEach P w a b J with
    | none => .error .recursion
    | some w => .ok (w, J)

end C
end EG
