import EG.Basic
/-
  EG.Pickle — model of what `output/nrpickler.py` adds to pickle/dill: the SCHEDULING of saves.

  Abstract heap: an object is an atom (saved by one opcode: ints, strings, None, classes saved
  by reference …) or a node with `before` children (saved before the object itself is memoised:
  tuple elements, the callable and argument tuple of a reduce) and `after` children (saved
  after: list items, dict items, instance state).

  * `rec`   — the standard RECURSIVE pickler (pickle.Pickler / dill): memo test on entry, the
              "already memoised?" test after the `before` children (recursive tuples), Memo,
              then the `after` children.
  * `nrRun` — the QUEUE machine of `_NonrecursivePickler.dump`: `save` only enqueues; the head
              of the queue is processed; a `save` of a node expands ONE level in front of the
              rest; deferred writes and memoisations are executed in stream order; a deferred
              memoisation of an object memoised meanwhile emits Pop + Get (the repair).
  Both emit abstract opcodes.  `normalize` rewrites the machine's `Build1 k n, Pop, Get i` into
  the recursive pickler's `Discard k n, Get i` (same effect on the unpickler's stack).
-/
namespace EG
namespace Pk

inductive Node
  | atom (a : Nat)
  /-- `tup = true`: a tuple-like object (save_tuple): nothing follows its memoisation, and a
      re-entered one is handled by discarding its parts.  `tup = false`: a reduce / list / dict /
      instance: after memoisation come the `after` children and a closing opcode, and a
      re-entered one is built, popped and fetched (pickle.save_reduce). -/
  | node (tup : Bool) (k : Nat) (before after : List Nat)
  deriving Repr, DecidableEq, Inhabited

inductive POp
  | atom (a : Nat)
  | opn (k : Nat)                 -- MARK / the start of the object's own opcodes
  | build1 (k n : Nat)            -- TUPLE / REDUCE / NEWOBJ / EMPTY_LIST … : the object exists
  | memo                          -- MEMOIZE / PUT
  | get (i : Nat)                 -- GET of memo entry i
  | pop                           -- POP
  | discard (k n : Nat)           -- POP*n / POP_MARK : throw away the n pushed parts
  | build2 (k : Nat)              -- APPENDS / SETITEMS / BUILD
  deriving Repr, DecidableEq

abbrev Heap := Nat → Node

/-- position of `o` in the memo (memo number), if memoised -/
def memoIdx (memo : List Nat) (o : Nat) : Option Nat :=
  let i := memo.idxOf o
  if i < memo.length then some i else none

/-! ### the recursive pickler (big-step, fuel = recursion depth available) -/

/-- save the objects of a list one after the other with the element saver `r`, threading the memo -/
def recListWith (r : Nat → List Nat → Option (List POp × List Nat)) :
    List Nat → List Nat → Option (List POp × List Nat)
  | [], memo => some ([], memo)
  | o :: os, memo =>
    match r o memo with
    | none => none
    | some (s, m) =>
      match recListWith r os m with
      | none => none
      | some (s', m') => some (s ++ s', m')

def rec (H : Heap) : Nat → Nat → List Nat → Option (List POp × List Nat)
  | 0, _, _ => none                                    -- RecursionError
  | f+1, o, memo =>
    match memoIdx memo o with
    | some i => some ([.get i], memo)
    | none =>
      match H o with
      | .atom a => some ([.atom a], memo)
      | .node tup k bs as =>
        match recListWith (rec H f) bs memo with
        | none => none
        | some (s1, m1) =>
          match memoIdx m1 o with
          | some i =>
            if tup then some ([.opn k] ++ s1 ++ [.discard k bs.length, .get i], m1)
            else
              match recListWith (rec H f) as m1 with
              | none => none
              | some (s2, m2) =>
                some ([.opn k] ++ s1 ++ [.build1 k bs.length, .pop, .get i] ++ s2 ++ [.build2 k], m2)
          | none =>
            if tup then some ([.opn k] ++ s1 ++ [.build1 k bs.length, .memo], m1 ++ [o])
            else
              match recListWith (rec H f) as (m1 ++ [o]) with
              | none => none
              | some (s2, m2) =>
                some ([.opn k] ++ s1 ++ [.build1 k bs.length, .memo] ++ s2 ++ [.build2 k], m2)

/-! ### the queue machine of `_NonrecursivePickler` (small-step) -/

inductive Item
  | save (o : Nat)              -- `_LazySave`
  | memoI (o : Nat)             -- `_LazyMemo`
  | write (op : POp)            -- a deferred `write`
  deriving Repr, DecidableEq

structure Conf where
  queue : List Item
  memo : List Nat
  out : List POp
  deriving Repr, DecidableEq

/-- one iteration of the `while lws` loop of `dump` -/
def nrStep (H : Heap) (c : Conf) : Option Conf :=
  match c.queue with
  | [] => none
  | .write op :: q => some { c with queue := q, out := c.out ++ [op] }
  | .memoI o :: q =>
    match memoIdx c.memo o with
    | some i => some { c with queue := q, out := c.out ++ [.pop, .get i] }
    | none => some { queue := q, memo := c.memo ++ [o], out := c.out ++ [.memo] }
  | .save o :: q =>
    match memoIdx c.memo o with
    | some i => some { c with queue := q, out := c.out ++ [.get i] }
    | none =>
      match H o with
      | .atom a => some { c with queue := q, out := c.out ++ [.atom a] }
      | .node tup k bs as =>
        let expansion : List Item :=
          [Item.write (.opn k)] ++ bs.map Item.save ++ [Item.write (.build1 k bs.length), Item.memoI o] ++
          (if tup then [] else as.map Item.save ++ [Item.write (.build2 k)])
        some { c with queue := expansion ++ q }

/-- what the loop does with the head of the queue (for comparison with the real pickler's
    sequence of `realsave` / `realmemoize` calls) -/
inductive Event
  | expand (o : Nat)       -- `realsave(o)` of a node: one-level expansion
  | atom (o : Nat)         -- `realsave(o)` of an atom
  | hit (o : Nat)          -- `realsave(o)` found `o` memoised: GET
  | memo (o : Nat)         -- deferred (or immediate) `memoize(o)`
  | popget (o : Nat)       -- deferred memoize of an object memoised meanwhile: POP + GET
  deriving Repr, DecidableEq

def stepEvent (H : Heap) (c : Conf) : Option Event :=
  match c.queue with
  | .save o :: _ =>
    match memoIdx c.memo o with
    | some _ => some (.hit o)
    | none => match H o with
      | .atom _ => some (.atom o)
      | .node .. => some (.expand o)
  | .memoI o :: _ =>
    match memoIdx c.memo o with
    | some _ => some (.popget o)
    | none => some (.memo o)
  | _ => none

/-- the events of a whole run -/
def nrTrace (H : Heap) : Nat → Conf → List Event
  | 0, _ => []
  | f+1, c =>
    match nrStep H c with
    | none => []
    | some c' => (match stepEvent H c with | some e => [e] | none => []) ++ nrTrace H f c'

/-- run until the queue is empty (fuel = number of loop iterations available; the loop is a
    flat `while`: no Python recursion is involved, whatever the depth of the object graph) -/
def nrRun (H : Heap) : Nat → Conf → Option Conf
  | 0, c => if c.queue.isEmpty then some c else none
  | f+1, c =>
    match nrStep H c with
    | none => some c
    | some c' => nrRun H f c'

/-- `dumps(root)` of the queue machine -/
def nrDump (H : Heap) (fuel : Nat) (root : Nat) : Option (List POp × List Nat) :=
  match nrRun H fuel ⟨[.save root], [], []⟩ with
  | none => none
  | some c => some (c.out, c.memo)

/-- `Build1 k n, Pop, Get i`  ↦  `Discard k n, Get i` : building an object only to pop it is
    the same as discarding its parts (used to compare the machine's handling of a re-entered
    tuple with the recursive pickler's) -/
def normalize : List POp → List POp
  | .build1 k n :: .pop :: .get i :: rest => .discard k n :: .get i :: normalize rest
  | op :: rest => op :: normalize rest
  | [] => []

end Pk
end EG
