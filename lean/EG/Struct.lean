import EG.World
/-
  EG.Struct — mirror model (M) of the vertex–link association code:
    Vertex.add_to_link / remove_from_link        (structure/vertex.py)
    Link.add_vertex / unlink_from / _invalidate_ends   (structure/link.py)
    TwoEndedLink.__init__ / _set_v1 / _set_v2 / _replace_end / other (structure/twoendedlink.py)
    Vertex.__init__(links=…)                       (structure/vertex.py)
  Same guards in the same order as the Python.  Python's mutual recursion is
  kept as `mutual` recursion on a fuel argument (`none` = fuel exhausted, the
  analogue of RecursionError); `EG.Proofs.StructRefine` shows a small constant
  suffices and that M equals the plain reference model S of `EG.StructSpec`.
-/
namespace EG
namespace M

mutual
/-- `Vertex.add_to_link(self=v, link=l)` -/
def addToLink : Nat → World → VId → LId → Option World
  | 0, _, _, _ => none
  | f+1, w, v, l =>
    if l ∈ w.links v then some (w.invalidate v) else
      let w := w.setLinks v (w.links v ++ [l])
      if some v ∈ w.ends l then some (w.invalidate v) else
        match addVertex f w l (some v) with
        | none => none
        | some w => some (w.invalidate v)
/-- `Link.add_vertex(self=l, new)` -/
def addVertex : Nat → World → LId → Option VId → Option World
  | 0, _, _, _ => none
  | f+1, w, l, new =>
    let w := w.setEnds l (w.ends l ++ [new])
    let w := w.invalidateEnds l
    match new with
    | none => some w
    | some v => if l ∈ w.links v then some w else addToLink f w v l
end

mutual
/-- `Vertex.remove_from_link(self=v, link=l)` -/
def removeFromLink : Nat → World → VId → LId → Option World
  | 0, _, _, _ => none
  | f+1, w, v, l =>
    if l ∈ w.links v then
      let w := w.setLinks v ((w.links v).erase l)
      match unlinkFrom f w l (some v) with
      | none => none
      | some w => some (w.invalidate v)
    else some (w.invalidate v)
/-- `Link.unlink_from(self=l, kill)` -/
def unlinkFrom : Nat → World → LId → Option VId → Option World
  | 0, _, _, _ => none
  | f+1, w, l, kill =>
    if kill ∈ w.ends l then
      let w := w.invalidateEnds l
      match kill with
      | none => some (w.setEnds l ((w.ends l).erase none))
      | some k =>
        let w := w.setEnds l ((w.ends l).filter (· != some k))
        removeFromLink f w k l
    else some w
end

/-- the first half of `TwoEndedLink._replace_end`: invalidate, `self._vertices[idx] = new`,
    invalidate -/
def rawSetEnd (w : World) (l : LId) (idx : Nat) (new : Option VId) : World :=
  ((w.invalidateEnds l).setEnds l ((w.ends l).set idx new)).invalidateEnds l

/-- `TwoEndedLink._replace_end(self=l, idx, new)` -/
def replaceEnd (f : Nat) (w : World) (l : LId) (idx : Nat) (new : Option VId) : Option World :=
  let old := (w.ends l).getD idx none
  let w := rawSetEnd w l idx new
  let w? : Option World :=
    match old with
    | none => some w
    | some o => if some o ∈ w.ends l then some w else removeFromLink f w o l
  match w? with
  | none => none
  | some w =>
    match new with
    | none => some w
    | some n => if l ∈ w.links n then some w else addToLink f w n l

/-- `TwoEndedLink.other(self=l, end)`; `Link` itself has no such method. -/
def other (w : World) (l : LId) (e : VId) : Except Err (Option VId) :=
  if (w.lcls l).kind = .nary then .error .attribute else
  match w.ends l with
  | a :: b :: _ => if a = some e then .ok b else if b = some e then .ok a else .ok none
  | _ => .error .index

/-- allocate a link object with no ends yet (`BaseObject.__init__` + `_vertices = []`) -/
def allocLink (w : World) (c : LCls) : World × LId :=
  ({ w with nL := w.nL + 1, lcls := upd w.lcls w.nL c, ends := upd w.ends w.nL [] }, w.nL)

end M
end EG
