import EG.Step
import EG.TravState
/-
  EG.StepX — the operation alphabet of EG.Step extended by the traversal and search entry
  points, which go through `neighbors()` and therefore through the memo (EG.TravState).
  Histories over this alphabet interleave constructions, mutations, flag toggles, `neighbors`,
  `find_links`, the three traversals and the three searches.
    R k x  = truth value of result filter (`ff_result`) number `k` on vertex `x` (`none` = None)
-/
namespace EG

inductive XOp
  | base (op : Op)
  | traverse (kind : TO.TravKind) (uni : Option VId) (start : VId) (dir unk : Nat)
      (via : Option Nat) (res : Option Nat)
  | search (kind : TO.SearchKind) (uni : Option VId) (start : VId) (attr val : Nat)

inductive XAns
  | base (a : Ans)
  | listing (out : List Nat) (raised : Option Err)
  | found (r : Err ⊕ Option Nat)
  | bad
  deriving DecidableEq

/-- `ff_result` : `None` accepts everything; id `n` stands for a `None` neighbour; the pseudo ids
    above it ("`neighbors()` raised") always pass so that they stay in the listing that `cutOutput` cuts -/
def resultFilter (R : Nat → Option VId → Bool) (n : Nat) (res : Option Nat) (x : Nat) : Bool :=
  match res with
  | none => true
  | some k => if x > n then true else R k (if x = n then none else some x)

namespace M

def stepX (F : Nat → LId → Option VId → Bool) (R : Nat → Option VId → Bool) (w : World) : XOp → World × XAns
  | .base op => let r := M.step F w op; (r.1, .base r.2)
  | .traverse kind uni start dir unk via res =>
    if !(w.vOK start) || !(uni.all w.isUni) then (w, .bad) else
    let r := TS.traverse w F (resultFilter R w.nV res) kind uni start dir unk via
    (r.1, .listing r.2.1 r.2.2)
  | .search kind uni start attr val =>
    if !(w.vOK start) || !(uni.all w.isUni) then (w, .bad) else
    let r := TS.search w F kind uni start attr val
    (r.1, .found r.2)

def runFromX (F : Nat → LId → Option VId → Bool) (R : Nat → Option VId → Bool) (w : World) :
    List XOp → World × List XAns
  | [] => (w, [])
  | op :: ops =>
    let r := stepX F R w op
    let r' := runFromX F R r.1 ops
    (r'.1, r.2 :: r'.2)

def runX (F : Nat → LId → Option VId → Bool) (R : Nat → Option VId → Bool) (ops : List XOp) :=
  runFromX F R World.init ops

end M
end EG
