import EG.Struct
/-
  EG.Uni — mirror model (M) of universe membership and of the universe ↔ laws link:
    BaseObject.add_to_universe / remove_from_universe     (structure/base.py)
    Vertex.add_to_universe / remove_from_universe / __init__   (structure/vertex.py)
    Universe.add_vertex / remove_vertex / __init__ / laws setter (structure/universe.py)
    UniverseLaws.applies_to setter                          (structure/universe.py)
-/
namespace EG
namespace M

mutual
/-- `Vertex.add_to_universe(self=v, universe=u)` -/
def addToUniverse : Nat → World → VId → VId → Option World
  | 0, _, _, _ => none
  | f+1, w, v, u =>
    -- super().add_to_universe(universe)
    let w := if u ∈ w.unis v then w else w.setUnis v (w.unis v ++ [u])
    if v ∈ w.members u then some w else uniAddVertex f w u v
/-- `Universe.add_vertex(self=u, vert=v)` -/
def uniAddVertex : Nat → World → VId → VId → Option World
  | 0, _, _, _ => none
  | f+1, w, u, v =>
    if v ∈ w.members u then some w else
      let w := w.setMembers u (w.members u ++ [v])
      if u ∈ w.unis v then some w else addToUniverse f w v u
end

mutual
/-- `Vertex.remove_from_universe(self=v, universe=u)`; `ValueError` when absent -/
def removeFromUniverse : Nat → World → VId → VId → Option (Except Err World)
  | 0, _, _, _ => none
  | f+1, w, v, u =>
    if u ∈ w.unis v then
      let w := w.setUnis v ((w.unis v).erase u)
      if v ∈ w.members u then uniRemoveVertex f w u v else some (.ok w)
    else some (.error .value)
/-- `Universe.remove_vertex(self=u, vert=v)`; `ValueError` when absent -/
def uniRemoveVertex : Nat → World → VId → VId → Option (Except Err World)
  | 0, _, _, _ => none
  | f+1, w, u, v =>
    if v ∈ w.members u then
      let w := w.setMembers u ((w.members u).erase v)
      if u ∈ w.unis v then removeFromUniverse f w v u else some (.ok w)
    else some (.error .value)
end

mutual
/-- `UniverseLaws.applies_to = new` (self = law set `L`) -/
def setAppliesTo : Nat → World → WId → Option VId → Option World
  | 0, _, _, _ => none
  | f+1, w, L, new =>
    if new = w.appliesTo L then some w else
      let old := w.appliesTo L
      let w := w.setAppliesTo L new
      let w? : Option World :=
        match old with
        | none => some w
        | some o => if w.laws o = some L then setLaws f w o none else some w
      match w? with
      | none => none
      | some w =>
        match w.appliesTo L with
        | none => some w
        | some u => setLaws f w u (some L)
/-- `Universe.laws = new` (self = universe `u`) -/
def setLaws : Nat → World → VId → Option WId → Option World
  | 0, _, _, _ => none
  | f+1, w, u, new =>
    if new = w.laws u then some w else
      let old := w.laws u
      let w := w.setLaws u new
      let w? : Option World :=
        match old with
        | none => some w
        | some o => if w.appliesTo o = some u then setAppliesTo f w o none else some w
      match w? with
      | none => none
      | some w =>
        match new with
        | none => some w
        | some L => setAppliesTo f w L (some u)
end

/-- allocate a vertex object: `BaseObject.__init__` with the given class, attributes and
    de-duplicated `universes=`; no links yet, empty cache -/
def allocVertex (w : World) (c : VCls) (attrs : List (Nat × Nat)) (us : List VId) : World × VId :=
  ({ w with nV := w.nV + 1
            vcls := upd w.vcls w.nV c
            links := upd w.links w.nV []
            unis := upd w.unis w.nV (dedupKeepFirst us)
            members := upd w.members w.nV []
            laws := upd w.laws w.nV none
            attrs := upd w.attrs w.nV attrs
            cache := upd w.cache w.nV [] }, w.nV)

/-- `UniverseLaws(<rule arguments number r>)`; `r = 0` are the defaults -/
def allocLaws (w : World) (r : Nat := 0) : World × WId :=
  ({ w with nW := w.nW + 1, appliesTo := upd w.appliesTo w.nW none, rules := upd w.rules w.nW r }, w.nW)

end M
end EG
