/- every property module (built by MANIFEST.setup_cmd so that checks start from a warm build) -/
import EG.Props.C01
import EG.Props.C02
import EG.Props.C03
import EG.Props.C04
import EG.Props.C05
import EG.Props.C06
import EG.Props.C07
import EG.Props.C08
import EG.Props.C09
import EG.Props.C11
import EG.Props.C12
import EG.Props.C13
import EG.Props.C17
import EG.Props.C18
import EG.Props.C19
import EG.Props.C20
