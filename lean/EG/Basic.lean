/-
  EG.Basic — identifiers, error classes, link / vertex classes, small list helpers.
  No imports outside core: every model file must stay Mathlib-free so that the
  protocol driver can be linked as a native executable.
-/
namespace EG

abbrev VId := Nat   -- vertices (universes are vertices)
abbrev LId := Nat   -- links
abbrev WId := Nat   -- law sets (UniverseLaws)

/-- Exception classes that the protocol distinguishes. -/
inductive Err
  | type | index | attribute | value | notImpl | key | fault | assertion | recursion | other
  deriving DecidableEq, Repr, Inhabited

def Err.name : Err → String
  | .type => "TypeError" | .index => "IndexError" | .attribute => "AttributeError"
  | .value => "ValueError" | .notImpl => "NotImplementedError" | .key => "KeyError"
  | .fault => "Fault" | .assertion => "AssertionError" | .recursion => "RecursionError"
  | .other => "Other"

/-- Link classes of the pool: DirectedEdge, UnDirectedEdge, a subclass of each,
    another TwoEndedLink class, an n-ary Link class, and `DU(DirectedEdge, UnDirectedEdge)`, a
    class deriving from BOTH edge classes. -/
inductive LCls | D | U | DD | UU | X | N | DU
  deriving DecidableEq, Repr, Inhabited

inductive Kind | undirected | directed | other | nary
  deriving DecidableEq, Repr

/-- how `neighbors` / `find_links` treat the class: they test `issubclass(…, UnDirectedEdge)`
    FIRST, so a class deriving from both edge classes is undirected -/
def LCls.kind : LCls → Kind
  | .D => .directed | .DD => .directed | .U => .undirected | .UU => .undirected
  | .X => .other | .N => .nary | .DU => .undirected

/-- `issubclass(type(link), DirectedEdge)`, the only test pyvis makes -/
def LCls.subDirected : LCls → Bool
  | .D => true | .DD => true | .DU => true | _ => false

def LCls.name : LCls → String
  | .D => "D" | .U => "U" | .DD => "DD" | .UU => "UU" | .X => "X" | .N => "N" | .DU => "DU"

def LCls.ofString? : String → Option LCls
  | "D" => some .D | "U" => some .U | "DD" => some .DD | "UU" => some .UU
  | "X" => some .X | "N" => some .N | "DU" => some .DU | _ => none

/-- Vertex classes of the pool: Vertex, a subclass, a falsy subclass, Universe, a mixin class
    `MX(Vertex)` and a class with TWO bases `MV(SV, MX)` (MRO: MV, SV, MX, Vertex). -/
inductive VCls | V | SV | FV | UNI | MX | MV
  deriving DecidableEq, Repr, Inhabited

def VCls.name : VCls → String
  | .V => "V" | .SV => "SV" | .FV => "FV" | .UNI => "UNI" | .MX => "MX" | .MV => "MV"

def VCls.ofString? : String → Option VCls
  | "V" => some .V | "SV" => some .SV | "FV" => some .FV | "UNI" => some .UNI
  | "MX" => some .MX | "MV" => some .MV | _ => none

/-- Point update of a function-valued field. -/
def upd {α : Type} (f : Nat → α) (i : Nat) (x : α) : Nat → α :=
  fun j => if j = i then x else f j

@[simp] theorem upd_same {α : Type} (f : Nat → α) (i : Nat) (x : α) : upd f i x i = x := by
  simp [upd]

@[simp] theorem upd_other {α : Type} (f : Nat → α) (i j : Nat) (x : α) (h : j ≠ i) :
    upd f i x j = f j := by
  simp [upd, h]

/-- `[*dict.fromkeys(l)]` : de-duplicate, keeping first occurrences in order. -/
def dedupKeepFirst : List Nat → List Nat
  | [] => []
  | x :: xs => x :: (dedupKeepFirst xs).filter (· != x)

/-- Cache key of `neighbors()` : (direction, unknown handling, filter identity). -/
structure Key where
  dir : Nat
  unk : Nat
  filt : Option Nat
  deriving DecidableEq, Repr

end EG
