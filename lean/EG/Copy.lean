import EG.Query
/-
  EG.Copy — an isomorphic copy of a world: what `pickle.loads(pickle.dumps(root))` (pickle, dill or
  nrpickler, same or fresh interpreter) builds.  Every vertex `v` becomes `ρ v`, every link `l`
  becomes `σ l`; every ordered container keeps its order; the memo tables travel with their
  vertices (`Vertex.__qa_nb_cache` is part of the instance state and is pickled with it), with
  the vertices inside the remembered answers renamed.  `NEIGHBOR_CACHING` is a class attribute of
  the loading interpreter: it is NOT copied — `flag` is whatever it is there.

  `ρ' / σ'` are the inverse renamings (old name of a new object).  Filters are pickled by
  reference (a module-level function) or by value; either way filter number `k` of the copy judges
  the copied link and vertex as filter `k` judged the originals: `copyF`.
-/
namespace EG

structure Renaming where
  ρ : VId → VId
  ρ' : VId → VId
  σ : LId → LId
  σ' : LId → LId

/-- the two pairs are mutually inverse (a permutation of the names) -/
structure Renaming.Bij (r : Renaming) : Prop where
  vl : ∀ v, r.ρ' (r.ρ v) = v
  vr : ∀ v, r.ρ (r.ρ' v) = v
  ll : ∀ l, r.σ' (r.σ l) = l
  lr : ∀ l, r.σ (r.σ' l) = l

def Renaming.ans (r : Renaming) (a : List (Option VId)) : List (Option VId) := a.map (Option.map r.ρ)

def World.copy (w : World) (r : Renaming) (flag : Bool) : World where
  nV := w.nV
  nL := w.nL
  nW := w.nW
  vcls := fun v => w.vcls (r.ρ' v)
  links := fun v => (w.links (r.ρ' v)).map r.σ
  unis := fun v => (w.unis (r.ρ' v)).map r.ρ
  members := fun v => (w.members (r.ρ' v)).map r.ρ
  laws := fun v => w.laws (r.ρ' v)
  attrs := fun v => w.attrs (r.ρ' v)
  lcls := fun l => w.lcls (r.σ' l)
  ends := fun l => (w.ends (r.σ' l)).map (Option.map r.ρ)
  appliesTo := fun W => (w.appliesTo W).map r.ρ
  rules := w.rules
  caching := flag
  cache := fun v => (w.cache (r.ρ' v)).map (fun e => (e.1, r.ans e.2))

/-- filter number `k` in the loading interpreter -/
def copyF (r : Renaming) (F : Nat → LId → Option VId → Bool) : Nat → LId → Option VId → Bool :=
  fun k l x => F k (r.σ' l) (x.map r.ρ')

end EG
