#!/usr/bin/env python3
"""
Equivalence check for rewrite 1 (C04): neighbors() direction / unknown-type /
filter rules.  Passes on the unchanged tree and with the rewrite applied.

Run:  cd /tmp/ref/C04 && PYTHONPATH=/tmp/ref/C04 /venv/bin/python equiv.py
"""

import itertools
import sys

from edgegraph.structure import (
    Vertex,
    DirectedEdge,
    UnDirectedEdge,
    TwoEndedLink,
)
from edgegraph.traversal import helpers
from edgegraph.traversal.helpers import (
    neighbors,
    DIR_SENS_FORWARD,
    DIR_SENS_ANY,
    DIR_SENS_BACKWARD,
    LNK_UNKNOWN_NONNEIGHBOR,
    LNK_UNKNOWN_NEIGHBOR,
    LNK_UNKNOWN_ERROR,
)

FAILS = []


def check(cond, what):
    if not cond:
        FAILS.append(what)
        print("FAIL:", what)


class SubDir(DirectedEdge):
    pass


class SubUnDir(UnDirectedEdge):
    pass


class Other(TwoEndedLink):
    pass


class SubOther(Other):
    pass


class Both(UnDirectedEdge, DirectedEdge):
    """counts as undirected: that check comes first"""


class Both2(DirectedEdge, UnDirectedEdge):
    pass


class FalsyVertex(Vertex):
    def __bool__(self):
        return False

    def __eq__(self, other):
        return True

    __hash__ = Vertex.__hash__


UNDIRECTED = (UnDirectedEdge, SubUnDir, Both, Both2)
DIRECTED = (DirectedEdge, SubDir)
UNKNOWN = (TwoEndedLink, Other, SubOther)


def model(vert, direction, unknown, filt):
    """Independent statement of the documented rules (list or exc class)."""
    out = []
    for link in vert.links:
        ends = link.vertices
        if vert is ends[0]:
            far = ends[1]
        elif vert is ends[1]:
            far = ends[0]
        else:
            far = None
        cls = type(link)
        if direction == DIR_SENS_ANY:
            take = True
        elif issubclass(cls, UNDIRECTED):
            take = True
        elif issubclass(cls, DirectedEdge) and (
            ends[0] is vert or ends[1] is vert
        ):
            mine = ends[0] if direction == DIR_SENS_FORWARD else ends[1]
            take = mine is vert
        else:
            # unknown class -- or a directed edge that has vert at no end
            if unknown == LNK_UNKNOWN_NONNEIGHBOR:
                take = False
            elif unknown == LNK_UNKNOWN_NEIGHBOR:
                take = True
            else:
                return NotImplementedError
        if take and (filt is None or filt(link, far)):
            out.append(far)
    return out


def run(vert, direction, unknown, filt):
    try:
        return neighbors(vert, direction, unknown, filt)
    except Exception as exc:  # pylint: disable=broad-except
        return type(exc)


def same(a, b):
    if isinstance(a, type) or isinstance(b, type):
        return a is b
    return len(a) == len(b) and all(x is y for x, y in zip(a, b))


def build_world(vcls=Vertex):
    vs = [vcls(attributes={"i": i}) for i in range(5)]
    a, b, c, d, e = vs
    links = []
    n = 0
    for cls in UNDIRECTED + DIRECTED + UNKNOWN:
        for (x, y) in ((a, b), (b, a), (a, a), (a, c), (c, a), (a, b)):
            lnk = cls(x, y)
            lnk.n = n
            n += 1
            links.append(lnk)
    # dangling ends
    for cls in (DirectedEdge, UnDirectedEdge, Other):
        links.append(cls(d, None))
        links.append(cls(None, d))
    # a directed edge and an undirected edge that list e as a THIRD vertex:
    # e is attached to them but is neither v1 nor v2
    for cls in (SubDir, UnDirectedEdge, Other):
        lnk = cls(a, b)
        lnk.add_vertex(e)
        links.append(lnk)
    for i, lnk in enumerate(links):
        if not hasattr(lnk, "n"):
            lnk.n = 1000 + i
    return vs, links


def selective(link, other):
    return link.n % 3 != 0


def by_other(link, other):
    return other is not None and other.i in (0, 1)


class CallableFilter:
    def __init__(self):
        self.calls = []

    def __call__(self, link, other):
        self.calls.append((link, other))
        return [] if link.n % 2 else [0]  # falsy / truthy non-bool results


def exercise(caching):
    Vertex.NEIGHBOR_CACHING = caching
    for vcls in (Vertex, FalsyVertex):
        vs, _links = build_world(vcls)
        filters = [
            None,
            lambda l, o: True,
            lambda l, o: False,
            selective,
            by_other,
        ]
        for vert, direction, unknown, filt in itertools.product(
            vs,
            (DIR_SENS_FORWARD, DIR_SENS_ANY, DIR_SENS_BACKWARD, True, 2.0),
            (
                LNK_UNKNOWN_NONNEIGHBOR,
                LNK_UNKNOWN_NEIGHBOR,
                LNK_UNKNOWN_ERROR,
                7,
            ),
            filters,
        ):
            want = model(vert, direction, unknown, filt)
            for _ in range(2):  # second round may come from the cache
                got = run(vert, direction, unknown, filt)
                check(
                    same(got, want),
                    f"{vcls.__name__} v{vert.i} dir={direction} "
                    f"unk={unknown} filt={filt} cache={caching}",
                )

        # forward / backward duality, counted with multiplicity
        for v, w in itertools.product(vs, vs):
            for unknown in (LNK_UNKNOWN_NONNEIGHBOR, LNK_UNKNOWN_NEIGHBOR):
                fwd = neighbors(v, DIR_SENS_FORWARD, unknown)
                bwd = neighbors(w, DIR_SENS_BACKWARD, unknown)
                # only links that have both as genuine ends take part
                k1 = sum(1 for x in fwd if x is w)
                k2 = sum(1 for x in bwd if x is v)
                if v.i in (0, 1, 2) and w.i in (0, 1, 2):
                    check(k1 == k2, f"duality v{v.i} v{w.i} unk={unknown}")

        # the filter sees exactly the qualifying (link, other) pairs, in order,
        # and is not asked about anything once an error is due
        a = vs[0]
        for direction in (DIR_SENS_FORWARD, DIR_SENS_ANY, DIR_SENS_BACKWARD):
            for unknown in (0, 1, 2):
                cf = CallableFilter()
                res = run(a, direction, unknown, cf)
                probe = []

                def rec(link, other, probe=probe):
                    probe.append((link, other))
                    return [] if link.n % 2 else [0]

                want = model(a, direction, unknown, rec)
                if want is NotImplementedError:
                    # calls made before the offending link still happened
                    want_calls = probe
                else:
                    want_calls = probe
                check(same(res, want), f"callable filter result {direction}")
                check(
                    len(cf.calls) == len(want_calls)
                    and all(
                        p[0] is q[0] and p[1] is q[1]
                        for p, q in zip(cf.calls, want_calls)
                    ),
                    f"filter call sequence dir={direction} unk={unknown}",
                )

    # bad direction: ValueError only when there is a link to look at
    lone = Vertex()
    check(run(lone, 99, 0, None) == [], "bad direction, no links")
    x, y = Vertex(), Vertex()
    UnDirectedEdge(x, y)
    check(run(x, 99, 0, None) is ValueError, "bad direction, with link")
    check(run(x, None, 0, None) is ValueError, "None direction, with link")

    # a filter that raises: exception passes through, nothing cached
    def boom(link, other):
        raise KeyError("boom")

    check(run(x, DIR_SENS_ANY, 0, boom) is KeyError, "raising filter")
    check(same(run(x, DIR_SENS_ANY, 0, None), [y]), "after raising filter")

    # a link with a missing end list entry: IndexError from other(), whatever
    # the direction (even an invalid one)
    p, q = Vertex(), Vertex()
    lnk = DirectedEdge(p, q)
    lnk.unlink_from(q)
    for direction in (0, 1, 2, 99):
        check(run(p, direction, 0, None) is IndexError, "one-ended link")

    # result list is the caller's: mutating it does not affect later answers
    r1 = neighbors(x)
    r1.append("junk")
    check(same(neighbors(x), [y]), "result aliasing")
    check(neighbors(x) is not neighbors(x), "fresh list each call")

    # a filter mutating the graph while neighbors() runs: the snapshot of
    # links taken at the start is what gets walked, ends are looked up lazily
    m, n1, n2, n3 = Vertex(), Vertex(), Vertex(), Vertex()
    e1 = DirectedEdge(m, n1)
    e2 = DirectedEdge(m, n2)

    def mutating(link, other):
        if link is e1:
            e2.v2 = n3
        return True

    check(same(neighbors(m, filterfunc=mutating), [n1, n3]), "mutating filter")


def main():
    saved = Vertex.NEIGHBOR_CACHING
    try:
        exercise(False)
        exercise(True)
    finally:
        Vertex.NEIGHBOR_CACHING = saved

    # public surface of the module is unchanged
    public = sorted(n for n in dir(helpers) if not n.startswith("_"))
    check(
        public
        == sorted(
            [
                "Callable",
                "DIR_SENS_ANY",
                "DIR_SENS_BACKWARD",
                "DIR_SENS_FORWARD",
                "DirectedEdge",
                "LNK_UNKNOWN_ERROR",
                "LNK_UNKNOWN_NEIGHBOR",
                "LNK_UNKNOWN_NONNEIGHBOR",
                "Link",
                "UnDirectedEdge",
                "Vertex",
                "annotations",
                "find_links",
                "neighbors",
            ]
        ),
        f"public names of helpers: {public}",
    )

    if FAILS:
        print(f"{len(FAILS)} check(s) failed")
        return 1
    print("equiv r1: all checks passed")
    return 0


if __name__ == "__main__":
    sys.exit(main())
