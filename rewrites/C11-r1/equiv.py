#!/usr/bin/python3
# -*- coding: utf-8 -*-
"""
Equivalence / property check for C11, focused on load_adj_matrix (rewrite 1).

Exit status 0 = every observation is as expected.  Must pass both on the
unchanged tree and with the rewrite applied.
"""

import sys
import collections

from edgegraph.structure import (
    Vertex,
    Universe,
    DirectedEdge,
    UnDirectedEdge,
    TwoEndedLink,
    Link,
)
from edgegraph.builder import adjmatrix, adjlist, explicit
from edgegraph.traversal import helpers

FAILS = []


def check(cond, what):
    if not cond:
        FAILS.append(what)
        print("FAIL:", what)


def same_seq(a, b):
    """Identity-wise equality of two sequences."""
    a, b = list(a), list(b)
    return len(a) == len(b) and all(x is y for x, y in zip(a, b))


LOG = []


class LoggedDirected(DirectedEdge):
    def __init__(self, v1=None, v2=None, **kw):
        LOG.append(("D", v1, v2))
        super().__init__(v1, v2, **kw)


class LoggedUndirected(UnDirectedEdge):
    def __init__(self, v1=None, v2=None, **kw):
        LOG.append(("U", v1, v2))
        super().__init__(v1, v2, **kw)


class LoggedPlain(TwoEndedLink):
    def __init__(self, v1=None, v2=None, **kw):
        LOG.append(("T", v1, v2))
        super().__init__(v1, v2, **kw)


class Truthy:
    """A cell object with a user-defined truth value; counts its bool() calls."""

    def __init__(self, val):
        self.val = val
        self.asked = 0

    def __bool__(self):
        self.asked += 1
        return self.val


class Boom(Exception):
    pass


class Exploding:
    def __init__(self, exc):
        self.exc = exc

    def __bool__(self):
        raise self.exc


class SubVertex(Vertex):
    """Vertex subclass that records add_to_universe calls."""

    CALLS = []

    def add_to_universe(self, universe):
        SubVertex.CALLS.append((self, universe))
        super().add_to_universe(universe)


def expected_pairs(matrix):
    out = []
    for i, row in enumerate(matrix):
        for j, cell in enumerate(row):
            if cell:
                out.append((i, j))
    return out


def snapshot(verts):
    return [(tuple(v.links), tuple(v.universes)) for v in verts]


def run_matrix_case(name, matrix, nverts, linktype, tag, vertices_factory=list):
    """Build, then compare everything observable with the oracle."""
    verts = [Vertex(attributes={"i": i}) for i in range(nverts)]

    # prior state: an old universe, and an old link between 0 and (n-1)
    olduni = Universe()
    oldlink = None
    if nverts:
        verts[0].add_to_universe(olduni)
        oldlink = DirectedEdge(verts[0], verts[-1])
    before = snapshot(verts)

    pairs = expected_pairs(matrix)
    side = vertices_factory(verts)
    del LOG[:]
    uni = adjmatrix.load_adj_matrix(matrix, side, linktype)

    check(type(uni) is Universe, f"{name}: returns a Universe")
    check(uni is not olduni, f"{name}: new universe")
    check(same_seq(uni.vertices, verts), f"{name}: members in side-array order")
    check(
        [(t, a, b) for (t, a, b) in LOG]
        == [(tag, verts[i], verts[j]) for i, j in pairs],
        f"{name}: links created in input order, row -> column",
    )
    check(len(LOG) == len(pairs), f"{name}: one link per truthy cell")

    for idx, v in enumerate(verts):
        oldlinks, oldunis = before[idx]
        check(
            same_seq(v.links[: len(oldlinks)], oldlinks),
            f"{name}: v{idx} keeps prior links first",
        )
        check(
            same_seq(v.universes, list(oldunis) + [uni]),
            f"{name}: v{idx} universes = prior + new",
        )
        new = v.links[len(oldlinks) :]
        # expected new links on this vertex, in creation order; a self-loop
        # is listed once
        exp = [(i, j) for (i, j) in pairs if idx in (i, j)]
        check(len(new) == len(exp), f"{name}: v{idx} number of new links")
        for lnk, (i, j) in zip(new, exp):
            check(type(lnk) is linktype, f"{name}: link class")
            check(
                same_seq(lnk.vertices, (verts[i], verts[j])),
                f"{name}: v{idx} link ends ({i},{j})",
            )
            check(lnk.universes == [], f"{name}: links are in no universe")

    if oldlink is not None:
        check(
            same_seq(oldlink.vertices, (verts[0], verts[-1])),
            f"{name}: old link untouched",
        )
        check(same_seq(olduni.vertices, [verts[0]]), f"{name}: old uni untouched")

    # read-back through neighbors() / find_links()
    directed = issubclass(linktype, DirectedEdge)
    undirected = issubclass(linktype, UnDirectedEdge)
    if directed or undirected:
        for idx, v in enumerate(verts):
            nbs = helpers.neighbors(v)
            exp = []
            # prior directed link 0 -> n-1 comes first for vertex 0
            if idx == 0:
                exp.append(verts[-1])
            for i, j in pairs:
                if directed:
                    if i == idx:
                        exp.append(verts[j])
                else:
                    if i == idx:
                        exp.append(verts[j])
                    elif j == idx:
                        exp.append(verts[i])
            check(same_seq(nbs, exp), f"{name}: neighbors(v{idx})")
        for a in range(nverts):
            for b in range(nverts):
                found = helpers.find_links(verts[a], verts[b])
                found = {l for l in found if l is not oldlink}
                if directed:
                    n = sum(1 for p in pairs if p == (a, b))
                else:
                    n = len({k for k, p in enumerate(pairs) if p in ((a, b), (b, a))})
                check(len(found) == n, f"{name}: find_links(v{a}, v{b}) count")
    return uni, verts


def main():
    # ------------------------------------------------------------------
    # ordinary and less ordinary matrices
    # ------------------------------------------------------------------
    doc = [
        [0, 1, 1, 1, 0, 0],
        [0, 0, 1, 1, 1, 0],
        [0, 0, 0, 1, 1, 1],
        [0, 0, 0, 1, 0, 0],
        [0] * 6,
        [0] * 6,
    ]
    run_matrix_case("doc/directed", doc, 6, LoggedDirected, "D")
    run_matrix_case("doc/undirected", doc, 6, LoggedUndirected, "U")
    run_matrix_case("doc/plain", doc, 6, LoggedPlain, "T")
    run_matrix_case("doc/tuple-side", doc, 6, LoggedDirected, "D", tuple)
    run_matrix_case(
        "doc/deque-side", doc, 6, LoggedDirected, "D", collections.deque
    )
    run_matrix_case("empty", [], 0, LoggedDirected, "D")
    run_matrix_case("1x1 loop", [[1]], 1, LoggedUndirected, "U")
    run_matrix_case("1x1 none", [[0]], 1, LoggedUndirected, "U")

    odd = (
        ("x", 0.0, None, [0]),
        (b"", -1, 2.5, ()),
        range(4),
        [Truthy(True), Truthy(False), "", {0: 0}],
    )
    run_matrix_case("odd cells/directed", odd, 4, LoggedDirected, "D")
    run_matrix_case("odd cells/undirected", odd, 4, LoggedUndirected, "U")

    sym = [[1, 1, 0], [1, 0, 1], [0, 1, 1]]
    run_matrix_case("symmetric/undirected", sym, 3, LoggedUndirected, "U")

    # rows that are only iterable + sized (dict rows iterate their keys;
    # strings iterate characters, and "0" is truthy)
    weird = [{0: "a", 1: "b", 2: "c"}, "0a ", (0, 0, 1)]
    run_matrix_case("weird rows", weird, 3, LoggedDirected, "D")
    # the matrix itself only needs len() and iteration: a dict of tuple keys
    dmat = {(0, 1): "r0", (1, 0): "r1"}
    run_matrix_case("dict matrix", dmat, 2, LoggedDirected, "D")

    # each cell's truth value is asked exactly once
    cells = [[Truthy(True), Truthy(False)], [Truthy(False), Truthy(True)]]
    run_matrix_case("bool once", cells, 2, LoggedDirected, "D")
    check(
        all(c.asked == 2 for row in cells for c in row),
        "each cell asked once by the library (and once by the oracle)",
    )

    # ------------------------------------------------------------------
    # the same vertex listed twice in the side array
    # ------------------------------------------------------------------
    a, b = Vertex(), Vertex()
    del LOG[:]
    uni = adjmatrix.load_adj_matrix(
        [[0, 1, 1], [0, 0, 0], [1, 0, 0]], [a, b, a], LoggedDirected
    )
    check(same_seq(uni.vertices, [a, b]), "dup side array: members deduplicated")
    check(LOG == [("D", a, b), ("D", a, a), ("D", a, a)], "dup side array: links")
    check(len(a.links) == 3 and len(b.links) == 1, "dup side array: link counts")
    check(same_seq(a.universes, [uni]), "dup side array: universe once")

    # ------------------------------------------------------------------
    # subclassed vertices: add_to_universe is what gets called, in order,
    # and all of them before the first link is made
    # ------------------------------------------------------------------
    svs = [SubVertex(), SubVertex(), SubVertex()]
    del SubVertex.CALLS[:]
    seen_at_link = []

    def factory(v1, v2):
        seen_at_link.append(list(SubVertex.CALLS))
        return DirectedEdge(v1, v2)

    uni = adjmatrix.load_adj_matrix([[0, 1, 0], [0, 0, 1], [0, 0, 0]], svs, factory)
    first = [c for c in SubVertex.CALLS[:3]]
    check(
        [v for v, _ in first] == svs and all(u is uni for _, u in first),
        "subclass add_to_universe called per side-array entry in order",
    )
    check(
        len(seen_at_link) == 2 and all(len(s) >= 3 for s in seen_at_link),
        "all vertices are in the universe before the first link",
    )
    check(same_seq(uni.vertices, svs), "subclass vertices are members")

    # ------------------------------------------------------------------
    # nested universes as vertices
    # ------------------------------------------------------------------
    inner = Universe()
    plain = Vertex()
    uni = adjmatrix.load_adj_matrix([[0, 1], [1, 1]], [inner, plain])
    check(same_seq(uni.vertices, [inner, plain]), "universe as a vertex: member")
    check(same_seq(inner.universes, [uni]), "universe as a vertex: universes")
    check(inner.vertices == [], "inner universe gained no members")
    check(same_seq(helpers.neighbors(plain), [inner, plain]), "nested: neighbors")

    # ------------------------------------------------------------------
    # rejected input: nothing is touched, and ValueError it is
    # ------------------------------------------------------------------
    def rejected(name, matrix, nverts, exc=ValueError):
        verts = [Vertex() for _ in range(nverts)]
        if nverts > 1:
            DirectedEdge(verts[0], verts[1])
        before = snapshot(verts)
        del LOG[:]
        try:
            adjmatrix.load_adj_matrix(matrix, verts, LoggedDirected)
        except Exception as e:  # pylint: disable=broad-except
            check(type(e) is exc, f"{name}: raises {exc.__name__}, got {type(e)}")
        else:
            check(False, f"{name}: no exception")
        check(snapshot(verts) == before, f"{name}: vertices untouched")
        check(LOG == [], f"{name}: no link created")

    rejected("short row", [[0, 1, 0], [0, 1], [0, 1, 0]], 3)
    rejected("long row", [[0, 1, 0], [0, 1, 1, 1], [0, 1, 0]], 3)
    rejected("last row bad", [[1, 1], [1]], 2)
    rejected("too many vertices", [[0, 1, 0], [0, 1, 0], [0, 1, 0]], 4)
    rejected("too few vertices", [[0, 1, 0], [0, 1, 0], [0, 1, 0]], 2)
    rejected("no vertices", [[1]], 0)
    rejected("no rows", [], 2)
    rejected("wide", [[1, 1, 1]], 1)
    rejected("tall", [[1], [1], [1]], 3)
    # side array is checked before the rows are looked at
    rejected("both wrong", [[1, 1], 5], 3)
    # rows are checked in order; an un-sized row after a bad row is not reached
    rejected("bad then unsized", [[1], 5], 2)
    # ... but an un-sized row before it is a TypeError
    rejected("unsized then bad", [5, [1]], 2, TypeError)
    rejected("unsized matrix", iter([[1]]), 1, TypeError)
    # a row with a truthy exploding cell is still rejected for shape first
    rejected("shape before cells", [[Exploding(Boom())], [1, 1]], 2)

    # side array without len()
    try:
        adjmatrix.load_adj_matrix([[0]], iter([Vertex()]))
    except TypeError:
        pass
    else:
        check(False, "unsized side array must be a TypeError")

    # ------------------------------------------------------------------
    # failures half-way leave exactly the same state behind
    # ------------------------------------------------------------------
    for exc in (Boom(), StopIteration(), KeyError("k")):
        verts = [Vertex() for _ in range(3)]
        del LOG[:]
        m = [[0, 1, 1], [1, Exploding(exc), 1], [1, 1, 1]]
        try:
            adjmatrix.load_adj_matrix(m, verts, LoggedUndirected)
        except BaseException as e:  # pylint: disable=broad-except
            check(e is exc, f"cell {type(exc).__name__} propagates unchanged")
        else:
            check(False, "exploding cell must propagate")
        check(
            LOG == [("U", verts[0], verts[1]), ("U", verts[0], verts[2]),
                    ("U", verts[1], verts[0])],
            "links before the exploding cell exist, none after",
        )
        check(
            all(len(v.universes) == 1 for v in verts)
            and len({id(v.universes[0]) for v in verts}) == 1,
            "all vertices had been added to the (lost) universe",
        )
        check(
            same_seq(verts[0].universes[0].vertices, verts),
            "the lost universe lists all vertices",
        )

    # a link type that fails on its third call
    calls = []

    def third_fails(v1, v2):
        calls.append((v1, v2))
        if len(calls) == 3:
            raise Boom("third")
        return UnDirectedEdge(v1, v2)

    verts = [Vertex() for _ in range(3)]
    try:
        adjmatrix.load_adj_matrix([[1, 1, 1]] * 3, verts, third_fails)
    except Boom:
        pass
    else:
        check(False, "failing link type must propagate")
    check(
        calls == [(verts[0], verts[0]), (verts[0], verts[1]), (verts[0], verts[2])],
        "failing link type: calls so far",
    )
    check(
        [len(v.links) for v in verts] == [2, 1, 0],
        "failing link type: links left behind",
    )

    # the abstract Link class cannot be built (TypeError), after the
    # vertices have been put into the universe
    verts = [Vertex(), Vertex()]
    try:
        adjmatrix.load_adj_matrix([[0, 1], [0, 0]], verts, Link)
    except TypeError:
        pass
    else:
        check(False, "Link as link type must be a TypeError")
    check(all(len(v.universes) == 1 for v in verts), "Link type: universes set")
    check(all(v.links == () for v in verts), "Link type: no links")

    # no link type call at all for an all-zero matrix: anything goes
    verts = [Vertex(), Vertex()]
    uni = adjmatrix.load_adj_matrix([[0, 0], [0, 0]], verts, None)
    check(same_seq(uni.vertices, verts), "all-zero matrix never calls linktype")

    # a None entry in the side array: AttributeError, earlier entries enrolled
    v0, v2 = Vertex(), Vertex()
    try:
        adjmatrix.load_adj_matrix([[1] * 3] * 3, [v0, None, v2])
    except AttributeError:
        pass
    else:
        check(False, "None vertex must be an AttributeError")
    check(len(v0.universes) == 1 and v2.universes == [], "None vertex: partial")
    check(v0.links == () and v2.links == (), "None vertex: no links yet")

    # side array that is a dict keyed by the vertices: iteration works, but
    # indexing by position does not -- only noticed when a cell is truthy
    k0, k1 = Vertex(), Vertex()
    side = {k0: "a", k1: "b"}
    uni = adjmatrix.load_adj_matrix([[0, 0], [0, 0]], side)
    check(same_seq(uni.vertices, [k0, k1]), "dict side array / zero matrix works")
    try:
        adjmatrix.load_adj_matrix([[0, 0], [0, 1]], side)
    except KeyError:
        pass
    else:
        check(False, "dict side array with a truthy cell must be a KeyError")
    check(len(k0.universes) == 2 and k0.links == (), "dict side array: state")

    # ------------------------------------------------------------------
    # defaults, signature and module surface
    # ------------------------------------------------------------------
    import inspect

    sig = inspect.signature(adjmatrix.load_adj_matrix)
    check(list(sig.parameters) == ["matrix", "vertices", "linktype"], "signature")
    check(sig.parameters["linktype"].default is DirectedEdge, "default link type")
    verts = [Vertex(), Vertex()]
    adjmatrix.load_adj_matrix(matrix=[[0, 1], [0, 0]], vertices=verts)
    check(type(verts[0].links[0]) is DirectedEdge, "default makes DirectedEdge")
    for nm in ("Universe", "Vertex", "DirectedEdge", "explicit", "load_adj_matrix"):
        check(hasattr(adjmatrix, nm), f"adjmatrix.{nm} still there")
    public = sorted(n for n in vars(adjmatrix) if not n.startswith("_"))
    check(
        public
        == sorted(
            ["DirectedEdge", "Universe", "Vertex", "annotations", "explicit",
             "load_adj_matrix"]
        ),
        f"public names of adjmatrix unchanged: {public}",
    )

    # ------------------------------------------------------------------
    # adjacency dict agrees with the matrix on the same graph
    # ------------------------------------------------------------------
    vs = [Vertex() for _ in range(4)]
    ws = [Vertex() for _ in range(4)]
    m = [[0, 1, 1, 0], [0, 0, 0, 0], [1, 0, 1, 0], [0, 0, 0, 0]]
    adjmatrix.load_adj_matrix(m, vs, UnDirectedEdge)
    adjlist.load_adj_dict(
        {ws[0]: [ws[1], ws[2]], ws[1]: [], ws[2]: [ws[0], ws[2]], ws[3]: []},
        UnDirectedEdge,
    )
    for v, w in zip(vs, ws):
        check(
            [vs.index(n) for n in helpers.neighbors(v)]
            == [ws.index(n) for n in helpers.neighbors(w)],
            "matrix and dict builders agree",
        )

    # explicit.link_from_to is what the property calls "one new link"
    p, q = Vertex(), Vertex()
    l1 = explicit.link_from_to(p, DirectedEdge, q)
    check(explicit.link_from_to(p, UnDirectedEdge, q, dontdup=True) is l1, "dontdup")

    if FAILS:
        print(f"{len(FAILS)} check(s) failed")
        return 1
    print("all checks passed")
    return 0


if __name__ == "__main__":
    sys.exit(main())
