#!/usr/bin/env python3
"""
equiv.py for C14 / rewrite 1 (option resolution, show_attrs compilation,
vertex title, vertex block and stereotype skinparam helpers of
edgegraph.output.plantuml).

Exit status 0 = everything as expected.  Only the public API is used:
render_to_plantuml_src, PLANTUML_RENDER_OPTIONS, PLANTUML_AUTOGEN_NOTE.

The checks are
  1. the C14 property itself on several universes (self-loops, parallel and
     mixed edges, subclasses, isolated vertices, non-default titles / arrows),
  2. a complete model of the emitted text (everything except the order of the
     two set-driven sections is compared exactly),
  3. the in-place compilation of "show_attrs" in the caller's option table,
  4. the exact sequence of calls made on user objects (``__dir__``, property
     reads, user_render_func) for a small graph,
  5. which exception class is raised for broken option tables / graphs, and
     what has already been compiled in the option table at that moment.
"""

import copy
import re
import sys
from collections import Counter

from edgegraph.structure import (
    Vertex,
    Universe,
    DirectedEdge,
    UnDirectedEdge,
)
from edgegraph.output import plantuml

FAILS = []
COUNT = [0]


def check(cond, what):
    COUNT[0] += 1
    if not cond:
        FAILS.append(what)
        print("FAIL:", what)


def raises(exc_cls, func, what):
    try:
        func()
    except BaseException as exc:  # pylint: disable=broad-except
        check(
            type(exc) is exc_cls,
            f"{what}: expected {exc_cls.__name__}, got {type(exc).__name__}",
        )
        return exc
    check(False, f"{what}: expected {exc_cls.__name__}, nothing raised")
    return None


# --------------------------------------------------------------------------
# an independent model of the renderer
# --------------------------------------------------------------------------


def m_resolve(cls, options):
    for cand in [cls, *cls.__mro__[1:]]:
        if cand in options:
            return options[cand]
    raise AssertionError("model: unconfigured class")


def m_rgx(opts):
    sa = opts["show_attrs"]
    if isinstance(sa, re.Pattern):
        return sa
    return re.compile("(" + ")|(".join(sa) + ")")


def m_shown(v, opts):
    rgx = m_rgx(opts)
    return [a for a in dir(v) if rgx.match(a)]


def m_title(v, opts):
    if opts["title_format"] == "$id":
        return hex(id(v))
    return opts["title_format"].format(
        **{a: getattr(v, a) for a in m_shown(v, opts)}
    )


def m_vertex_block(v, options):
    opts = m_resolve(type(v), options)
    if "user_render_func" in opts:
        return opts["user_render_func"](v, options)
    out = f"{opts['type']} {m_title(v, opts)} <<{type(v).__name__}>> {{\n"
    for a in m_shown(v, opts):
        out += f"    {{field}} {a} = {getattr(v, a)}\n"
    return out + "}\n"


def m_link_line(lnk, options):
    opts = m_resolve(type(lnk), options)
    t1 = m_title(lnk.v1, m_resolve(type(lnk.v1), options))
    t2 = m_title(lnk.v2, m_resolve(type(lnk.v2), options))
    return f"{t1} {opts['v1side']}--{opts['v2side']} {t2}\n"


def m_expect(uni, options):
    """
    Returns (prefix, stereotype lines (unordered), middle, link lines
    (unordered), suffix).
    """
    prefix = "@startuml\n"
    if "skinparams" in options and len(options["skinparams"]):
        for k, val in options["skinparams"].items():
            prefix += f"skinparam {k} {val}\n"
    stereo = set()
    links = []
    blocks = ""
    for v in uni.vertices:
        blocks += m_vertex_block(v, options)
        for lnk in v.links:
            if not any(lnk is seen for seen in links):
                links.append(lnk)
        opts = m_resolve(type(v), options)
        for k, val in opts.get("stereotype_skinparams", {}).items():
            stereo.add(f"{k}<<{type(v).__name__}>> {val}\n")
    middle = plantuml.PLANTUML_AUTOGEN_NOTE + blocks
    return (
        prefix,
        ["    " + s for s in stereo],
        middle,
        [m_link_line(lnk, options) for lnk in links],
        "@enduml\n",
    )


def compare_with_model(uni, options, what):
    src = plantuml.render_to_plantuml_src(uni, options)
    check(isinstance(src, str), f"{what}: result is a str")
    prefix, stereo, middle, linklines, suffix = m_expect(uni, options)
    pos = 0
    check(src.startswith(prefix), f"{what}: prefix / diagram skinparams")
    pos += len(prefix)
    if stereo:
        opener = "skinparam object {\n"
        check(src[pos:].startswith(opener), f"{what}: stereotype opener")
        pos += len(opener)
        size = sum(len(s) for s in stereo)
        got = src[pos : pos + size].splitlines(True)
        check(sorted(got) == sorted(stereo), f"{what}: stereotype lines")
        pos += size
        check(src[pos:].startswith("}\n"), f"{what}: stereotype closer")
        pos += 2
    check(src[pos:].startswith(middle), f"{what}: note + vertex blocks")
    pos += len(middle)
    size = sum(len(s) for s in linklines)
    got = src[pos : pos + size].splitlines(True)
    check(
        Counter(got) == Counter(linklines),
        f"{what}: relation lines {sorted(got)} != {sorted(linklines)}",
    )
    pos += size
    check(src[pos:] == suffix, f"{what}: suffix")
    return src


# --------------------------------------------------------------------------
# the C14 property, checked directly on the text
# --------------------------------------------------------------------------


def check_property(uni, options, src, what):
    check(src.startswith("@startuml\n"), f"{what}: starts with @startuml")
    check(src.endswith("@enduml\n"), f"{what}: ends with @enduml")
    members = uni.vertices
    titles = {}
    for v in members:
        opts = m_resolve(type(v), options)
        title = m_title(v, opts)
        titles[id(v)] = title
        decl = f"{opts['type']} {title} <<{type(v).__name__}>> {{\n"
        check(src.count(decl) == 1, f"{what}: {decl!r} declared exactly once")
    internal = []
    for v in members:
        for lnk in v.links:
            if any(lnk is seen for seen in internal):
                continue
            if any(lnk.v1 is m for m in members) and any(
                lnk.v2 is m for m in members
            ):
                internal.append(lnk)
    expected = Counter()
    for lnk in internal:
        opts = m_resolve(type(lnk), options)
        expected[
            f"{titles[id(lnk.v1)]} {opts['v1side']}--{opts['v2side']} "
            f"{titles[id(lnk.v2)]}"
        ] += 1
    title_set = set(titles.values())
    got = Counter()
    for line in src.splitlines():
        parts = line.split(" ")
        if (
            len(parts) == 3
            and parts[0] in title_set
            and parts[2] in title_set
            and "--" in parts[1]
        ):
            got[line] += 1
    check(got == expected, f"{what}: relation lines {got} != {expected}")


# --------------------------------------------------------------------------
# worlds
# --------------------------------------------------------------------------


class Person(Vertex):
    """Vertex subclass."""


class Student(Person):
    """Vertex sub-subclass."""


class Mixin:
    """Not a vertex; may be configured, though."""


class Hybrid(Mixin, Student):
    """Multiple inheritance."""


class Road(DirectedEdge):
    """Edge subclass."""


class Lane(Road):
    """Edge sub-subclass."""


class Fence(UnDirectedEdge):
    """Edge subclass."""


def world_basic():
    uni = Universe()
    vs = [
        Vertex(attributes={"name": "a0", "w": 0}),
        Person(attributes={"name": "p1", "w": ""}),
        Student(attributes={"name": "s2", "w": None}),
        Hybrid(attributes={"name": "h3", "w": []}),
        Vertex(attributes={"name": "iso4", "w": 4}),
    ]
    for v in vs:
        uni.add_vertex(v)
    DirectedEdge(vs[0], vs[1])
    DirectedEdge(vs[0], vs[1])  # parallel
    DirectedEdge(vs[1], vs[0])  # antiparallel
    UnDirectedEdge(vs[1], vs[2])
    UnDirectedEdge(vs[2], vs[1])
    DirectedEdge(vs[2], vs[2])  # self loop
    UnDirectedEdge(vs[3], vs[3])  # self loop
    Road(vs[2], vs[3])
    Lane(vs[3], vs[0])
    Fence(vs[0], vs[3])
    return uni, vs


def named_options():
    opts = copy.deepcopy(plantuml.PLANTUML_RENDER_OPTIONS)
    opts[Vertex]["show_attrs"] = ["name$", "w$"]
    opts[Vertex]["title_format"] = "T_{name}"
    return opts


def main():
    # ---- empty universe
    check(
        plantuml.render_to_plantuml_src(
            Universe(), plantuml.PLANTUML_RENDER_OPTIONS
        )
        is None,
        "empty universe gives None",
    )
    check(
        plantuml.render_to_plantuml_src(Universe(), {}) is None,
        "empty universe gives None even with an empty option table",
    )

    # ---- default options, $id titles, '.+' attributes
    uni, vs = world_basic()
    opts = copy.deepcopy(plantuml.PLANTUML_RENDER_OPTIONS)
    src = compare_with_model(uni, opts, "default")
    check_property(uni, opts, src, "default")
    check(
        isinstance(opts[Vertex]["show_attrs"], re.Pattern)
        and opts[Vertex]["show_attrs"].pattern == "(.+)"
        and opts[Vertex]["show_attrs"].flags == re.compile("x").flags,
        "show_attrs compiled in place to '(.+)'",
    )
    before = opts[Vertex]["show_attrs"]
    src2 = compare_with_model(uni, opts, "default, second call")
    check(opts[Vertex]["show_attrs"] is before, "compiled pattern is kept")
    check(len(src2) == len(src), "second call gives the same amount of text")

    # ---- named titles, per class tables, subclass arrows
    opts = named_options()
    opts[Person] = {
        "type": "class",
        "show_attrs": ["name", "nothing_like_this"],
        "title_format": "P_{name}",
        "stereotype_skinparams": {"BackgroundColor": "Red", "X": 1},
    }
    opts[Mixin] = {
        "type": "entity",
        "show_attrs": "nw",  # a plain string: joined character by character
        "title_format": "M_{name}_{w}",
    }
    opts[Road] = {"v1side": "o", "v2side": "|>"}
    opts[Fence] = {"v1side": "*", "v2side": "*"}
    opts["skinparams"] = {"dpi": 96, "shadowing": False, "x": None}
    src = compare_with_model(uni, opts, "named")
    check_property(uni, opts, src, "named")
    check(opts[Person]["show_attrs"].pattern == "(name)|(nothing_like_this)", "P")
    check(opts[Mixin]["show_attrs"].pattern == "(n)|(w)", "string show_attrs")
    check(opts[Vertex]["show_attrs"].pattern == "(name$)|(w$)", "V pattern")
    for needle in (
        "object T_a0 <<Vertex>> {\n    {field} name = a0\n    {field} w = 0\n}\n",
        "class P_p1 <<Person>> {\n    {field} name = p1\n}\n",
        "class P_s2 <<Student>> {\n    {field} name = s2\n}\n",
        "entity M_h3_[] <<Hybrid>> {\n    {field} name = h3\n    {field} w = []\n}\n",
        "T_a0 --> P_p1\n",
        "P_p1 --> T_a0\n",
        "P_p1 -- P_s2\n",
        "P_s2 -- P_p1\n",
        "P_s2 --> P_s2\n",
        "M_h3_[] -- M_h3_[]\n",
        "P_s2 o--|> M_h3_[]\n",
        "M_h3_[] o--|> T_a0\n",
        "T_a0 *--* M_h3_[]\n",
        "skinparam dpi 96\nskinparam shadowing False\nskinparam x None\n",
        "    BackgroundColor<<Person>> Red\n",
        "    X<<Student>> 1\n",
        "    FontColor<<Vertex>> Black\n",
    ):
        check(needle in src, f"named: {needle!r} present")
    check(src.count("T_a0 --> P_p1\n") == 2, "parallel edges: two lines")
    check("<<Hybrid>> " not in src.split("note as n1")[0], "Mixin: no stereo")

    # ---- empty show_attrs list, pre-compiled pattern, no stereotype table
    opts = copy.deepcopy(plantuml.PLANTUML_RENDER_OPTIONS)
    opts[Vertex]["show_attrs"] = []
    del opts[Vertex]["stereotype_skinparams"]
    del opts["skinparams"]
    src = compare_with_model(uni, opts, "empty show_attrs")
    check_property(uni, opts, src, "empty show_attrs")
    check(opts[Vertex]["show_attrs"].pattern == "()", "empty list gives '()'")
    check("skinparam" not in src.split("note as n1")[0], "no skinparams at all")
    pat = re.compile("name|w$")
    opts[Vertex]["show_attrs"] = pat
    opts[Vertex]["title_format"] = "{name}"
    src = compare_with_model(uni, opts, "precompiled")
    check_property(uni, opts, src, "precompiled")
    check(opts[Vertex]["show_attrs"] is pat, "pre-compiled pattern untouched")

    # ---- a link that leaves the universe, a vertex listed in two universes
    other = Universe()
    outside = Vertex(attributes={"name": "out", "w": 1}, universes=[other])
    other.add_vertex(vs[0])
    DirectedEdge(vs[4], outside)
    opts = named_options()
    src = compare_with_model(uni, opts, "outgoing link")
    check_property(uni, opts, src, "outgoing link")
    src = compare_with_model(other, opts, "second universe")
    check_property(other, opts, src, "second universe")

    # ---- nested universe as a member
    outer = Universe(attributes={"name": "outer", "w": 0})
    inner = Universe(attributes={"name": "inner", "w": 0})
    leaf = Vertex(attributes={"name": "leaf", "w": 0})
    inner.add_vertex(leaf)
    outer.add_vertex(inner)
    outer.add_vertex(leaf)
    DirectedEdge(inner, leaf)
    opts = named_options()
    src = compare_with_model(outer, opts, "nested")
    check_property(outer, opts, src, "nested")
    check("object T_inner <<Universe>> {\n" in src, "universe member declared")

    # ---- call sequence on user objects
    trace = []

    class Traced(Vertex):
        """Logs dir() and reads of .label"""

        def __dir__(self):
            trace.append(("dir", self.tag))
            return super().__dir__()

        @property
        def label(self):
            trace.append(("label", self.tag))
            return "L" + self.tag

    def urf(vert, options):
        trace.append(("urf", vert.tag, options is topts))
        # what has been compiled so far is visible to the callback
        trace.append(
            (
                "compiled",
                isinstance(options[Vertex]["show_attrs"], re.Pattern),
                isinstance(options[Traced]["show_attrs"], re.Pattern),
            )
        )
        return f"URF {vert.tag}\n"

    tuni = Universe()
    plain = Vertex(attributes={"tag": "p", "label": "Lp"}, universes=[tuni])
    t_a = Traced(attributes={"tag": "a"}, universes=[tuni])
    t_b = Traced(attributes={"tag": "b"}, universes=[tuni])
    DirectedEdge(t_a, t_b)
    topts = copy.deepcopy(plantuml.PLANTUML_RENDER_OPTIONS)
    topts[Vertex]["show_attrs"] = ["label$"]
    topts[Vertex]["title_format"] = "{label}"
    topts[Vertex]["user_render_func"] = urf
    topts[Traced] = {
        "type": "object",
        "show_attrs": ["label$", "tag$"],
        "title_format": "{label}",
    }
    src = plantuml.render_to_plantuml_src(tuni, topts)
    expected_trace = [
        ("urf", "p", True),
        ("compiled", True, False),
        # vertex a: attributes, then the title, then the field lines
        ("dir", "a"),
        ("dir", "a"),
        ("label", "a"),
        ("label", "a"),
        ("dir", "b"),
        ("dir", "b"),
        ("label", "b"),
        ("label", "b"),
        # the only link: title of v1, then title of v2
        ("dir", "a"),
        ("label", "a"),
        ("dir", "b"),
        ("label", "b"),
    ]
    check(trace == expected_trace, f"call sequence: {trace}")
    check(
        src.endswith(
            "URF p\n"
            "object La <<Traced>> {\n    {field} label = La\n"
            "    {field} tag = a\n}\n"
            "object Lb <<Traced>> {\n    {field} label = Lb\n"
            "    {field} tag = b\n}\n"
            "La --> Lb\n@enduml\n"
        ),
        "traced world text",
    )

    # ---- exception classes, and the state left behind
    uni, vs = world_basic()

    opts = named_options()
    del opts[Vertex]
    opts[Person] = {"type": "o", "show_attrs": ["name"], "title_format": "{name}"}
    raises(
        ValueError,
        lambda: plantuml.render_to_plantuml_src(uni, opts),
        "unconfigured vertex class",
    )
    check(
        opts[Person]["show_attrs"] == ["name"],
        "nothing compiled before the first vertex failed",
    )

    opts = named_options()
    del opts[UnDirectedEdge]
    raises(
        ValueError,
        lambda: plantuml.render_to_plantuml_src(uni, opts),
        "unconfigured link class",
    )

    # a link with a None end: its class is resolved first, then the ends
    nuni = Universe()
    lone = Vertex(attributes={"name": "lone", "w": 0}, universes=[nuni])
    UnDirectedEdge(lone, None)
    opts = named_options()
    raises(
        ValueError,
        lambda: plantuml.render_to_plantuml_src(nuni, opts),
        "None end",
    )
    opts[type(None)] = {"show_attrs": ["zzz"], "title_format": "NONE"}
    src = compare_with_model(nuni, opts, "None end, configured")
    check("T_lone -- NONE\n" in src, "None end rendered when configured")
    opts = named_options()
    opts[object] = {"show_attrs": ["zzz"], "title_format": "OBJ"}
    src = compare_with_model(nuni, opts, "None end, object configured")
    check("T_lone -- OBJ\n" in src, "object table used for None")

    # missing keys in the vertex table
    for key, exc in (
        ("show_attrs", KeyError),
        ("title_format", KeyError),
        ("type", KeyError),
    ):
        opts = named_options()
        del opts[Vertex][key]
        err = raises(
            exc,
            lambda o=opts: plantuml.render_to_plantuml_src(uni, o),
            f"vertex table without {key}",
        )
        check(err is not None and err.args == (key,), f"KeyError names {key}")

    # user_render_func without show_attrs: vertices fine, link titles fail
    opts = named_options()
    del opts[Vertex]["show_attrs"]
    opts[Vertex]["user_render_func"] = lambda v, o: "X\n"
    raises(
        KeyError,
        lambda: plantuml.render_to_plantuml_src(uni, opts),
        "link title needs show_attrs",
    )
    isolated = Universe()
    Vertex(attributes={"name": "i"}, universes=[isolated])
    src = plantuml.render_to_plantuml_src(isolated, opts)
    check(src.endswith("X\n@enduml\n"), "no links: user func only")

    # title format that needs an attribute which is not shown
    opts = named_options()
    opts[Vertex]["title_format"] = "{uid}"
    raises(
        KeyError,
        lambda: plantuml.render_to_plantuml_src(uni, opts),
        "title attribute not shown",
    )
    opts[Vertex]["title_format"] = "{0}"
    raises(
        IndexError,
        lambda: plantuml.render_to_plantuml_src(uni, opts),
        "positional title field",
    )

    # broken show_attrs values
    opts = named_options()
    opts[Vertex]["show_attrs"] = None
    raises(
        TypeError,
        lambda: plantuml.render_to_plantuml_src(uni, opts),
        "show_attrs None",
    )
    check(opts[Vertex]["show_attrs"] is None, "None left alone")
    opts[Vertex]["show_attrs"] = ["ok", 3]
    raises(
        TypeError,
        lambda: plantuml.render_to_plantuml_src(uni, opts),
        "show_attrs with an int",
    )
    opts[Vertex]["show_attrs"] = ["(", "x"]
    raises(
        re.error,
        lambda: plantuml.render_to_plantuml_src(uni, opts),
        "show_attrs that is not a regex",
    )
    check(opts[Vertex]["show_attrs"] == ["(", "x"], "bad regex list left alone")
    opts[Vertex] = None
    raises(
        TypeError,
        lambda: plantuml.render_to_plantuml_src(uni, opts),
        "class table None",
    )

    # broken stereotype table: the vertex block is rendered first
    calls = []
    opts = named_options()
    opts[Vertex]["stereotype_skinparams"] = ["a", "b"]
    opts[Person] = {
        "user_render_func": lambda v, o: calls.append(v) or "Y\n",
    }
    raises(
        AttributeError,
        lambda: plantuml.render_to_plantuml_src(uni, opts),
        "stereotype table without items()",
    )
    check(calls == [], "first vertex (a plain Vertex) fails before any Person")

    # a property that raises while the field lines are produced
    class Explosive(Vertex):
        """shown attribute that cannot be read"""

        @property
        def boom(self):
            raise ZeroDivisionError("boom")

    euni = Universe()
    Explosive(attributes={"name": "e"}, universes=[euni])
    opts = named_options()
    opts[Vertex]["show_attrs"] = ["boom", "name"]
    opts[Vertex]["title_format"] = "$id"
    raises(
        ZeroDivisionError,
        lambda: plantuml.render_to_plantuml_src(euni, opts),
        "property raising in a field line",
    )

    # a user_render_func that raises is propagated unchanged
    class Stop(Exception):
        """private to this script"""

    def bad(_v, _o):
        raise Stop()

    opts = named_options()
    opts[Vertex]["user_render_func"] = bad
    raises(Stop, lambda: plantuml.render_to_plantuml_src(uni, opts), "urf raises")

    # falsy user objects as option values are used as they are
    class Falsy(str):
        """falsy-looking but formatted normally"""

        def __bool__(self):
            return False

        def __len__(self):
            return 0

    opts = named_options()
    opts[DirectedEdge] = {"v1side": Falsy("<"), "v2side": Falsy("")}
    opts[Vertex]["type"] = Falsy("object")
    src = compare_with_model(uni, opts, "falsy option values")
    check("T_a0 <-- P_p1\n" not in src and "T_a0 <-- T_p1\n" in src, "falsy")

    if FAILS:
        print(f"{len(FAILS)} check(s) failed")
        return 1
    print(f"equiv.py: all {COUNT[0]} checks passed")
    return 0


if __name__ == "__main__":
    sys.exit(main())
