#!/usr/bin/env python3
# -*- coding: utf-8 -*-

"""
Equivalence / property harness for edgegraph.output.plantuml.render_to_plantuml_src
(property C14: every member vertex is declared once, every link is drawn once,
oriented v1 -> v2 with the arrow ends configured for its class; an empty
universe gives None).

Uses only the public API.  Two layers of checks:

* property + documented behaviour  -> failures make the program exit 1;
* "pins": observations of the present behaviour that the statement does not
  spell out (line order inside the unordered sections, order and number of
  calls into user code, exact exception texts, in-place compilation of the
  ``show_attrs`` option ...).  They are folded into a digest that is printed
  at the end; with ``--pins`` a pin that differs from what the unchanged
  library does is fatal too.  Run with PYTHONHASHSEED=0 to compare the digest
  of two trees.

Run from the worktree root:

    PYTHONPATH=<worktree> python equiv.py [--pins] [--seed N] [--rounds N]
"""

import collections
import copy
import hashlib
import pickle
import random
import re
import sys

from edgegraph.structure import (
    Universe,
    Vertex,
    DirectedEdge,
    UnDirectedEdge,
    Link,
)
from edgegraph.output import plantuml

PINS_FATAL = "--pins" in sys.argv


def _argval(flag, default):
    if flag in sys.argv:
        return int(sys.argv[sys.argv.index(flag) + 1])
    return default


SEED = _argval("--seed", 20260930)
ROUNDS = _argval("--rounds", 400)

DUMP = (
    open(sys.argv[sys.argv.index("--dump") + 1], "w", encoding="utf-8")
    if "--dump" in sys.argv
    else None
)

FAILURES = []
PIN_FAILURES = []
DIGEST = hashlib.sha256()
CHECKS = [0, 0]


def check(cond, msg):
    CHECKS[0] += 1
    if not cond:
        FAILURES.append(msg)
        print("FAIL:", msg)


def pin(cond, msg):
    CHECKS[1] += 1
    DIGEST.update(repr((msg, bool(cond))).encode())
    if DUMP is not None:
        DUMP.write(repr((msg, bool(cond))) + "\n")
    if not cond:
        PIN_FAILURES.append(msg)
        print("PIN :", msg)


def note(*things):
    """Fold an observation into the digest (no pass / fail)."""
    text = re.sub(r"0x[0-9a-f]+", "ID", repr(things))
    text = re.sub(r"\d{20,}", "UID", text)
    text = re.sub(r"\d{4}-\d\d-\d\d \d\d:\d\d:\d\d", "NOW", text)
    DIGEST.update(text.encode())
    if DUMP is not None:
        DUMP.write(text + "\n")


# --------------------------------------------------------------------------
# class zoo
# --------------------------------------------------------------------------


class VA(Vertex):
    pass


class VB(VA):
    pass


class VC(VB):
    pass


class Mixin:
    pass


class VM(Mixin, VA):
    pass


class VD(VC, Mixin):
    pass


class DE1(DirectedEdge):
    pass


class DE2(DE1):
    pass


class UE1(UnDirectedEdge):
    pass


class SubUniverse(Universe):
    pass


VCLASSES = [Vertex, VA, VB, VC, VM, VD]
ECLASSES = [DirectedEdge, UnDirectedEdge, DE1, DE2, UE1]


# --------------------------------------------------------------------------
# the oracle: written from the statement and the documentation of
# PLANTUML_RENDER_OPTIONS, not from the implementation
# --------------------------------------------------------------------------


def nearest(cls, options):
    """Options of the nearest configured class in the hierarchy of cls."""
    for k in cls.__mro__:
        if k in options:
            return options[k]
    raise ValueError("nothing configured")


def o_pattern(show_attrs):
    if isinstance(show_attrs, re.Pattern):
        return show_attrs
    return re.compile("|".join("(" + s + ")" for s in list(show_attrs)) or "()")


def o_shown(v, vopts):
    if not isinstance(vopts["show_attrs"], (re.Pattern, list, tuple, str)):
        # a one-shot iterable: the oracle (working on its private copy of the
        # options) keeps what it produced
        vopts["show_attrs"] = list(vopts["show_attrs"])
    rgx = o_pattern(vopts["show_attrs"])
    return [a for a in dir(v) if rgx.match(a)]


def o_title(v, options):
    vopts = nearest(type(v), options)
    if vopts["title_format"] == "$id":
        return hex(id(v))
    shown = o_shown(v, vopts)
    return vopts["title_format"].format(**{a: getattr(v, a) for a in shown})


def o_decl(v, options):
    vopts = nearest(type(v), options)
    if "user_render_func" in vopts:
        return vopts["user_render_func"](v, options)
    out = "%s %s <<%s>> {\n" % (
        format(vopts["type"], ""),
        o_title(v, options),
        type(v).__name__,
    )
    for a in o_shown(v, vopts):
        out += "    {field} " + a + " = " + format(getattr(v, a), "") + "\n"
    return out + "}\n"


def o_relation(lnk, options):
    lopts = nearest(type(lnk), options)
    return "%s %s--%s %s\n" % (
        o_title(lnk.v1, options),
        format(lopts["v1side"], ""),
        format(lopts["v2side"], ""),
        o_title(lnk.v2, options),
    )


def o_stereo(v, options):
    vopts = nearest(type(v), options)
    return [
        "    %s<<%s>> %s\n" % (format(k, ""), type(v).__name__, format(val, ""))
        for k, val in vopts.get("stereotype_skinparams", {}).items()
    ]


def all_links(uni):
    """Every link object attached to a member vertex, each once."""
    seen = {}
    for v in uni.vertices:
        for lnk in v.links:
            seen.setdefault(id(lnk), lnk)
    return list(seen.values())


def internal_links(uni):
    members = set(map(id, uni.vertices))
    return [
        l
        for l in all_links(uni)
        if id(l.v1) in members and id(l.v2) in members
    ]


def o_sections(uni, options):
    """
    Expected text, as (head, stereo_lines, middle, (internal relation lines,
    relation lines of links leaving the universe), tail); the *_lines parts
    are unordered.  The statement is silent about links that leave the
    universe: they are tolerated, never required (that they are drawn today
    is a pin).  ``options`` must be a private copy:
    user_render_func of the oracle run may be called.
    """
    verts = uni.vertices
    head = "@startuml\n"
    if "skinparams" in options and len(options["skinparams"]):
        for k, val in options["skinparams"].items():
            head += "skinparam %s %s\n" % (format(k, ""), format(val, ""))
    stereo = []
    for v in verts:
        for line in o_stereo(v, options):
            if line not in stereo:
                stereo.append(line)
    middle = ""
    if stereo:
        head += "skinparam object {\n"
        middle += "}\n"
    middle += plantuml.PLANTUML_AUTOGEN_NOTE
    for v in verts:
        middle += o_decl(v, options)
    inside = set(map(id, internal_links(uni)))
    rel = [o_relation(l, options) for l in all_links(uni) if id(l) in inside]
    ext = [o_relation(l, options) for l in all_links(uni) if id(l) not in inside]
    return head, stereo, middle, (rel, ext), "@enduml\n"


def compare_with_oracle(src, sections, what):
    head, stereo, middle, (rel, ext), tail = sections
    ok = isinstance(src, str)
    check(ok, f"{what}: result is not a str: {type(src)}")
    if not ok:
        return False
    pos = 0
    good = True

    def take(n):
        nonlocal pos
        piece = src[pos : pos + n]
        pos += n
        return piece

    good &= take(len(head)) == head
    got_stereo = take(sum(map(len, stereo))).splitlines(keepends=True)
    good &= sorted(got_stereo) == sorted(stereo)
    good &= take(len(middle)) == middle
    good &= src.endswith(tail)
    got_rel = collections.Counter(
        src[pos : len(src) - len(tail)].splitlines(keepends=True)
    )
    want_rel = collections.Counter(rel)
    may_rel = collections.Counter(ext)
    # every internal link exactly once; anything else must be a link that
    # really exists (one that leaves the universe), at most once each
    good &= not (want_rel - got_rel)
    good &= not ((got_rel - want_rel) - may_rel)
    pin(got_rel == want_rel + may_rel, f"{what}: links leaving the universe drawn")
    check(good, f"{what}: text differs from the oracle\n--- got\n{src}\n--- want\n"
          f"{head}{''.join(stereo)}{middle}{''.join(rel)}[{''.join(ext)}]{tail}")
    return good


def reference_order(uni, options):
    """
    PIN: the order in which the unordered sections come out today: a set that
    is or-ed with the set of each member's links (resp. skinparam lines), in
    member order.
    """
    lset = set()
    sset = set()
    for v in uni.vertices:
        lset |= set(v.links)
        sset |= set(line[4:] for line in o_stereo(v, options))
    return list(lset), ["    " + s for s in sset]


def graph_snapshot(uni):
    """Observable state of the graph (public API only)."""
    out = [type(uni).__name__, [id(v) for v in uni.vertices]]
    todo = list(uni.vertices)
    for v in todo:
        out.append(
            (
                id(v),
                v.uid,
                [id(l) for l in v.links],
                [id(u) for u in v.universes],
                sorted(k for k in vars(v) if not k.startswith("_")),
            )
        )
    for l in all_links(uni):
        out.append((id(l), l.uid, [id(x) for x in l.vertices]))
    return out


def options_snapshot(options):
    """Normalised content of an options dict (compiled patterns folded)."""
    out = []
    for k, val in options.items():
        if isinstance(val, dict):
            inner = []
            for k2, v2 in val.items():
                if isinstance(v2, re.Pattern):
                    inner.append((k2, "rgx", v2.pattern))
                elif isinstance(v2, dict):
                    inner.append((k2, sorted(map(repr, v2.items()))))
                else:
                    inner.append((k2, repr(v2)))
            out.append((getattr(k, "__name__", k), inner))
        else:
            out.append((getattr(k, "__name__", k), repr(val)))
    return out


def named_options(**extra):
    """Options with readable, address-free titles."""
    opts = {
        "skinparams": {"dpi": "300"},
        Vertex: {
            "type": "object",
            "stereotype_skinparams": {"BackgroundColor": "White"},
            "show_attrs": ["^name$", "^weight$"],
            "title_format": "V_{name}",
        },
        DirectedEdge: {"v1side": "", "v2side": ">"},
        UnDirectedEdge: {"v1side": "", "v2side": ""},
    }
    opts.update(extra)
    return opts


def render(uni, options):
    return plantuml.render_to_plantuml_src(uni, options)


def full_check(uni, options, what, pins=True, oracle_opts=None):
    """Render, compare with the oracle, check purity; returns the text."""
    if oracle_opts is None:
        oracle_opts = copy.deepcopy(options)
    sections = o_sections(uni, oracle_opts)
    before = graph_snapshot(uni)
    src = render(uni, options)
    after = graph_snapshot(uni)
    check(before == after, f"{what}: rendering changed the graph")
    good = compare_with_oracle(src, sections, what)
    if good and pins:
        lorder, sorder = reference_order(uni, oracle_opts)
        head, stereo, middle, _rels, tail = sections
        want = (
            head
            + "".join(sorder)
            + middle
            + "".join(o_relation(l, oracle_opts) for l in lorder)
            + tail
        )
        pin(src == want, f"{what}: order of the unordered sections")
    # rendering twice with the (possibly normalised) options is stable
    again = render(uni, options)
    check(
        isinstance(again, str) and sorted(again.splitlines()) == sorted(src.splitlines()),
        f"{what}: second render with the same options differs",
    )
    return src


# --------------------------------------------------------------------------
# scripted corner cases
# --------------------------------------------------------------------------


def mk(cls, name, uni=None, **attrs):
    attrs["name"] = name
    v = cls(attributes=attrs)
    if uni is not None:
        uni.add_vertex(v)
    return v


def expect_raises(exc, fn, what):
    try:
        fn()
    except exc as e:  # noqa
        return e
    except BaseException as e:  # pylint: disable=broad-except
        check(False, f"{what}: raised {type(e).__name__}({e}) instead of {exc}")
        return None
    check(False, f"{what}: did not raise {exc}")
    return None


def scripted():
    # ---- empty universes -------------------------------------------------
    check(render(Universe(), named_options()) is None, "empty universe -> None")
    check(render(SubUniverse(), {}) is None, "empty universe, empty options -> None")
    check(
        render(Universe(), plantuml.PLANTUML_RENDER_OPTIONS) is None,
        "empty universe, default options -> None",
    )
    u = Universe()
    a = mk(Vertex, "a", u)
    u.remove_vertex(a)
    check(render(u, named_options()) is None, "emptied universe -> None")

    # ---- single vertex, no links ----------------------------------------
    u = Universe()
    a = mk(Vertex, "a", u)
    src = full_check(u, named_options(), "single vertex")
    check(src.count("object V_a <<Vertex>> {\n") == 1, "single vertex declared once")
    check(not re.search(r"^\S+ \S*--\S* \S+$", src, re.M),
          "single vertex: no relation line")
    check(src.startswith("@startuml\n") and src.endswith("@enduml\n"), "delimiters")

    # ---- default arrows, orientation -------------------------------------
    u = Universe()
    a, b, c = (mk(Vertex, n, u) for n in "abc")
    DirectedEdge(a, b)
    UnDirectedEdge(c, b)
    DirectedEdge(c, a)
    src = full_check(u, named_options(), "three vertices")
    rels = [l for l in src.splitlines() if re.match(r"^V_\w+ \S*--\S* V_\w+$", l)]
    check(
        sorted(rels) == sorted(["V_a --> V_b", "V_c -- V_b", "V_c --> V_a"]),
        f"default arrows / orientation: {rels}",
    )
    for n in "abc":
        check(src.count(f"object V_{n} <<Vertex>> {{\n") == 1, f"{n} declared once")
    check("V_b --> V_a" not in src and "V_b -- V_c" not in src, "no reversed line")
    check("V_a --> V_c" not in src and "V_b --> V_c" not in src, "no invented line")

    # ---- self loop, parallel links, both directions ----------------------
    u = Universe()
    a, b = mk(VA, "a", u), mk(VB, "b", u)
    DirectedEdge(a, a)
    UnDirectedEdge(b, b)
    DirectedEdge(a, b)
    DirectedEdge(a, b)
    DirectedEdge(b, a)
    UnDirectedEdge(a, b)
    UnDirectedEdge(b, a)
    src = full_check(u, named_options(), "loops and parallels")
    cnt = collections.Counter(
        l for l in src.splitlines() if re.match(r"^V_\w+ \S*--\S* V_\w+$", l)
    )
    check(
        cnt
        == collections.Counter(
            {
                "V_a --> V_a": 1,
                "V_b -- V_b": 1,
                "V_a --> V_b": 2,
                "V_b --> V_a": 1,
                "V_a -- V_b": 1,
                "V_b -- V_a": 1,
            }
        ),
        f"self loops / parallel links: {cnt}",
    )

    # ---- class resolution: vertices and links ----------------------------
    u = SubUniverse()
    verts = [mk(c, c.__name__.lower(), u) for c in VCLASSES]
    opts = named_options()
    opts[VB] = {
        "type": "class",
        "show_attrs": ("^name$",),
        "title_format": "B_{name}",
        "stereotype_skinparams": {"FontColor": "Red", "BackgroundColor": "White"},
    }
    opts[Mixin] = {
        "type": "entity",
        "show_attrs": "n",  # a str: one regex per character
        "title_format": "M_{name}",
    }
    opts[DE1] = {"v1side": "<", "v2side": "*"}
    opts[UE1] = {"v1side": "o", "v2side": "o"}
    ecl = [DirectedEdge, DE1, DE2, UnDirectedEdge, UE1]
    for i, ec in enumerate(ecl):
        ec(verts[i], verts[i + 1])
    DE2(verts[5], verts[0])
    src = full_check(u, opts, "class resolution")
    for want in [
        "object V_vertex <<Vertex>> {\n",
        "object V_va <<VA>> {\n",
        "class B_vb <<VB>> {\n",
        "class B_vc <<VC>> {\n",
        "entity M_vm <<VM>> {\n",  # Mixin precedes VA in the MRO of VM
        "class B_vd <<VD>> {\n",  # VC, VB precede Mixin in the MRO of VD
        "V_vertex --> V_va\n",
        "V_va <--* B_vb\n",
        "B_vb <--* B_vc\n",
        "B_vc -- M_vm\n",
        "M_vm o--o B_vd\n",
        "B_vd <--* V_vertex\n",
        "    FontColor<<VB>> Red\n",
        "    FontColor<<VC>> Red\n",
        "    FontColor<<VD>> Red\n",
        "    BackgroundColor<<VA>> White\n",
        "skinparam dpi 300\n",
        "skinparam object {\n",
    ]:
        check(src.count(want) == 1, f"class resolution: {want!r} x{src.count(want)}")
    check("<<VM>> White" not in src, "Mixin options have no stereotype skinparams")
    pin(
        isinstance(opts[VB]["show_attrs"], re.Pattern)
        and opts[VB]["show_attrs"].pattern == "(^name$)"
        and opts[Mixin]["show_attrs"].pattern == "(n)"
        and opts[Vertex]["show_attrs"].pattern == "(^name$)|(^weight$)",
        "show_attrs compiled in place into one alternation",
    )
    note(options_snapshot(opts))

    # ---- options variants ------------------------------------------------
    u = Universe()
    a, b = mk(Vertex, "a", u, weight=3), mk(VA, "b", u, weight=None)
    DirectedEdge(a, b)
    for label, mod in [
        ("no skinparams", lambda o: o.pop("skinparams")),
        ("empty skinparams", lambda o: o.__setitem__("skinparams", {})),
        ("many skinparams", lambda o: o.__setitem__(
            "skinparams", {"dpi": 96, "shadowing": False, "x": None})),
        ("no stereotype", lambda o: o[Vertex].pop("stereotype_skinparams")),
        ("empty stereotype", lambda o: o[Vertex].__setitem__(
            "stereotype_skinparams", {})),
        ("empty show_attrs", lambda o: o[Vertex].update(
            show_attrs=[], title_format="$id")),
        ("generator show_attrs", lambda o: o[Vertex].__setitem__(
            "show_attrs", (s for s in ["^name$", "^we"]))),
        ("compiled show_attrs", lambda o: o[Vertex].__setitem__(
            "show_attrs", re.compile("name|weight"))),
        ("id titles", lambda o: o[Vertex].__setitem__("title_format", "$id")),
        ("constant title", lambda o: o[Vertex].__setitem__("title_format", "T")),
        ("odd arrows", lambda o: o.__setitem__(
            DirectedEdge, {"v1side": "<|", "v2side": "o", "extra": 1})),
        ("non-str option values", lambda o: (
            o[Vertex].__setitem__("type", 7),
            o.__setitem__(DirectedEdge, {"v1side": 1, "v2side": None}))),
        ("object configured", lambda o: (
            o.__setitem__(object, o.pop(Vertex)))),
    ]:
        opts = named_options()
        mod(opts)
        oracle_opts = named_options()
        mod(oracle_opts)
        had_pattern = isinstance(
            opts.get(Vertex, opts.get(object))["show_attrs"], re.Pattern
        )
        pat_before = opts.get(Vertex, opts.get(object))["show_attrs"]
        src = full_check(u, opts, label, oracle_opts=oracle_opts)
        vo = opts.get(Vertex, opts.get(object))
        pin(isinstance(vo["show_attrs"], re.Pattern), f"{label}: compiled after")
        if had_pattern:
            pin(vo["show_attrs"] is pat_before, f"{label}: given pattern is kept")
        note(label, options_snapshot(opts))
        if label != "empty show_attrs":  # that one lists uids, cache statistics ...
            note(sorted(re.sub(r"0x[0-9a-f]+", "ID", src).splitlines()))

    # ---- default module options (id titles, every attribute shown) -------
    u = Universe()
    a, b, c = mk(Vertex, "a", u), mk(VC, "b", u), mk(SubUniverse, "c", u)
    mk(Vertex, "inner", c)  # a universe is a vertex; it has its own member
    DirectedEdge(a, b)
    UnDirectedEdge(b, c)
    DirectedEdge(c, c)
    defaults = copy.deepcopy(plantuml.PLANTUML_RENDER_OPTIONS)
    src = full_check(u, defaults, "default options")
    decl = re.findall(r"^object (0x[0-9a-f]+) <<(\w+)>> \{$", src, re.M)
    check(
        decl == [(hex(id(a)), "Vertex"), (hex(id(b)), "VC"), (hex(id(c)), "SubUniverse")],
        f"default options: declarations {decl}",
    )
    rel = re.findall(r"^(0x[0-9a-f]+) (\S*)--(\S*) (0x[0-9a-f]+)$", src, re.M)
    check(
        sorted(rel)
        == sorted(
            [
                (hex(id(a)), "", ">", hex(id(b))),
                (hex(id(b)), "", "", hex(id(c))),
                (hex(id(c)), "", ">", hex(id(c))),
            ]
        ),
        f"default options: relations {rel}",
    )
    check("    {field} name = a\n" in src, "default options: attributes listed")
    # the module-level defaults themselves
    u2 = Universe()
    mk(Vertex, "z", u2)
    full_check(u2, plantuml.PLANTUML_RENDER_OPTIONS, "module defaults")
    full_check(u2, plantuml.PLANTUML_RENDER_OPTIONS, "module defaults again")

    # ---- a vertex in several universes; links leaving the universe -------
    u1, u2 = Universe(), Universe()
    a, b, c = mk(Vertex, "a", u1), mk(Vertex, "b", u1), mk(Vertex, "c", u2)
    u2.add_vertex(b)
    DirectedEdge(a, b)
    DirectedEdge(b, c)
    s1 = render(u1, named_options())
    s2 = render(u2, named_options())
    check(s1.count("V_a --> V_b\n") == 1, "two universes: internal link of u1")
    check(s2.count("V_b --> V_c\n") == 1, "two universes: internal link of u2")
    check(s1.count("object V_a ") == 1 and s1.count("object V_b ") == 1
          and "object V_c " not in s1, "two universes: members of u1")
    check(s2.count("object V_b ") == 1 and s2.count("object V_c ") == 1
          and "object V_a " not in s2, "two universes: members of u2")
    full_check(u1, named_options(), "two universes u1 (links of members)")
    full_check(u2, named_options(), "two universes u2 (links of members)")

    # ---- pickling round trip ---------------------------------------------
    u = Universe()
    vs = [mk(VCLASSES[i % len(VCLASSES)], f"p{i}", u) for i in range(7)]
    for i in range(7):
        ECLASSES[i % len(ECLASSES)](vs[i], vs[(i * 3 + 1) % 7])
    before = full_check(u, named_options(), "pickle: before")
    clone = pickle.loads(pickle.dumps(u))
    after = full_check(clone, named_options(), "pickle: after")
    check(sorted(before.splitlines()) == sorted(after.splitlines()),
          "pickle round trip renders the same lines")
    ocopy = named_options()
    render(u, ocopy)
    o2 = pickle.loads(pickle.dumps(ocopy))  # options stay picklable
    check(sorted(render(u, o2).splitlines()) == sorted(before.splitlines()),
          "pickled options render the same")

    # ---- errors ----------------------------------------------------------
    u = Universe()
    a, b = mk(Vertex, "a", u), mk(VA, "b", u)
    e1 = DirectedEdge(a, b)
    snap = graph_snapshot(u)

    opts = named_options()
    del opts[Vertex]
    keep = options_snapshot(opts)
    err = expect_raises(ValueError, lambda: render(u, opts), "no vertex class")
    check(options_snapshot(opts) == keep, "no vertex class: options untouched")
    note("no vertex class", str(err))

    opts = named_options()
    del opts[DirectedEdge]
    err = expect_raises(ValueError, lambda: render(u, opts), "no link class")
    note("no link class", str(err))
    pin(isinstance(opts[Vertex]["show_attrs"], re.Pattern),
        "no link class: vertex options were normalised before the failure")

    opts = named_options()
    opts[VA] = {"title_format": "$id", "show_attrs": ["name"]}
    err = expect_raises(KeyError, lambda: render(u, opts), "missing type")
    pin(err is not None and err.args == ("type",), "missing type: KeyError('type')")
    pin(not isinstance(opts[Vertex]["show_attrs"], str)
        and isinstance(opts[Vertex]["show_attrs"], re.Pattern)
        and isinstance(opts[VA]["show_attrs"], re.Pattern),
        "missing type: both normalised")

    opts = named_options()
    opts[VA] = {"title_format": "$id", "type": "object"}
    err = expect_raises(KeyError, lambda: render(u, opts), "missing show_attrs")
    pin(err is not None and err.args == ("show_attrs",), "missing show_attrs")

    opts = named_options()
    opts[VA] = {"show_attrs": ["name"], "type": "object"}
    err = expect_raises(KeyError, lambda: render(u, opts), "missing title_format")
    pin(err is not None and err.args == ("title_format",), "missing title_format")

    opts = named_options()
    opts[Vertex]["title_format"] = "V_{nosuch}"
    err = expect_raises(KeyError, lambda: render(u, opts), "title uses hidden attr")
    pin(err is not None and err.args == ("nosuch",), "title uses hidden attr")

    opts = named_options()
    opts[DirectedEdge] = {"v2side": ">"}
    err = expect_raises(KeyError, lambda: render(u, opts), "missing v1side")
    pin(err is not None and err.args == ("v1side",), "missing v1side")
    opts[DirectedEdge] = {"v1side": ">"}
    err = expect_raises(KeyError, lambda: render(u, opts), "missing v2side")
    pin(err is not None and err.args == ("v2side",), "missing v2side")
    opts[DirectedEdge] = {}
    opts[Vertex].pop("show_attrs")
    opts[VA] = {"show_attrs": ["name"], "type": "object", "title_format": "$id"}
    # declaration of a fails first
    err = expect_raises(KeyError, lambda: render(u, opts), "several keys missing")
    pin(err is not None and err.args == ("show_attrs",), "several keys missing")

    opts = named_options()
    opts[Vertex]["show_attrs"] = ["(unbalanced"]
    err = expect_raises(re.error, lambda: render(u, opts), "bad regex")
    pin(opts[Vertex]["show_attrs"] == ["(unbalanced"], "bad regex: option kept")

    opts = named_options()
    opts[Vertex]["show_attrs"] = ["name", 3]
    err = expect_raises(TypeError, lambda: render(u, opts), "non-str regex")
    pin(opts[Vertex]["show_attrs"] == ["name", 3], "non-str regex: option kept")
    note("non-str regex", str(err))

    check(graph_snapshot(u) == snap, "errors left the graph alone")

    # a link with an open end
    u = Universe()
    a = mk(Vertex, "a", u)
    DirectedEdge(a, None)
    opts = named_options()
    err = expect_raises(ValueError, lambda: render(u, opts), "open-ended link")
    note("open-ended link", str(err))
    opts[type(None)] = {"show_attrs": ["^$"], "title_format": "NOTHING"}
    src = render(u, opts)
    pin(src.count("V_a --> NOTHING\n") == 1, "open-ended link with NoneType configured")
    u = Universe()
    a = mk(Vertex, "a", u)
    DirectedEdge(None, a)
    src = render(u, opts)
    pin(src.count("NOTHING --> V_a\n") == 1, "open-started link")

    # a bare Link has no v1 / v2
    u = Universe()
    a, b = mk(Vertex, "a", u), mk(Vertex, "b", u)
    Link(vertices=[a, b], _force_creation=True)
    opts = named_options()
    opts[Link] = {"v1side": "", "v2side": ""}
    err = expect_raises(AttributeError, lambda: render(u, opts), "bare Link")
    note("bare Link", str(err))
    del opts[Link]
    err = expect_raises(ValueError, lambda: render(u, opts), "bare Link unconfigured")
    note("bare Link unconfigured", str(err))

    # ---- user_render_func ------------------------------------------------
    u = Universe()
    vs = [mk(VCLASSES[i % 3], f"u{i}", u) for i in range(6)]
    for i in range(5):
        DirectedEdge(vs[i], vs[i + 1])
    calls = []

    def urf(vertex, options):
        calls.append((vertex, options))
        return f"URF {vertex.name}\n"

    opts = named_options()
    opts[VA] = dict(opts[Vertex], user_render_func=urf)
    src = render(u, opts)
    want_calls = [v for v in vs if isinstance(v, VA)]
    check([c[0] for c in calls] == want_calls, "user_render_func: one call per vertex, in order")
    check(all(c[1] is opts for c in calls), "user_render_func: gets the options dict")
    for v in vs:
        if isinstance(v, VA):
            check(src.count(f"URF {v.name}\n") == 1, "user_render_func output used once")
            check(f"object V_{v.name} " not in src, "user_render_func replaces declaration")
        else:
            check(src.count(f"object V_{v.name} <<Vertex>>") == 1, "others declared")
    for i in range(5):
        check(src.count(f"V_u{i} --> V_u{i+1}\n") == 1, "user_render_func: links still drawn")
    # stereotype skinparams still come from the options of that class
    check("    BackgroundColor<<VA>> White\n" in src, "user_render_func: skinparams kept")

    # raising callback: propagates, called for the vertices before it only
    class Boom(Exception):
        pass

    calls.clear()
    boom = Boom("x")

    def urf_raise(vertex, options):
        calls.append(vertex)
        if len(calls) == 3:
            raise boom
        return "ok\n"

    opts = named_options()
    opts[Vertex]["user_render_func"] = urf_raise
    snap = graph_snapshot(u)
    err = expect_raises(Boom, lambda: render(u, opts), "raising user_render_func")
    check(err is boom, "raising user_render_func: same exception object")
    check(calls == vs[:3], "raising user_render_func: calls before the failure")
    check(graph_snapshot(u) == snap, "raising user_render_func: graph unchanged")

    # StopIteration must not be swallowed or converted
    calls.clear()

    def urf_stop(vertex, options):
        raise StopIteration("stop")

    opts[Vertex]["user_render_func"] = urf_stop
    err = expect_raises(StopIteration, lambda: render(u, opts), "StopIteration from callback")

    # callback returning something that is not a str
    opts[Vertex]["user_render_func"] = lambda v, o: None
    err = expect_raises(TypeError, lambda: render(u, opts), "callback returns None")
    note("callback returns None", str(err))

    # callback that edits the graph while it is being rendered
    u = Universe()
    vs = [mk(Vertex, f"m{i}", u) for i in range(4)]
    DirectedEdge(vs[0], vs[1])

    def urf_mutate(vertex, options):
        if vertex is vs[1]:
            DirectedEdge(vs[1], vs[2])  # seen: links are read after the call
            DirectedEdge(vs[0], vs[3])  # attached to an already visited vertex and
            # to one still to come
            mk(Vertex, "late", u)  # not a member of the snapshot being rendered
        return f"X {vertex.name}\n"

    opts = named_options()
    opts[Vertex]["user_render_func"] = urf_mutate
    src = render(u, opts)
    rel = sorted(l for l in src.splitlines() if "--" in l and l.startswith("V_"))
    note("mutating callback", rel, [l for l in src.splitlines() if l.startswith("X ")])
    pin(rel == ["V_m0 --> V_m1", "V_m0 --> V_m3", "V_m1 --> V_m2"],
        f"mutating callback: {rel}")
    pin("X late" not in src, "mutating callback: late vertex not declared")

    # ---- order and number of calls into user code ------------------------
    log = []

    class Loud:
        def __init__(self, tag):
            self.tag = tag

        def __format__(self, spec):
            log.append(("fmt", self.tag, spec))
            return f"<{self.tag}>"

        def __str__(self):
            log.append(("str", self.tag))
            return f"<{self.tag}>"

        def __repr__(self):
            return f"Loud({self.tag})"

    class LoudVertex(Vertex):
        def __dir__(self):
            log.append(("dir", self.name))
            return super().__dir__()

        def __getitem__(self, key):
            log.append(("get", self.name, key))
            return super().__getitem__(key)

    class LoudUniverse(Universe):
        @property
        def vertices(self):
            log.append(("vertices",))
            return super().vertices

    class LoudEdge(DirectedEdge):
        @property
        def v1(self):
            log.append(("v1", self.tag))
            return super().v1

        @property
        def v2(self):
            log.append(("v2", self.tag))
            return super().v2

    u = LoudUniverse()
    a = mk(LoudVertex, "a", u, payload=Loud("pa"))
    b = mk(LoudVertex, "b", u, payload=Loud("pb"))
    LoudEdge(a, b, attributes={"tag": "ab"})
    opts = {
        "skinparams": {Loud("spk"): Loud("spv")},
        Vertex: {
            "type": Loud("type"),
            "stereotype_skinparams": {Loud("stk"): Loud("stv")},
            "show_attrs": ["^name$", "^payload$"],
            "title_format": "L_{name}",
        },
        DirectedEdge: {"v1side": Loud("s1"), "v2side": Loud("s2")},
    }
    log.clear()
    src = render(u, opts)
    check("L_a <s1>--<s2> L_b\n" in src, "loud: relation line")
    check("<type> L_a <<LoudVertex>> {\n" in src, "loud: declaration")
    check("    {field} payload = <pa>\n" in src, "loud: attribute line")
    check("skinparam <spk> <spv>\n" in src, "loud: skinparam")
    check("    <stk><<LoudVertex>> <stv>\n" in src, "loud: stereotype skinparam")
    note("loud log", log)
    want_log = [
        ("vertices",),
        ("vertices",),
        # a: declaration
        ("dir", "a"),
        ("dir", "a"),
        ("get", "a", "name"),
        ("get", "a", "payload"),
        ("fmt", "type", ""),
        ("get", "a", "name"),
        ("get", "a", "payload"),
        ("fmt", "pa", ""),
        ("fmt", "stk", ""),
        ("fmt", "stv", ""),
        # b
        ("dir", "b"),
        ("dir", "b"),
        ("get", "b", "name"),
        ("get", "b", "payload"),
        ("fmt", "type", ""),
        ("get", "b", "name"),
        ("get", "b", "payload"),
        ("fmt", "pb", ""),
        ("fmt", "stk", ""),
        ("fmt", "stv", ""),
        # diagram-wide skinparams
        ("fmt", "spk", ""),
        ("fmt", "spv", ""),
        # the link
        ("v1", "ab"),
        ("v2", "ab"),
        ("dir", "a"),
        ("get", "a", "name"),
        ("get", "a", "payload"),
        ("dir", "b"),
        ("get", "b", "name"),
        ("get", "b", "payload"),
        ("fmt", "s1", ""),
        ("fmt", "s2", ""),
    ]
    pin(log == want_log, "loud: order and number of calls into user code")
    if log != want_log:
        for i, (g, w) in enumerate(zip(log, want_log)):
            if g != w:
                print("   first difference at", i, g, w)
                break
        print("   len", len(log), len(want_log))

    # exceptions out of user code, at each position, incl. StopIteration
    class Trip(Exception):
        pass

    for exc_type in (Trip, StopIteration, KeyError):
        for position in range(len(want_log)):
            counter = [0]
            fired = []

            def hook(counter=counter, fired=fired, position=position, exc_type=exc_type):
                if counter[0] == position:
                    counter[0] += 1
                    fired.append(exc_type("trip"))
                    raise fired[0]
                counter[0] += 1

            class TLoud(Loud):
                def __format__(self, spec):
                    hook()
                    return f"<{self.tag}>"

            class TVertex(Vertex):
                def __dir__(self):
                    hook()
                    return super().__dir__()

                def __getitem__(self, key):
                    hook()
                    return super().__getitem__(key)

            class TUniverse(Universe):
                @property
                def vertices(self):
                    hook()
                    return super().vertices

            class TEdge(DirectedEdge):
                @property
                def v1(self):
                    hook()
                    return super().v1

                @property
                def v2(self):
                    hook()
                    return super().v2

            u = TUniverse()
            counter[0] = -10**6  # construction also reads .vertices
            a = mk(TVertex, "a", u, payload=TLoud("pa"))
            b = mk(TVertex, "b", u, payload=TLoud("pb"))
            TEdge(a, b, attributes={"tag": "ab"})
            opts = {
                "skinparams": {TLoud("spk"): TLoud("spv")},
                Vertex: {
                    "type": TLoud("type"),
                    "stereotype_skinparams": {TLoud("stk"): TLoud("stv")},
                    "show_attrs": ["^name$", "^payload$"],
                    "title_format": "L_{name}",
                },
                DirectedEdge: {"v1side": TLoud("s1"), "v2side": TLoud("s2")},
            }
            counter[0] = 0
            try:
                render(u, opts)
                outcome = ("returned", counter[0])
            except BaseException as e:  # pylint: disable=broad-except
                outcome = (type(e).__name__, e is (fired[0] if fired else None), counter[0])
            pin(
                outcome == (exc_type.__name__, True, position + 1),
                f"trip {exc_type.__name__} at {position}: {outcome}",
            )

    # ---- the same vertex / link reachable several ways -------------------
    u = Universe()
    hub = mk(Vertex, "hub", u)
    spokes = [mk(VA, f"s{i}", u) for i in range(12)]
    for s in spokes:
        DirectedEdge(hub, s)
        UnDirectedEdge(s, hub)
    src = full_check(u, named_options(), "hub")
    for i in range(12):
        check(src.count(f"V_hub --> V_s{i}\n") == 1, "hub: out link once")
        check(src.count(f"V_s{i} -- V_hub\n") == 1, "hub: back link once")

    # ---- universe given its vertices through the constructor -------------
    vs = [mk(Vertex, f"c{i}") for i in range(5)]
    u = Universe(vertices=vs)
    UnDirectedEdge(vs[0], vs[4])
    full_check(u, named_options(), "constructor vertices")


# --------------------------------------------------------------------------
# random differential part
# --------------------------------------------------------------------------


def random_options(rng):
    opts = {}
    if rng.random() < 0.7:
        opts["skinparams"] = {
            f"sp{i}": rng.choice(["1", 2, "Red", None]) for i in range(rng.randrange(0, 4))
        }
    configured_v = [Vertex] + [c for c in VCLASSES[1:] + [Mixin] if rng.random() < 0.35]
    if rng.random() < 0.1:
        configured_v[0] = object
    for c in configured_v:
        o = {
            "type": rng.choice(["object", "class", "entity", "map"]),
            "title_format": rng.choice(
                ["$id", "V_{name}", "{name}_" + c.__name__, "T{name}{weight}"]
            ),
        }
        sa = rng.choice(
            [
                ["^name$", "^weight$"],
                ("^weight$", "^name$", "^uid$"),
                ["^(name|weight)$"],
                re.compile("^(name|weight|universes)$"),
                ["name", "weight"],
            ]
        )
        o["show_attrs"] = sa
        if rng.random() < 0.7:
            o["stereotype_skinparams"] = {
                rng.choice(["BackgroundColor", "FontColor", "BorderColor"]): rng.choice(
                    ["White", "Black", c.__name__]
                )
                for _ in range(rng.randrange(0, 3))
            }
        opts[c] = o
    ends = ["", ">", "<", "*", "o", "|>", "<|", "#"]
    configured_e = [DirectedEdge, UnDirectedEdge] + [
        c for c in ECLASSES[2:] if rng.random() < 0.4
    ]
    for c in configured_e:
        opts[c] = {"v1side": rng.choice(ends), "v2side": rng.choice(ends)}
    if rng.random() < 0.5:
        opts[DirectedEdge] = {"v1side": "", "v2side": ">"}
        opts[UnDirectedEdge] = {"v1side": "", "v2side": ""}
    return opts


def random_graph(rng, internal_only):
    ucls = rng.choice([Universe, SubUniverse])
    u = ucls()
    n = rng.choice([1, 1, 2, 3, 4, 5, 8, 13, 25])
    verts = []
    for i in range(n):
        v = rng.choice(VCLASSES)(
            attributes={"name": f"n{i}", "weight": rng.choice([0, 1.5, "w", None])}
        )
        verts.append(v)
    outside = []
    if not internal_only:
        outside = [mk(rng.choice(VCLASSES), f"x{i}", weight=1) for i in range(3)]
    if rng.random() < 0.5:
        for v in verts:
            u.add_vertex(v)
    else:
        for v in verts:
            v.add_to_universe(u)
    m = rng.randrange(0, 3 * n + 1)
    pool = verts + outside
    for _ in range(m):
        x = rng.choice(verts)
        y = rng.choice(pool)
        if rng.random() < 0.5:
            x, y = y, x
        rng.choice(ECLASSES)(x, y)
    # a little history: unlink / relink
    for _ in range(rng.randrange(0, 3)):
        links = all_links(u)
        if links:
            l = rng.choice(links)
            if rng.random() < 0.5:
                l.v2 = rng.choice(verts)
            else:
                for end in list(l.vertices):
                    l.unlink_from(end)
    # drop links that lost an end (they would have no v1/v2)
    for l in all_links(u):
        if len(l.vertices) != 2:
            for v in list(l.vertices):
                l.unlink_from(v)
    return u


def random_part():
    rng = random.Random(SEED)
    for caching in (False, True):
        Vertex.NEIGHBOR_CACHING = caching
        try:
            for rnd in range(ROUNDS):
                internal_only = rng.random() < 0.8
                u = random_graph(rng, internal_only)
                opts = random_options(rng)
                state = random.getstate()
                src = full_check(u, opts, f"random[{caching},{rnd}]")
                check(random.getstate() == state, "rendering consumed random numbers")
                if internal_only:
                    check(
                        len(internal_links(u)) == len(all_links(u)),
                        "generator: internal only",
                    )
                # statement-level reading for the internal links
                ocopy = copy.deepcopy(opts)
                titles = [o_title(v, ocopy) for v in u.vertices]
                lines = src.splitlines()
                body = lines[lines.index("end note") + 1 : -1]
                if len(set(titles)) == len(titles) and all(
                    re.fullmatch(r"\w+", t) for t in titles
                ):
                    for v, t in zip(u.vertices, titles):
                        vo = nearest(type(v), ocopy)
                        hdr = f"{vo['type']} {t} <<{type(v).__name__}>> {{"
                        check(body.count(hdr) == 1, f"random: {hdr!r} declared once")
                    got = collections.Counter(
                        l for l in body
                        if re.fullmatch(r"\w+ \S*--\S* \w+", l)
                    )
                    want = collections.Counter()
                    for l in all_links(u):
                        lo = nearest(type(l), ocopy)
                        want[
                            f"{o_title(l.v1, ocopy)} {lo['v1side']}--{lo['v2side']} "
                            f"{o_title(l.v2, ocopy)}"
                        ] += 1
                    check(got == want, f"random[{caching},{rnd}]: relation multiset")
                note(
                    sorted(
                        re.sub(r"0x[0-9a-f]+", "ID", line) for line in lines
                    )
                )
        finally:
            Vertex.NEIGHBOR_CACHING = False


def main():
    scripted()
    random_part()
    print(
        f"checks: {CHECKS[0]} property, {CHECKS[1]} pins; "
        f"failures: {len(FAILURES)} property, {len(PIN_FAILURES)} pins"
    )
    print("digest:", DIGEST.hexdigest())
    if FAILURES or (PINS_FATAL and PIN_FAILURES):
        return 1
    return 0


if __name__ == "__main__":
    sys.exit(main())
