#!/usr/bin/env python3
# -*- coding: utf-8 -*-
"""
Equivalence / conformance program for property C05:

    "Neighbor caching is transparent: cached answers always equal recomputed
    ones."

Only the public API of edgegraph is used.  The program has four parts:

  A. scripted corner cases (each checked against an independent oracle of
     ``helpers.neighbors`` written from its documentation, and against the same
     query made with caching disabled);
  B. a seeded random differential part: histories that interleave every public
     mutator with queries, flag switches and pickle / deepcopy / nrpickler
     round trips (the history continues on the copy);
  C. un-pickling into a fresh interpreter (a child process running this same
     file) followed by further mutations and queries there;
  E. probes into neighbors() itself: which attributes of an edge it reads and
     in which order, how often the option arguments are compared / hashed, and
     how deep the stack gets (all pinned, see D);
  D. "pinned" observations: numbers that are visible through the public API
     (``Vertex.total_cache_stats()``, how often a filter object is hashed or
     called) and that any behaviour-preserving rewrite has to reproduce.  They
     were recorded on the unchanged code (``--record`` prints them).

Exit status 0 = everything as demanded; 1 = at least one discrepancy.

Run as:  PYTHONPATH=<worktree> python equiv.py
"""

from __future__ import annotations

import copy
import hashlib
import os
import pickle
import random
import subprocess
import sys
import tempfile
import threading
import warnings

warnings.simplefilter("error")

from edgegraph.structure import (  # noqa: E402
    Vertex,
    Universe,
    Link,
    TwoEndedLink,
    DirectedEdge,
    UnDirectedEdge,
)
from edgegraph.builder import explicit, adjlist, randgraph  # noqa: E402
from edgegraph.traversal import helpers, breadthfirst, depthfirst  # noqa: E402
from edgegraph.output import nrpickler  # noqa: E402

FWD, ANY, BWD = (
    helpers.DIR_SENS_FORWARD,
    helpers.DIR_SENS_ANY,
    helpers.DIR_SENS_BACKWARD,
)
U_NON, U_NB, U_ERR = (
    helpers.LNK_UNKNOWN_NONNEIGHBOR,
    helpers.LNK_UNKNOWN_NEIGHBOR,
    helpers.LNK_UNKNOWN_ERROR,
)

FAILURES: list[str] = []


def check(cond, msg):
    """Record a failure (the program goes on to report as much as it can)."""
    if not cond:
        FAILURES.append(msg)
        if len(FAILURES) <= 40:
            print("FAIL:", msg, file=sys.stderr)


# --------------------------------------------------------------------------
# classes used by the scenarios (module level so that they can be pickled)
# --------------------------------------------------------------------------


class SlotVertex(Vertex):
    """A vertex subclass that adds ``__slots__``."""

    __slots__ = ("tag",)


class SlotDirected(DirectedEdge):
    """A directed edge subclass that adds ``__slots__``."""

    __slots__ = ("weight",)


class Both(UnDirectedEdge, DirectedEdge):
    """Is both: the undirected reading is documented to win."""


class Odd(TwoEndedLink):
    """A two-ended link of a class neighbors() does not know."""


class Hyper(Link):
    """A link over any number of vertices, with a home-made ``other``."""

    def other(self, end):
        for v in self.vertices:
            if v is not end:
                return v
        return None


def ff_true(e, v):
    return True


def ff_even(e, v):
    return v is not None and getattr(v, "i", 1) % 2 == 0


def ff_edge_w(e, v):
    return getattr(e, "w", 0) >= 2


def ff_nan(e, v):
    # NaN is truthy
    return float("nan")


def ff_objs(e, v):
    # arbitrary objects: empty containers are falsy, others truthy
    k = getattr(v, "i", 0) % 4 if v is not None else 0
    return ([], "x", 0.0, (0,))[k]


PICKLABLE_FILTERS = [None, ff_true, ff_even, ff_edge_w, ff_nan, ff_objs]


class Counted:
    """Wraps a filter and counts the calls (an object the stdlib can pickle)."""

    def __init__(self, ff, calls):
        self.ff = ff
        self.calls = calls

    def __call__(self, e, v):
        self.calls[0] += 1
        return self.ff(e, v)


# --------------------------------------------------------------------------
# the oracle: neighbors() as documented, computed from public attributes only
# --------------------------------------------------------------------------


def far_end(link, vert):
    """The other end of ``link`` as seen from ``vert``."""
    if isinstance(link, TwoEndedLink):
        ends = link.vertices
        if len(ends) < 2:
            raise IndexError("edge without two ends")
        if vert is ends[0]:
            return ends[1]
        if vert is ends[1]:
            return ends[0]
        return None
    return link.other(vert)


def oracle_neighbors(vert, direction=FWD, unknown=U_ERR, ff=None, log=None):
    out = []
    for link in vert.links:
        far = far_end(link, vert)
        if direction == FWD or direction == BWD:
            lead = 0 if direction == FWD else 1
            status = None  # None = not a class / position the docs describe
            if isinstance(link, UnDirectedEdge):
                status = True
            elif isinstance(link, DirectedEdge):
                ends = link.vertices
                if ends[lead] is vert:
                    status = True
                elif ends[1 - lead] is vert:
                    status = False
            if status is None:
                if unknown == U_NON:
                    status = False
                elif unknown == U_NB:
                    status = True
                else:
                    raise NotImplementedError("unknown link")
        elif direction == ANY:
            status = True
        else:
            raise ValueError("direction")
        if status:
            if ff is None:
                out.append(far)
            else:
                if log is not None:
                    log.append((link, far))
                if ff(link, far):
                    out.append(far)
    return out


def outcome(fn, *args, **kwargs):
    """('ok', value) or ('exc', exception class)."""
    try:
        return ("ok", fn(*args, **kwargs))
    except BaseException as exc:  # pylint: disable=broad-except
        if isinstance(exc, (SystemExit, MemoryError)):
            raise
        return ("exc", type(exc))


def same_outcome(a, b):
    if a[0] != b[0]:
        return False
    if a[0] == "exc":
        return a[1] is b[1]
    x, y = a[1], b[1]
    if isinstance(x, list) and isinstance(y, list):
        return len(x) == len(y) and all(p is q for p, q in zip(x, y))
    return x is y


def q_neighbors(vert, direction=FWD, unknown=U_ERR, ff=None, how=0):
    """Call neighbors() in one of several argument-passing styles."""
    if how == 0:
        return helpers.neighbors(vert, direction, unknown, ff)
    if how == 1:
        return helpers.neighbors(
            vert,
            direction_sensitive=direction,
            unknown_handling=unknown,
            filterfunc=ff,
        )
    if direction == FWD and unknown == U_ERR and ff is None:
        return helpers.neighbors(vert)
    return helpers.neighbors(vert, direction, filterfunc=ff, unknown_handling=unknown)


def check_vertex(vert, direction, unknown, ff, where, how=0):
    """
    The heart of it: with the flag as it is now, with the flag off, and
    according to the oracle, the answer is the same; and the answer is a fresh
    list every time.
    """
    want = outcome(oracle_neighbors, vert, direction, unknown, ff)
    flag = Vertex.NEIGHBOR_CACHING
    got1 = outcome(q_neighbors, vert, direction, unknown, ff, how)
    got2 = outcome(q_neighbors, vert, direction, unknown, ff, how)
    Vertex.NEIGHBOR_CACHING = False
    got3 = outcome(q_neighbors, vert, direction, unknown, ff, how)
    Vertex.NEIGHBOR_CACHING = flag
    got4 = outcome(q_neighbors, vert, direction, unknown, ff, how)
    for n, got in enumerate((got1, got2, got3, got4)):
        check(
            same_outcome(want, got),
            f"{where}: query {n} gives {got!r}, oracle {want!r} "
            f"(dir={direction!r} unk={unknown!r} ff={ff!r})",
        )
    lists = [g[1] for g in (got1, got2, got3, got4) if g[0] == "ok"]
    for i, a in enumerate(lists):
        check(type(a) is list, f"{where}: result is a {type(a)}")
        for b in lists[i + 1 :]:
            check(a is not b, f"{where}: the same list object was returned twice")
    if lists:
        # the caller owns the list: spoiling it must not spoil later answers
        lists[0].append("spoiled")
        lists[-1].clear()
        again = outcome(q_neighbors, vert, direction, unknown, ff, how)
        check(same_outcome(want, again), f"{where}: answer changed after the caller modified an earlier result")
    return want


def all_links(verts):
    seen = []
    for v in verts:
        if v is None:
            continue
        for lnk in v.links:
            if not any(lnk is s for s in seen):
                seen.append(lnk)
    return seen


ARG_GRID = [
    (FWD, U_ERR),
    (FWD, U_NON),
    (FWD, U_NB),
    (BWD, U_ERR),
    (BWD, U_NON),
    (BWD, U_NB),
    (ANY, U_ERR),
    (ANY, U_NB),
]


def check_graph(verts, where, filters=(None,), grid=ARG_GRID):
    for idx, v in enumerate(verts):
        for d, u in grid:
            for ff in filters:
                check_vertex(v, d, u, ff, f"{where}/v{idx}", how=(idx + d + u) % 3)


def public_names(obj):
    return sorted(k for k in vars(obj) if not k.startswith("_"))


def stats():
    """The five numbers of Vertex.total_cache_stats(), or None when disabled."""
    text = Vertex.total_cache_stats()
    check(isinstance(text, str), "total_cache_stats() is not a string")
    if not Vertex.NEIGHBOR_CACHING:
        check(text == "Neighbor caching is DISABLED", f"unexpected stats text {text!r}")
        return None
    lines = text.split("\n")
    check(len(lines) == 6, f"unexpected stats text {text!r}")
    check(lines[0] == "=== CACHE STATISTICS OVERALL ===", f"unexpected stats header {lines[0]!r}")
    labels = ["Size:          ", "Hits:          ", "Misses:        ", "Invalidations: ", "Insertions:    "]
    out = []
    for label, line in zip(labels, lines[1:]):
        check(line.startswith(label), f"unexpected stats line {line!r}")
        out.append(int(line[len(label) :]))
    return tuple(out)


def stats_delta(before, after):
    return tuple(b - a for a, b in zip(before, after))


PINNED: dict[str, object] = {}


def pin(name, value):
    PINNED[name] = value


# --------------------------------------------------------------------------
# traversals: flag on == flag off, at the same moment, on the same graph
# --------------------------------------------------------------------------


def traversal_calls(uni, start, d, u, ff):
    kw = dict(direction_sensitive=d, unknown_handling=u, ff_via=ff)
    return [
        ("bft", lambda: breadthfirst.bft(uni, start, **kw)),
        ("ibft", lambda: list(breadthfirst.ibft(uni, start, **kw))),
        ("dft_r", lambda: depthfirst.dft_recursive(uni, start, **kw)),
        ("dft_i", lambda: depthfirst.dft_iterative(uni, start, **kw)),
        ("idft_r", lambda: list(depthfirst.idft_recursive(uni, start, **kw))),
        ("idft_i", lambda: list(depthfirst.idft_iterative(uni, start, ff_result=ff_res, **kw))),
        ("bfs", lambda: breadthfirst.bfs(uni, start, "i", 3)),
        ("dfs_r", lambda: depthfirst.dfs_recursive(uni, start, "i", 4)),
        ("dfs_i", lambda: depthfirst.dfs_iterative(uni, start, "i", 5)),
        ("bfs_none", lambda: breadthfirst.bfs(uni, start, "nosuch", 5)),
    ]


def ff_res(v):
    return getattr(v, "i", 0) % 3 != 0


def check_traversals(uni, start, where, d=FWD, u=U_NB, ff=None):
    flag = Vertex.NEIGHBOR_CACHING
    for name, call in traversal_calls(uni, start, d, u, ff):
        a = outcome(call)
        b = outcome(call)
        Vertex.NEIGHBOR_CACHING = False
        c = outcome(call)
        Vertex.NEIGHBOR_CACHING = flag
        check(same_outcome(a, c), f"{where}: {name} gives {a!r} with the flag {flag}, {c!r} with it off")
        check(same_outcome(a, b), f"{where}: {name} gives {a!r} then {b!r}")


# --------------------------------------------------------------------------
# A. scripted corner cases
# --------------------------------------------------------------------------


def part_a_docs_example():
    Vertex.NEIGHBOR_CACHING = True
    v1, v2, v3, v4 = (Vertex(attributes={"i": i}) for i in range(1, 5))
    explicit.link_directed(v1, v2)
    explicit.link_directed(v1, v3)
    explicit.link_directed(v2, v3)
    explicit.link_directed(v3, v4)
    explicit.link_directed(v4, v1)
    for _ in range(2):
        check(helpers.neighbors(v1) == [v2, v3], "docs: neighbors(v1)")
        check(helpers.neighbors(v4) == [v1], "docs: neighbors(v4)")
        check(helpers.neighbors(v4, direction_sensitive=ANY) == [v3, v1], "docs: neighbors(v4, ANY)")
        check(helpers.neighbors(v1, direction_sensitive=BWD) == [v4], "docs: neighbors(v1, BWD)")
        check(helpers.neighbors(v1, filterfunc=lambda e, w: w.i >= 3) == [v3], "docs: filterfunc")
    check_graph([v1, v2, v3, v4], "docs")

    # the example of docs/usage/91-performance.rst
    a, b = Vertex(), Vertex()
    check(helpers.neighbors(a) == [], "perf docs: before")
    explicit.link_directed(a, b)
    check(helpers.neighbors(a) == [b], "perf docs: after")


def part_a_every_mutator():
    """
    For each public mutator, on whichever object it lives: warm every memo,
    mutate, compare everything.
    """
    for flag_during_mutation in (True, False):
        for how in range(14):
            Vertex.NEIGHBOR_CACHING = True
            vs = [Vertex(attributes={"i": i}) for i in range(5)] + [SlotVertex(attributes={"i": 5})]
            a, b, c, d, e, f = vs
            e1 = DirectedEdge(a, b)
            e2 = UnDirectedEdge(b, c)
            e3 = explicit.link_directed(c, a)
            e4 = SlotDirected(a, a)
            e5 = explicit.link_undirected(d, d)
            e6 = Both(e, f)
            e7 = Odd(f, a)
            e8 = DirectedEdge(a, b)  # parallel to e1
            where = f"mutator{how}/{flag_during_mutation}"
            check_graph(vs, where + "/warm", filters=(None, ff_even))
            Vertex.NEIGHBOR_CACHING = flag_during_mutation
            if how == 0:
                e1.v2 = c  # the opposite end (a) is not told by c
            elif how == 1:
                e1.v1 = d
            elif how == 2:
                e2.v1 = e2.v2  # becomes a self-loop on c
            elif how == 3:
                e4.v2 = b  # self-loop opened
            elif how == 4:
                e1.unlink_from(b)
                e1.unlink_from(a)
            elif how == 5:
                a.remove_from_link(e3)
            elif how == 6:
                explicit.unlink(a, b)
            elif how == 7:
                got = explicit.unlink(b, a, destroy=False)
                check(got == {e1, e8}, f"{where}: unlink returned {got!r}")
            elif how == 8:
                e3.add_vertex(d)  # a third vertex on a directed edge
            elif how == 9:
                d.add_to_link(e2)
            elif how == 10:
                Vertex(links=[e1, e2, e1], attributes={"i": 9})
            elif how == 11:
                e1.v1 = a  # replaced by itself
                e1.v2 = a  # now a loop
                e1.v1 = b  # and turned round
            elif how == 12:
                explicit.link_directed(a, b, dontdup=True)  # nothing new
                explicit.link_undirected(e, a, dontdup=True)
                explicit.link_from_to(f, Odd, b)
            elif how == 13:
                e6.v1 = None
                e2.v2 = None
            Vertex.NEIGHBOR_CACHING = True
            check_graph(vs, where + "/after", filters=(None, ff_even))
            for v in vs:
                check_traversals(None, v, where + "/trav", FWD, U_NB)
            for v in vs:
                check(public_names(v) == ["i"], f"{where}: public instance attributes {public_names(v)}")
            for lnk in (e1, e2, e3, e4, e5, e6, e7, e8):
                check(public_names(lnk) == [], f"{where}: public link attributes {public_names(lnk)}")
            del e5, e7


def part_a_flag_switching():
    Vertex.NEIGHBOR_CACHING = True
    a, b, c = Vertex(), Vertex(), Vertex()
    e = explicit.link_directed(a, b)
    check(helpers.neighbors(a) == [b], "flag: warm")
    Vertex.NEIGHBOR_CACHING = False
    check(stats() is None, "flag: stats while off")
    e.v2 = c
    check(helpers.neighbors(a) == [c], "flag: off, after change")
    Vertex.NEIGHBOR_CACHING = True
    check(helpers.neighbors(a) == [c], "flag: on again, answer from before the change came back")
    check(helpers.neighbors(b) == [] and helpers.neighbors(c) == [], "flag: ends")
    check(helpers.neighbors(c, BWD) == [a], "flag: backward")
    # a graph built entirely with the flag off, queried with it on
    Vertex.NEIGHBOR_CACHING = False
    vs = [Vertex(attributes={"i": i}) for i in range(4)]
    for i in range(4):
        explicit.link_undirected(vs[i], vs[(i + 1) % 4])
    check_graph(vs, "flag/off-built")
    Vertex.NEIGHBOR_CACHING = True
    check_graph(vs, "flag/on")
    explicit.unlink(vs[0], vs[1])
    check_graph(vs, "flag/on-unlinked")
    # the flag set on one instance only (an ordinary attribute assignment)
    Vertex.NEIGHBOR_CACHING = False
    vs[2].NEIGHBOR_CACHING = True
    check_graph(vs, "flag/instance")
    explicit.link_directed(vs[2], vs[0])
    check_graph(vs, "flag/instance-after")
    del vs[2].NEIGHBOR_CACHING
    Vertex.NEIGHBOR_CACHING = True


class CountingFilter:
    """A filter object that can be hashed, and counts how often it is."""

    def __init__(self, verdict=True):
        self.verdict = verdict
        self.hashes = 0
        self.eqs = 0
        self.calls = 0

    def __hash__(self):
        self.hashes += 1
        return 77

    def __eq__(self, other):
        self.eqs += 1
        return self is other

    def __call__(self, e, v):
        self.calls += 1
        return self.verdict


class UnhashableFilter:
    """``__eq__`` without ``__hash__``: instances cannot be dictionary keys."""

    def __init__(self):
        self.calls = 0

    def __eq__(self, other):
        return self is other

    def __call__(self, e, v):
        self.calls += 1
        return True


class Verdict:
    """What a filter may return: anything with a truth value."""

    def __init__(self, truth, log):
        self.truth = truth
        self.log = log

    def __bool__(self):
        self.log.append(self.truth)
        return self.truth


class Boom(Exception):
    pass


class Bang(BaseException):
    pass


def part_a_filters():
    Vertex.NEIGHBOR_CACHING = True
    hub = Vertex(attributes={"i": 0})
    rim = [Vertex(attributes={"i": i}) for i in range(1, 7)]
    edges = [explicit.link_directed(hub, r) for r in rim[:3]]
    edges += [explicit.link_undirected(r, hub) for r in rim[3:]]
    edges.append(explicit.link_directed(rim[0], hub))

    # a hashable filter object: called once per usable link, in link order,
    # only when the answer is not memorised
    cf = CountingFilter()
    s0 = stats()
    r = helpers.neighbors(hub, filterfunc=cf)
    check(r == rim, "filters: counting filter, first answer")
    pin("cf.first", (cf.calls, cf.hashes, cf.eqs))
    r = helpers.neighbors(hub, filterfunc=cf)
    check(r == rim, "filters: counting filter, second answer")
    pin("cf.second", (cf.calls, cf.hashes, cf.eqs))
    cf2 = CountingFilter(False)  # same hash, not equal
    check(helpers.neighbors(hub, filterfunc=cf2) == [], "filters: second counting filter")
    check(helpers.neighbors(hub, filterfunc=cf2) == [], "filters: second counting filter again")
    check(helpers.neighbors(hub, filterfunc=cf) == rim, "filters: first counting filter again")
    pin("cf.third", (cf.calls, cf.hashes, cf.eqs, cf2.calls, cf2.hashes, cf2.eqs))
    pin("cf.stats", stats_delta(s0, stats()))
    check(cf.calls == 6 and cf2.calls == 6, f"filters: calls {cf.calls} {cf2.calls}")

    # a filter object that cannot be hashed is simply never memorised
    uf = UnhashableFilter()
    s0 = stats()
    for k in range(3):
        check(helpers.neighbors(hub, ANY, U_ERR, uf) == rim + [rim[0]], "filters: unhashable filter")
        check(uf.calls == 7 * (k + 1), f"filters: unhashable filter called {uf.calls} times")
    check(stats_delta(s0, stats()) == (0, 0, 0, 0, 0), "filters: unhashable filter showed up in the statistics")
    for bad in ([0], {}, {1}):
        check(helpers.neighbors(Vertex(), bad) == [], "filters: unhashable direction on a lonely vertex")
        check(outcome(helpers.neighbors, hub, bad)[1] is ValueError, "filters: unhashable direction")
        check(helpers.neighbors(hub, FWD, bad) == rim, "filters: unhashable unknown_handling")

    # what the filter returns is only ever asked for its truth, once
    log = []
    order = []

    def verdicts(e, v):
        order.append((e, v))
        return Verdict(v.i % 2 == 1, log)

    for _ in range(2):
        check(helpers.neighbors(hub, ANY, U_ERR, verdicts) == [rim[0], rim[2], rim[4], rim[0]], "filters: verdict objects")
    check(log == [True, False, True, False, True, False, True], f"filters: truth asked {log}")
    check(len(order) == 7 and all(o[0] is e for o, e in zip(order, edges)), "filters: order of filter calls")
    check(all(o[1] is e.other(hub) for o, e in zip(order, edges)), "filters: arguments of filter calls")
    check(helpers.neighbors(hub, filterfunc=ff_nan) == rim, "filters: NaN is true")
    check(helpers.neighbors(hub, filterfunc=ff_objs) == [rim[0], rim[2], rim[4]], "filters: arbitrary objects")
    check(helpers.neighbors(hub, filterfunc=ff_objs) == [rim[0], rim[2], rim[4]], "filters: arbitrary objects")

    # filters that raise part-way: nothing is memorised, the next call starts over
    for exc in (Boom, Bang, KeyboardInterrupt, StopIteration, GeneratorExit):
        state = {"n": 0, "armed": True}

        def flaky(e, v, state=state, exc=exc):
            state["n"] += 1
            if state["armed"] and state["n"] == 4:
                raise exc()
            return True

        s0 = stats()
        got = outcome(helpers.neighbors, hub, FWD, U_ERR, flaky)
        check(got == ("exc", exc), f"filters: {exc.__name__} did not come through: {got!r}")
        check(state["n"] == 4, "filters: filter called after it raised")
        state["armed"] = False
        check(helpers.neighbors(hub, FWD, U_ERR, flaky) == rim, "filters: after the exception")
        check(state["n"] == 10, f"filters: {state['n']} calls after the exception")
        check(helpers.neighbors(hub, FWD, U_ERR, flaky) == rim, "filters: after the exception, again")
        check(state["n"] == 10, "filters: memorised answer not used")
        check(stats_delta(s0, stats()) == (0, 1, 2, 0, 1), f"filters: statistics around an exception {stats_delta(s0, stats())}")

    # a filter that asks for neighbours itself (same vertex, same arguments)
    depth = []

    def nosy(e, v):
        if len(depth) < 2:
            depth.append(1)
            inner = helpers.neighbors(hub, FWD, U_ERR, nosy)
            check(inner == rim, "filters: nested query")
        return True

    check(helpers.neighbors(hub, FWD, U_ERR, nosy) == rim, "filters: nosy filter")
    check(helpers.neighbors(hub, FWD, U_ERR, nosy) == rim, "filters: nosy filter again")

    # equal-but-different spellings of the arguments
    s0 = stats()
    base = helpers.neighbors(hub, 0, 2, None)
    for d, u in ((0.0, 2.0), (False, 2), (0, 2 + 0j)):
        check(helpers.neighbors(hub, d, u) == base, "filters: equal spelling")
    nan = float("nan")
    check(outcome(helpers.neighbors, hub, nan)[1] is ValueError, "filters: NaN direction")
    check(helpers.neighbors(hub, 0, nan) == base, "filters: NaN unknown_handling (no unknown link around)")
    check(helpers.neighbors(hub, 0, nan) == base, "filters: NaN unknown_handling again")
    pin("spelling.stats", stats_delta(s0, stats()))
    odd = Odd(hub, rim[5])
    check(outcome(helpers.neighbors, hub, 0, nan)[1] is NotImplementedError, "filters: NaN unknown_handling with an unknown link")
    check(outcome(helpers.neighbors, hub, 0, 3)[1] is NotImplementedError, "filters: unknown_handling 3")
    check(helpers.neighbors(hub, 1, 3) == rim + [rim[0], rim[5]], "filters: ANY ignores unknown_handling")
    check(helpers.neighbors(hub, True, "x") == rim + [rim[0], rim[5]], "filters: True is ANY")
    check(outcome(helpers.neighbors, hub, 3)[1] is ValueError, "filters: direction 3")
    check(outcome(helpers.neighbors, hub, "0")[1] is ValueError, "filters: direction '0'")
    check(outcome(helpers.neighbors, hub, None)[1] is ValueError, "filters: direction None")
    check(helpers.neighbors(Vertex(), 3) == [], "filters: direction 3 on a lonely vertex")
    check(helpers.neighbors(Vertex(), 3) == [], "filters: direction 3 on a lonely vertex")
    check(outcome(helpers.neighbors, None)[1] is AttributeError, "filters: neighbors(None)")
    check(outcome(helpers.neighbors, odd)[1] is AttributeError, "filters: neighbors(link)")
    check_graph([hub] + rim, "filters/final", filters=(None, ff_even, ff_objs))


def part_a_unknown_classes():
    Vertex.NEIGHBOR_CACHING = True
    a, b, c, d = (Vertex(attributes={"i": i}) for i in range(4))
    h = Hyper(vertices=[a, b, c])
    o = Odd(a, d)
    raw = Link(vertices=[a, d], _force_creation=True)  # has no other() at all
    check(outcome(helpers.neighbors, a, ANY)[1] is AttributeError, "unknown: a bare Link has no other()")
    check(outcome(helpers.neighbors, a, ANY)[1] is AttributeError, "unknown: a bare Link has no other(), again")
    raw.unlink_from(a)
    check_graph([a, b, c, d], "unknown/1")
    de = DirectedEdge(b, c)
    de.add_vertex(a)  # a is on the edge, at neither end
    check(outcome(helpers.neighbors, a)[1] is NotImplementedError, "unknown: off-end vertex, default")
    check(helpers.neighbors(a, FWD, U_NB) == [b, d, None], "unknown: off-end vertex is given None")
    check(helpers.neighbors(a, BWD, U_NON) == [], "unknown: off-end vertex, non-neighbor")
    check_graph([a, b, c, d], "unknown/2", filters=(None, ff_true))
    h.unlink_from(b)
    o.v1 = c
    check_graph([a, b, c, d], "unknown/3", filters=(None, ff_true))
    de.unlink_from(c)  # the edge is left with ends (b, a)
    check_graph([a, b, c, d], "unknown/4")
    de.unlink_from(a)  # and now with one end only
    check(outcome(helpers.neighbors, b)[1] is IndexError, "unknown: one-ended edge")
    check_graph([a, b, c, d], "unknown/5")
    check(outcome(setattr, de, "v1", c)[1] is IndexError, "unknown: setting an end of a one-ended edge")
    check_graph([a, b, c, d], "unknown/6")
    de.add_vertex(d)
    check_graph([a, b, c, d], "unknown/7")
    p, q = Vertex(attributes={"i": 7}), Vertex(attributes={"i": 8})
    both = Both(p, q)
    check(helpers.neighbors(q, FWD) == [p] and helpers.neighbors(p, BWD) == [q], "unknown: Both is undirected")
    check_graph([a, b, c, d, p, q], "unknown/8")
    # objects that are not vertices at all
    check(outcome(DirectedEdge, a, "b")[1] is TypeError, "unknown: str as an end")
    check(outcome(h.add_vertex, "s")[1] is AttributeError, "unknown: str added to a link")
    check("s" in h.vertices, "unknown: the str is listed all the same")
    check_graph([a, b, c, d], "unknown/9")
    check(outcome(setattr, both, "v1", 7)[1] is AttributeError, "unknown: int as a new end")
    check(both.vertices == (7, q), f"unknown: ends after the failed replacement {both.vertices!r}")
    check(p.links == (both,), "unknown: the replaced end still lists the edge")
    check_graph([a, b, d, p, q], "unknown/10")
    check(helpers.neighbors(p, ANY) == [None], "unknown: the replaced end looks into the void")
    check(helpers.neighbors(q, ANY) == [7], "unknown: the int is a neighbor")


def part_a_constructor_corner_cases():
    Vertex.NEIGHBOR_CACHING = True
    a, b = Vertex(attributes={"i": 0}), Vertex(attributes={"i": 1})
    e = DirectedEdge(a, b)
    check(helpers.neighbors(a) == [b], "ctor: warm")

    def links_then_boom():
        yield e
        raise Boom()

    got = outcome(Vertex, links=links_then_boom())
    check(got == ("exc", Boom), "ctor: exception from the links iterable")
    check(len(e.vertices) == 3, "ctor: the half-made vertex is on the edge")
    ghost = e.vertices[2]
    check(ghost.links == (e,), "ctor: ghost links")
    check_graph([a, b, ghost], "ctor/ghost", filters=(None,))
    check(outcome(Vertex, uid=[1])[1] is TypeError, "ctor: unhashable uid")
    check(outcome(Vertex, attributes=3)[1] is TypeError, "ctor: attributes")

    # same uid twice: the statistics row is shared, and restarted
    s0 = stats()
    x = Vertex(uid=424242)
    helpers.neighbors(x)
    helpers.neighbors(x)
    y = Vertex(uid=424242)
    helpers.neighbors(y)
    pin("uid.stats", stats_delta(s0, stats()))

    # a universe that looks at the newcomer's neighbours while it is still
    # being constructed (memos filled at that time are not kept)
    seen = []

    class Curious(Universe):
        def add_vertex(self, vert):
            seen.append(outcome(helpers.neighbors, vert, ANY))
            super().add_vertex(vert)

    cu = Curious()
    n1 = Vertex(links=[e], universes=[cu])
    check(seen and seen[-1][0] == "ok" and seen[-1][1] == [None], f"ctor: curious universe saw {seen[-1:]!r}")
    check_graph([a, b, n1], "ctor/curious")
    pin("curious.nolinks", outcome(Vertex, universes=[cu])[0:1] + (seen[-1][0], seen[-1][1] if seen[-1][0] == "ok" else seen[-1][1].__name__))

    # user attributes with unusual names
    names = ["links", "uid2", "NEIGHBOR_CACHING_", "cache", "qa_nb_cache", "nb_memo", "x y", "", "ünï"]
    w = Vertex(attributes={n: n for n in names if n != "links"})
    ew = explicit.link_directed(w, a)
    for n in names:
        if n != "links":
            check(w[n] == n, f"ctor: attribute {n!r}")
    ew["links"] = 5
    ew.vertices_ = 4
    check(helpers.neighbors(w) == [a] and helpers.neighbors(w) == [a], "ctor: attribute names")
    check(public_names(w) == sorted(n for n in names if n != "links"), f"ctor: public names {public_names(w)}")


def part_a_identity_and_aliasing():
    Vertex.NEIGHBOR_CACHING = True
    a = Vertex(attributes={"i": 0})
    loops = [DirectedEdge(a, a), UnDirectedEdge(a, a), Odd(a, a), Both(a, a)]
    check(helpers.neighbors(a, FWD, U_NB) == [a, a, a, a], "alias: loops forward")
    check(helpers.neighbors(a, BWD, U_NON) == [a, a, a], "alias: loops backward")
    check_graph([a], "alias/loops", filters=(None, ff_true))
    loops[0].v1 = a
    loops[1].v2 = a
    check_graph([a], "alias/loops-reassigned", filters=(None, ff_true))
    loops[0].unlink_from(a)
    check(loops[0].vertices == () and loops[0] not in a.links, "alias: loop unlinked")
    check_graph([a], "alias/loop-unlinked")
    explicit.unlink(a, a)
    check(a.links == (), "alias: unlink(a, a)")
    check_graph([a], "alias/unlink-self")
    # the same edge handed over twice
    b = Vertex(attributes={"i": 1})
    e = DirectedEdge(a, b)
    a.add_to_link(e)
    b.add_to_link(e)
    check(a.links == (e,) and e.vertices == (a, b), "alias: add_to_link twice")
    a.remove_from_link(e)
    a.remove_from_link(e)
    check_graph([a, b], "alias/removed-twice")
    # == duplicates of links are allowed, `is` duplicates are not

    class Same(DirectedEdge):
        def __eq__(self, other):
            return isinstance(other, Same)

        __hash__ = DirectedEdge.__hash__

    c, d = Vertex(attributes={"i": 2}), Vertex(attributes={"i": 3})
    s1 = Same(c, d)
    s2 = Same(c, d)
    pin("same.links", (len(c.links), len(d.links), len(s2.vertices)))
    check_graph([c, d], "alias/equal-links")
    # shallow copies share what they share
    p, q = Vertex(attributes={"i": 4}), Vertex(attributes={"i": 5})
    pq = DirectedEdge(p, q)
    check(helpers.neighbors(p) == [q], "alias: warm before copy.copy")
    twin = copy.copy(p)
    t1 = helpers.neighbors(twin)
    r = Vertex(attributes={"i": 6})
    pr = DirectedEdge(p, r)
    t2 = helpers.neighbors(twin)
    t3 = helpers.neighbors(twin, ANY)
    t4 = helpers.neighbors(p)
    pq.v2 = r
    t5 = helpers.neighbors(twin)
    pin("shallow", tuple([getattr(x, "i", None) for x in t] for t in (t1, t2, t3, t4, t5)))


def part_a_lazy_generators():
    """Generators created long before they are consumed (twin graphs)."""

    def build():
        vs = [Vertex(attributes={"i": i}) for i in range(8)]
        uni = Universe(vertices=vs)
        es = [explicit.link_directed(vs[i], vs[(i * 3 + 1) % 8]) for i in range(8)]
        es += [explicit.link_undirected(vs[i], vs[(i + 2) % 8]) for i in range(0, 8, 2)]
        return uni, vs, es

    results = {}
    for flag in (True, False):
        Vertex.NEIGHBOR_CACHING = flag
        uni, vs, es = build()
        for v in vs:
            helpers.neighbors(v)
            helpers.neighbors(v, ANY)
        gens = [
            breadthfirst.ibft(uni, vs[0]),
            depthfirst.idft_recursive(uni, vs[0]),
            depthfirst.idft_iterative(uni, vs[0], direction_sensitive=ANY),
        ]
        firsts = [next(g).i for g in gens]
        explicit.unlink(vs[0], vs[1])
        es[3].v2 = vs[7]
        explicit.link_directed(vs[0], vs[6])
        mids = [next(g).i for g in gens]
        es[5].unlink_from(vs[5])
        results[flag] = (firsts, mids, [outcome(lambda g=g: [x.i for x in g]) for g in gens])
    check(results[True] == results[False], f"lazy generators differ: {results[True]!r} / {results[False]!r}")
    Vertex.NEIGHBOR_CACHING = True


def part_a_threads():
    Vertex.NEIGHBOR_CACHING = True
    vs = [Vertex(attributes={"i": i}) for i in range(6)]
    uni = Universe(vertices=vs)
    for i in range(6):
        explicit.link_directed(vs[i], vs[(i + 1) % 6])
    box = []

    def worker(k):
        try:
            for v in vs:
                helpers.neighbors(v)
            explicit.link_undirected(vs[k], vs[(k + 3) % 6])
            explicit.unlink(vs[k], vs[(k + 1) % 6])
            check_graph(vs, f"thread{k}", grid=ARG_GRID[:3])
            box.append([x.i for x in breadthfirst.bft(uni, vs[0], direction_sensitive=ANY)])
        except BaseException as exc:  # pylint: disable=broad-except
            box.append(exc)

    for k in range(3):
        t = threading.Thread(target=worker, args=(k,))
        t.start()
        t.join()
    check(all(isinstance(b, list) for b in box), f"threads: {box!r}")
    pin("threads", tuple(tuple(b) for b in box if isinstance(b, list)))
    # several threads at once, each on a graph of its own
    errors = []

    def solo(seed):
        try:
            rng = random.Random(seed)
            mine = [Vertex(attributes={"i": i}) for i in range(5)]
            for _ in range(60):
                x, y = rng.choice(mine), rng.choice(mine)
                if rng.random() < 0.6:
                    explicit.link_directed(x, y)
                else:
                    explicit.unlink(x, y)
                for v in mine:
                    got = helpers.neighbors(v)
                    want = oracle_neighbors(v)
                    if not same_outcome(("ok", got), ("ok", want)):
                        errors.append((seed, "mismatch"))
        except BaseException as exc:  # pylint: disable=broad-except
            errors.append((seed, exc))

    ts = [threading.Thread(target=solo, args=(s,)) for s in range(4)]
    for t in ts:
        t.start()
    for t in ts:
        t.join()
    check(not errors, f"threads: {errors!r}")


def part_a_copies():
    part_a_copies_of(True)
    part_a_copies_of(False)


def part_a_copies_of(slots):
    Vertex.NEIGHBOR_CACHING = True
    last_class = SlotVertex if slots else Vertex
    vs = [Vertex(attributes={"i": i}) for i in range(6)] + [last_class(attributes={"i": 6})]
    uni = Universe(vertices=vs)
    es = [explicit.link_directed(vs[i], vs[(i + 1) % 7]) for i in range(7)]
    es.append(explicit.link_undirected(vs[0], vs[3]))
    es.append((SlotDirected if slots else DirectedEdge)(vs[2], vs[2]))
    es.append(Odd(vs[4], vs[1]))
    es[0].w = 3
    lam = lambda e, v: True  # noqa: E731  (cannot be pickled by the stdlib)
    for v in vs:
        for d, u in ARG_GRID:
            for ff in (None, ff_even, ff_edge_w):
                outcome(helpers.neighbors, v, d, u, ff)

    def continue_on(copy_uni, label):
        cvs = copy_uni.vertices
        check([v.i for v in cvs] == list(range(7)), f"{label}: vertices")
        check(all(c is not o for c, o in zip(cvs, vs)), f"{label}: not a copy")
        # (dill re-creates classes of __main__ by value: compare names)
        check(type(cvs[6]).__name__ == last_class.__name__, f"{label}: subclass lost")
        check_graph(cvs, label + "/fresh", filters=(None, ff_even, ff_edge_w))
        ce = cvs[0].links[0]
        check(ce.w == 3, f"{label}: link attribute")
        ce.v2 = cvs[5]
        explicit.unlink(cvs[0], cvs[3])
        explicit.link_undirected(cvs[6], cvs[2])
        cvs[1].links[-1].v1 = cvs[1]
        check_graph(cvs, label + "/mutated", filters=(None, ff_even, ff_edge_w))
        check_traversals(copy_uni, cvs[0], label + "/trav", ANY, U_NB)
        check_traversals(copy_uni, cvs[0], label + "/trav", FWD, U_NON, ff_even)
        for v in cvs:
            check(public_names(v) == ["i"], f"{label}: public names {public_names(v)}")
        # and the original did not notice
        check([len(v.links) for v in vs] == LINKS_BEFORE, f"{label}: the original changed")

    LINKS_BEFORE = [len(v.links) for v in vs]
    for proto in range(0, pickle.HIGHEST_PROTOCOL + 1):
        made = outcome(pickle.dumps, uni, protocol=proto)
        if slots and proto < 2:
            # the stdlib refuses classes with __slots__ under these protocols
            check(made == ("exc", TypeError), f"pickle{proto}: {made!r}")
            check_graph(vs, f"copies/after-refused-dumps{proto}")
            continue
        check(made[0] == "ok", f"pickle{proto}: {made!r}")
        continue_on(pickle.loads(made[1]), f"pickle{proto}")
    continue_on(copy.deepcopy(uni), "deepcopy")
    continue_on(pickle.loads(nrpickler.dumps(uni)), "nrpickler")
    # one vertex only (drags the whole component along)
    one = pickle.loads(pickle.dumps(vs[3]))
    check(one.i == 3 and [n.i for n in helpers.neighbors(one, ANY)] == [n.i for n in helpers.neighbors(vs[3], ANY)], "copies: single vertex")
    one.links[0].v1 = one
    check_vertex(one, ANY, U_NB, None, "copies/single")
    check_vertex(one, FWD, U_NB, None, "copies/single")
    # a lambda among the memorised arguments
    helpers.neighbors(vs[0], FWD, U_NB, lam)
    got = outcome(pickle.dumps, uni)
    pin("pickle.lambda", got[0] if got[0] == "ok" else got[1].__name__)
    check_graph(vs, "copies/after-failed-dumps", filters=(None, lam))
    dc = copy.deepcopy(uni)
    continue_on(dc, "deepcopy-lambda")
    check(helpers.neighbors(dc.vertices[0], FWD, U_NB, lam) == oracle_neighbors(dc.vertices[0], FWD, U_NB, lam), "copies: lambda on the copy")
    continue_on(pickle.loads(nrpickler.dumps(uni)), "nrpickler-lambda")
    check_graph(vs, "copies/original", filters=(None, ff_even))


# --------------------------------------------------------------------------
# B. random differential part
# --------------------------------------------------------------------------


class Trace:
    """A running digest of everything observable, for the pinned comparison."""

    def __init__(self):
        self.h = hashlib.sha256()
        self.n = 0

    def add(self, *items):
        self.n += 1
        self.h.update(repr(items).encode())

    def digest(self):
        return self.h.hexdigest()[:16]


def label_of(x, verts):
    if x is None:
        return "N"
    for i, v in enumerate(verts):
        if v is x:
            return i
    return "?" + type(x).__name__


def run_history(seed, trace, steps=70):
    rng = random.Random(seed)
    Vertex.NEIGHBOR_CACHING = rng.random() < 0.8
    n = rng.randint(2, 7)
    classes = [Vertex, Vertex, SlotVertex]
    verts = [rng.choice(classes)(attributes={"i": i}) for i in range(n)]
    uni = Universe(vertices=verts)
    where = f"hist{seed}"
    edge_classes = [DirectedEdge, DirectedEdge, UnDirectedEdge, UnDirectedEdge, SlotDirected, Odd, Both]
    calls = [0]

    # filter objects with stable identity, so that they can be memo keys
    filters = [None, None, ff_even, ff_edge_w, ff_objs]
    counted_filters = {id(f): Counted(f, calls) for f in filters if f is not None}

    def pick_filter():
        f = rng.choice(filters)
        return f

    def observe(v, d, u, ff, tag):
        """One query, traced; the oracle decides whether it is right."""
        cf = None if ff is None else counted_filters[id(ff)]
        calls[0] = 0
        got = outcome(helpers.neighbors, v, d, u, cf)
        ncalls = calls[0]
        want = outcome(oracle_neighbors, v, d, u, ff)
        check(same_outcome(got, want), f"{where}/{tag}: got {got!r}, oracle {want!r} (d={d} u={u} ff={ff})")
        if got[0] == "ok":
            trace.add(tag, label_of(v, verts), d, u, getattr(ff, "__name__", None), [label_of(x, verts) for x in got[1]], ncalls)
        else:
            trace.add(tag, label_of(v, verts), d, u, getattr(ff, "__name__", None), got[1].__name__, ncalls)

    for step in range(steps):
        links = all_links(verts)
        # warm some memos
        for _ in range(rng.randint(0, 4)):
            v = rng.choice(verts)
            d, u = rng.choice(ARG_GRID)
            observe(v, d, u, pick_filter(), "warm")
        op = rng.randrange(20)
        a, b = rng.choice(verts), rng.choice(verts)
        lnk = rng.choice(links) if links else None
        res = None
        if op in (0, 1, 2):
            cls = rng.choice(edge_classes)
            res = outcome(cls, a, b)
            if res[0] == "ok" and rng.random() < 0.5:
                res[1].w = rng.randint(0, 4)
        elif op == 3:
            res = outcome(explicit.link_directed, a, b, rng.random() < 0.5)
        elif op == 4:
            res = outcome(explicit.link_undirected, a, b, dontdup=rng.random() < 0.5)
        elif op in (5, 6):
            res = outcome(explicit.unlink, a, b, rng.random() < 0.5)
        elif op in (7, 8) and lnk is not None:
            new = rng.choice(verts + [None] if rng.random() < 0.15 else verts)
            res = outcome(setattr, lnk, rng.choice(["v1", "v2"]), new)
        elif op == 9 and lnk is not None:
            res = outcome(lnk.unlink_from, a)
        elif op == 10 and lnk is not None:
            res = outcome(a.remove_from_link, lnk)
        elif op == 11 and lnk is not None:
            res = outcome(a.add_to_link, lnk)
        elif op == 12 and lnk is not None and rng.random() < 0.5:
            res = outcome(lnk.add_vertex, a)
        elif op == 13:
            Vertex.NEIGHBOR_CACHING = not Vertex.NEIGHBOR_CACHING
        elif op == 14 and len(verts) < 9:
            some = [l for l in links if rng.random() < 0.2]
            res = outcome(rng.choice(classes), links=iter(some), attributes={"i": len(verts)}, universes=[uni])
            if res[0] == "ok":
                verts.append(res[1])
        elif op == 15:
            res = outcome(adjlist.load_adj_dict, {a: [b, a], b: [a]}, rng.choice([DirectedEdge, UnDirectedEdge]))
        elif op == 16 and rng.random() < 0.5:
            kind = rng.randrange(3)
            flag = Vertex.NEIGHBOR_CACHING
            if kind == 0:
                made = outcome(copy.deepcopy, uni)
            elif kind == 1:
                proto = rng.randint(0, pickle.HIGHEST_PROTOCOL)
                made = outcome(lambda: pickle.loads(pickle.dumps(uni, protocol=proto)))
            else:
                made = outcome(lambda: pickle.loads(nrpickler.dumps(uni)))
            check(Vertex.NEIGHBOR_CACHING == flag, f"{where}: copying switched the flag")
            trace.add("copy", kind, made[0], made[1].__name__ if made[0] == "exc" else None)
            if made[0] == "ok":
                old = verts
                uni = made[1]
                verts = uni.vertices
                check(len(verts) == len(old) and all(x is not y for x, y in zip(verts, old)), f"{where}: copy")
                check([v.i for v in verts] == [v.i for v in old], f"{where}: copy order")
                check([type(v).__name__ for v in verts] == [type(v).__name__ for v in old], f"{where}: copy types")
        elif op == 17:
            Vertex.NEIGHBOR_CACHING = True
        if res is not None:
            trace.add("op", op, res[0], res[1].__name__ if res[0] == "exc" else type(res[1]).__name__)
        # everything, against the oracle (first pass mostly misses, the
        # occasional second pass hits)
        for _ in range(1 if rng.random() < 0.7 else 2):
            for v in verts:
                for d, u in ARG_GRID:
                    observe(v, d, u, None, "all")
                d, u = rng.choice(ARG_GRID)
                observe(v, d, u, pick_filter(), "filt")
        if rng.random() < 0.25:
            start = rng.choice(verts)
            d, u = rng.choice(ARG_GRID)
            check_traversals(uni if rng.random() < 0.7 else None, start, where + "/trav", d, u, pick_filter())
        if rng.random() < 0.1:
            check_graph(verts, where + "/full", filters=(None, ff_even))
        st = stats()
        trace.add("stats", None if st is None else st[1:])
    for v in verts:
        check(public_names(v) == ["i"], f"{where}: public names {public_names(v)}")
    for lnk in all_links(verts):
        check(public_names(lnk) in ([], ["w"]), f"{where}: public link names {public_names(lnk)}")


def part_b(trace):
    for seed in range(60):
        run_history(1000 + seed, trace)
    # randgraph: seeded, so that the calls made to random.* are pinned too
    Vertex.NEIGHBOR_CACHING = True
    random.seed(20240505)
    uni = randgraph.randgraph(count=40)
    mark = random.random()
    trace.add("randgraph", mark, [len(v.links) for v in uni.vertices])
    check_graph(uni.vertices, "randgraph", grid=ARG_GRID[:2])
    for v in uni.vertices[:5]:
        check_traversals(uni, v, "randgraph/trav")
    for _ in range(3):
        breadthfirst.bft(uni, uni.vertices[0])
    trace.add("stats", stats()[1:])


# --------------------------------------------------------------------------
# C. a fresh interpreter
# --------------------------------------------------------------------------


def part_c_parent():
    Vertex.NEIGHBOR_CACHING = True
    vs = [Vertex(attributes={"i": i}) for i in range(6)]
    uni = Universe(vertices=vs)
    es = [explicit.link_directed(vs[i], vs[(i + 1) % 6]) for i in range(6)]
    es.append(explicit.link_undirected(vs[0], vs[3]))
    es.append(Odd(vs[1], vs[4]))
    for v in vs:
        for d, u in ARG_GRID:
            outcome(helpers.neighbors, v, d, u, None)
            outcome(helpers.neighbors, v, d, u, ff_even)
    Vertex.NEIGHBOR_CACHING = False
    cold = [Vertex(attributes={"i": i}) for i in range(4)]
    cold_uni = Universe(vertices=cold)
    for i in range(4):
        explicit.link_directed(cold[i], cold[(i + 1) % 4])
    Vertex.NEIGHBOR_CACHING = True
    blobs = [
        pickle.dumps((uni, cold_uni)),
        pickle.dumps((uni, cold_uni), protocol=0),
        nrpickler.dumps((uni, cold_uni)),
    ]
    with tempfile.TemporaryDirectory() as tmp:
        for k, blob in enumerate(blobs):
            path = os.path.join(tmp, f"graph{k}.pickle")
            with open(path, "wb") as fh:
                fh.write(blob)
            for start_on in ("1", "0"):
                proc = subprocess.run(
                    [sys.executable, os.path.abspath(__file__), "--child", path, start_on],
                    capture_output=True,
                    text=True,
                    env=dict(os.environ),
                    check=False,
                )
                check(proc.returncode == 0, f"child {k}/{start_on} failed:\n{proc.stdout}\n{proc.stderr}")
                pin(f"child{k}.{start_on}", proc.stdout.strip())


def child_main(path, start_on):
    Vertex.NEIGHBOR_CACHING = start_on == "1"
    with open(path, "rb") as fh:
        uni, cold_uni = pickle.load(fh)
    for label, g in (("warm", uni), ("cold", cold_uni)):
        vs = g.vertices
        check_graph(vs, f"child/{label}/loaded", filters=(None, ff_even))
        Vertex.NEIGHBOR_CACHING = True
        check_graph(vs, f"child/{label}/loaded-on", filters=(None, ff_even))
        vs[0].links[0].v2 = vs[2]
        explicit.unlink(vs[2], vs[3])
        explicit.link_undirected(vs[3], vs[3])
        nv = Vertex(attributes={"i": 99}, universes=[g])
        explicit.link_directed(nv, vs[1])
        vs = g.vertices
        check_graph(vs, f"child/{label}/mutated", filters=(None, ff_even))
        for v in vs:
            check_traversals(g, v, f"child/{label}/trav", ANY, U_NB)
        Vertex.NEIGHBOR_CACHING = start_on == "1"
    Vertex.NEIGHBOR_CACHING = True
    print(stats())
    if FAILURES:
        print(f"{len(FAILURES)} failure(s) in child", file=sys.stderr)
        return 1
    return 0


# --------------------------------------------------------------------------
# E. probes into neighbors(): attribute reads, comparisons, stack depth
# --------------------------------------------------------------------------

PROBE_LOG: list = []


class ProbeEdge(DirectedEdge):
    """A directed edge that notes every read of an end and every other()."""

    @property
    def v1(self):
        PROBE_LOG.append("v1")
        return DirectedEdge.v1.fget(self)

    @v1.setter
    def v1(self, new):
        DirectedEdge.v1.fset(self, new)

    @property
    def v2(self):
        PROBE_LOG.append("v2")
        return DirectedEdge.v2.fget(self)

    @v2.setter
    def v2(self, new):
        DirectedEdge.v2.fset(self, new)

    def other(self, end):
        PROBE_LOG.append("other(")
        try:
            return super().other(end)
        finally:
            PROBE_LOG.append(")")


class ProbeUndirected(UnDirectedEdge):
    """The same for an undirected edge."""

    @property
    def v1(self):
        PROBE_LOG.append("u1")
        return UnDirectedEdge.v1.fget(self)

    @property
    def v2(self):
        PROBE_LOG.append("u2")
        return UnDirectedEdge.v2.fget(self)


class EqLog:
    """Stands in for one of the integer options; notes every use."""

    def __init__(self, value, name):
        self.value = value
        self.name = name

    def __eq__(self, other):
        PROBE_LOG.append((self.name, "==", other if isinstance(other, int) else "obj"))
        return self.value == (other.value if isinstance(other, EqLog) else other)

    def __ne__(self, other):
        PROBE_LOG.append((self.name, "!=", other if isinstance(other, int) else "obj"))
        return not self.value == (other.value if isinstance(other, EqLog) else other)

    def __hash__(self):
        PROBE_LOG.append((self.name, "hash"))
        return hash(self.value)

    def __bool__(self):
        PROBE_LOG.append((self.name, "bool"))
        return bool(self.value)

    def __str__(self):
        PROBE_LOG.append((self.name, "str"))
        return f"<{self.name}>"

    __repr__ = __str__

    def __format__(self, spec):
        PROBE_LOG.append((self.name, "format"))
        return f"<{self.name}>"


def part_e_probes():
    logs = {}
    for flag in (True, False):
        Vertex.NEIGHBOR_CACHING = flag
        a, b, c, d = (Vertex(attributes={"i": i}) for i in range(4))
        ProbeEdge(a, b)
        ProbeEdge(c, a)
        ProbeEdge(a, a)
        pe = ProbeEdge(b, c)
        pe.add_vertex(a)  # a at neither end
        ProbeUndirected(a, d)
        Odd(a, d)
        for d_, u_ in ARG_GRID + [(FWD, 7), (5, U_NB)]:
            for ff in (None, ff_true):
                for rep in range(2):
                    del PROBE_LOG[:]
                    got = outcome(helpers.neighbors, a, d_, u_, ff)
                    want = outcome(oracle_neighbors, a, d_, u_, ff)
                    # (the oracle does not read v1 / v2 / other of two-ended links)
                    check(same_outcome(got, want), f"probes: {got!r} / {want!r}")
                    logs[(flag, d_, u_, ff is None, rep)] = "".join(str(x) for x in PROBE_LOG)
        # option objects instead of integers
        for dv, uv in ((0, 2), (0, 1), (2, 0), (1, 2), (9, 1), (0, 9)):
            do, uo = EqLog(dv, "D"), EqLog(uv, "U")
            for rep in range(2):
                del PROBE_LOG[:]
                got = outcome(helpers.neighbors, a, do, uo, None)
                want = outcome(oracle_neighbors, a, dv, uv, None)
                check(same_outcome(got, want), f"probes: options {dv} {uv}: {got!r} / {want!r}")
                logs[(flag, "opt", dv, uv, rep)] = "".join(str(x) for x in PROBE_LOG if isinstance(x, tuple))
            # a lonely vertex: the options are not looked at at all
            del PROBE_LOG[:]
            check(helpers.neighbors(Vertex(), do, uo) == [], "probes: lonely vertex")
            logs[(flag, "lonely", dv, uv)] = "".join(str(x) for x in PROBE_LOG)
    del PROBE_LOG[:]
    digest = hashlib.sha256(repr(sorted(logs.items(), key=repr)).encode()).hexdigest()[:16]
    pin("probe.logs", digest)
    pin("probe.sample", (logs[(True, FWD, U_NB, True, 0)], logs[(True, FWD, U_NB, True, 1)], logs[(False, BWD, U_ERR, True, 0)], logs[(False, "opt", 0, 1, 0)]))
    Vertex.NEIGHBOR_CACHING = True


def part_e_depth():
    """
    How long a chain the recursive traversals manage under a given recursion
    limit -- for a few limits; one level of the recursion is one frame, so a single extra (or missing)
    stack frame anywhere below neighbors() moves the numbers.
    """
    old_limit = sys.getrecursionlimit()
    out = {}
    n = 130
    try:
        for edge in (DirectedEdge, UnDirectedEdge, ProbeEdge):
            Vertex.NEIGHBOR_CACHING = True
            vs = [Vertex(attributes={"i": 1000 + i}) for i in range(n)]
            for i in range(n - 1):
                edge(vs[i], vs[i + 1])
            calls = {
                "dft": lambda s: depthfirst.dft_recursive(None, s),
                "dft_ff": lambda s: depthfirst.dft_recursive(None, s, ff_via=ff_true, ff_result=ff_res),
                "dfs": lambda s: depthfirst.dfs_recursive(None, s, "nosuch", 1),
            }
            for name, call in calls.items():
                for flag in (False, True):
                    if flag:
                        Vertex.NEIGHBOR_CACHING = True
                        call(vs[0])  # warm: from now on every look-up is answered
                    Vertex.NEIGHBOR_CACHING = flag
                    row = []
                    for limit in (100, 101, 105):
                        lo, hi = 1, n  # longest chain (counted from the far end) that works
                        sys.setrecursionlimit(limit)
                        try:
                            while lo < hi:
                                mid = (lo + hi + 1) // 2
                                got = outcome(call, vs[n - mid])
                                if got[0] == "ok":
                                    lo = mid
                                else:
                                    check(got[1] is RecursionError, f"depth: {got!r}")
                                    hi = mid - 1
                        finally:
                            sys.setrecursionlimit(old_limit)
                        row.append(lo)
                    out[(edge.__name__, name, flag)] = tuple(row)
    finally:
        sys.setrecursionlimit(old_limit)
        del PROBE_LOG[:]
    Vertex.NEIGHBOR_CACHING = True
    pin("depth", tuple(sorted(out.items())))


# --------------------------------------------------------------------------
# D. pinned observations (recorded on the unchanged code, CPython 3.12)
# --------------------------------------------------------------------------

EXPECTED = {'cf.first': (6, 2, 0),
 'cf.second': (6, 4, 0),
 'cf.stats': (0, 3, 2, 0, 2),
 'cf.third': (6, 6, 4, 6, 4, 0),
 'child0.0': '(12, 2158, 300, 40, 220)',
 'child0.1': '(12, 2766, 324, 40, 220)',
 'child1.0': '(12, 2158, 300, 40, 220)',
 'child1.1': '(12, 2766, 324, 40, 220)',
 'child2.0': '(12, 2114, 344, 40, 264)',
 'child2.1': '(12, 2722, 368, 40, 264)',
 'curious.nolinks': ('ok', 'exc', 'AttributeError'),
 'depth': ((('DirectedEdge', 'dfs', False), (89, 90, 94)),
           (('DirectedEdge', 'dfs', True), (90, 91, 95)),
           (('DirectedEdge', 'dft', False), (88, 89, 93)),
           (('DirectedEdge', 'dft', True), (89, 90, 94)),
           (('DirectedEdge', 'dft_ff', False), (88, 89, 93)),
           (('DirectedEdge', 'dft_ff', True), (89, 90, 94)),
           (('ProbeEdge', 'dfs', False), (87, 88, 92)),
           (('ProbeEdge', 'dfs', True), (90, 91, 95)),
           (('ProbeEdge', 'dft', False), (86, 87, 91)),
           (('ProbeEdge', 'dft', True), (89, 90, 94)),
           (('ProbeEdge', 'dft_ff', False), (86, 87, 91)),
           (('ProbeEdge', 'dft_ff', True), (89, 90, 94)),
           (('UnDirectedEdge', 'dfs', False), (90, 91, 95)),
           (('UnDirectedEdge', 'dfs', True), (90, 91, 95)),
           (('UnDirectedEdge', 'dft', False), (89, 90, 94)),
           (('UnDirectedEdge', 'dft', True), (89, 90, 94)),
           (('UnDirectedEdge', 'dft_ff', False), (89, 90, 94)),
           (('UnDirectedEdge', 'dft_ff', True), (89, 90, 94))),
 'pickle.lambda': 'AttributeError',
 'probe.logs': '8251d45a71ad4622',
 'probe.sample': ('other(v1v2)v1other(v1v2v1)v1v2other(v1v2)v1other(v1v2)v1v2u1u2',
                  '',
                  'other(v1v2)v2v1other(v1v2v1)v2other(v1v2)v2other(v1v2)v2v1',
                  "('D', '==', 0)('D', '==', 0)('D', '==', 0)('D', '==', 0)('U', '==', 0)('U', "
                  "'==', 1)('D', '==', 0)('D', '==', 0)('U', '==', 0)('U', '==', 1)"),
 'same.links': (1, 1, 2),
 'shallow': ([5], [5], [None, None], [5, 6], [5]),
 'spelling.stats': (0, 4, 3, 0, 2),
 'stats.after_a': (52241, 12520, 3053, 8247),
 'stats.after_b': (297701, 116682, 12145, 57025),
 'stats.start': (0, 0, 0, 0, 0),
 'threads': ((0, 5, 3, 4, 2, 1), (0, 5, 3, 4, 2, 1), (0, 5, 3, 4, 2, 1)),
 'trace': (326467, 'f6cb2adfb2865017'),
 'uid.stats': (1, 0, 1, 0, 1)}


def main():
    if len(sys.argv) >= 2 and sys.argv[1] == "--child":
        return child_main(sys.argv[2], sys.argv[3])

    flag0 = Vertex.NEIGHBOR_CACHING
    check(flag0 is False, "caching is not off by default")
    check(Vertex.total_cache_stats() == "Neighbor caching is DISABLED", "stats text while disabled")
    Vertex.NEIGHBOR_CACHING = True
    pin("stats.start", stats())

    part_a_docs_example()
    part_a_every_mutator()
    part_a_flag_switching()
    part_a_filters()
    part_a_unknown_classes()
    part_a_constructor_corner_cases()
    part_a_identity_and_aliasing()
    part_a_lazy_generators()
    part_a_threads()
    part_a_copies()
    Vertex.NEIGHBOR_CACHING = True
    pin("stats.after_a", stats()[1:])

    trace = Trace()
    part_b(trace)
    pin("trace", (trace.n, trace.digest()))
    Vertex.NEIGHBOR_CACHING = True
    pin("stats.after_b", stats()[1:])

    part_c_parent()
    part_e_probes()
    part_e_depth()

    if "--record" in sys.argv:
        import pprint

        pprint.pprint(PINNED, width=100)
        return 1 if FAILURES else 0

    if sys.version_info[:2] == (3, 12) and sys.implementation.name == "cpython":
        for key in sorted(set(EXPECTED) | set(PINNED)):
            check(
                EXPECTED.get(key) == PINNED.get(key),
                f"pinned observation {key!r}: expected {EXPECTED.get(key)!r}, got {PINNED.get(key)!r}",
            )
    else:
        print("note: pinned observations were recorded on CPython 3.12; skipped")

    if FAILURES:
        print(f"{len(FAILURES)} discrepancies", file=sys.stderr)
        return 1
    print(f"OK ({trace.n} traced observations, digest {trace.digest()})")
    return 0


if __name__ == "__main__":
    sys.exit(main())
