#!/usr/bin/env python3
# -*- coding: utf-8 -*-
"""
equiv.py -- frame property of edgegraph mutations (C03).

Part 1 replays random call sequences over the structure API and the explicit
builder API against a plain reference model (lists of labels) and compares the
whole observable graph and every return value / exception class after every
call, with neighbor caching off and on.  Part 2 checks a few hand-written,
unusual situations against hard-coded expectations.  Part 3 compares a digest
of everything that was observed (including the documented cache statistics
text) with the value recorded on the unchanged library.

Exit status 0 = everything as expected.
"""

import copy
import hashlib
import pickle
import random
import sys

from edgegraph.structure import (
    Vertex,
    Universe,
    Link,
    TwoEndedLink,
    DirectedEdge,
    UnDirectedEdge,
)
from edgegraph.builder import explicit
from edgegraph.traversal import helpers
from edgegraph.output import nrpickler

TRACE = hashlib.sha256()
FAILURES = []


def note(*parts):
    TRACE.update(repr(parts).encode())


def check(cond, msg):
    if not cond:
        FAILURES.append(msg)
        print("FAIL:", msg)


###############################################################################
# reference model


class Model:
    """Plain replay model: everything is a list of labels."""

    def __init__(self):
        self.vlinks = {}  # vertex label -> [link label]
        self.vunis = {}  # vertex label -> [universe label]
        self.ends = {}  # link label -> [vertex label | None]
        self.uverts = {}  # universe label -> [vertex label]
        self.nlinks = 0

    def other(self, lnk, end):
        ends = self.ends[lnk]
        if len(ends) < 2:
            raise IndexError
        if end == ends[0]:
            return ends[1]
        if end == ends[1]:
            return ends[0]
        return None

    def new_edge(self, a, b):
        lbl = f"L{self.nlinks}"
        self.nlinks += 1
        self.ends[lbl] = [a, b]
        for e in (a, b):
            if e is not None and lbl not in self.vlinks[e]:
                self.vlinks[e].append(lbl)
        return lbl

    def link(self, a, b, dontdup):
        if dontdup:
            if a is None:
                raise AttributeError
            for lnk in self.vlinks[a]:
                if self.other(lnk, a) == b:
                    return lnk
        return self.new_edge(a, b)

    def set_end(self, lnk, idx, new):
        ends = self.ends[lnk]
        if len(ends) < 2:
            raise IndexError
        old = ends[idx]
        ends[idx] = new
        if old is not None and old not in ends:
            if lnk in self.vlinks[old]:
                self.vlinks[old].remove(lnk)
        if new is not None and lnk not in self.vlinks[new]:
            self.vlinks[new].append(lnk)

    def unlink_from(self, lnk, kill):
        ends = self.ends[lnk]
        if kill in ends:
            if kill is None:
                ends.remove(None)
            else:
                ends[:] = [e for e in ends if e != kill]
                if lnk in self.vlinks[kill]:
                    self.vlinks[kill].remove(lnk)

    def unlink(self, a, b, destroy):
        if a is None:
            raise AttributeError
        joining = [l for l in self.vlinks[a] if self.other(l, a) == b]
        for lnk in joining:
            self.unlink_from(lnk, a)
            self.unlink_from(lnk, b)
        return None if destroy else set(joining)

    def add_vertex(self, lnk, new):
        self.ends[lnk].append(new)
        if new is not None and lnk not in self.vlinks[new]:
            self.vlinks[new].append(lnk)

    def add_to_link(self, v, lnk):
        if lnk not in self.vlinks[v]:
            self.vlinks[v].append(lnk)
            if v not in self.ends[lnk]:
                self.ends[lnk].append(v)

    def remove_from_link(self, v, lnk):
        if lnk in self.vlinks[v]:
            self.vlinks[v].remove(lnk)
            ends = self.ends[lnk]
            if v in ends:
                ends[:] = [e for e in ends if e != v]

    def neighbors_any(self, v):
        return [self.other(l, v) for l in self.vlinks[v]]

    def find_any(self, a, b):
        return {l for l in self.vlinks[a] if self.other(l, a) == b}

    def uni_add(self, u, v):
        if v in self.uverts[u]:
            return
        self.uverts[u].append(v)
        if u not in self.vunis[v]:
            self.vunis[v].append(u)

    def uni_remove(self, u, v):
        if v not in self.uverts[u]:
            raise ValueError
        self.uverts[u].remove(v)
        if u in self.vunis[v]:
            self.vunis[v].remove(u)

    def v_add_uni(self, v, u):
        if u not in self.vunis[v]:
            self.vunis[v].append(u)
        if v not in self.uverts[u]:
            self.uverts[u].append(v)

    def v_remove_uni(self, v, u):
        if u not in self.vunis[v]:
            raise ValueError
        self.vunis[v].remove(u)
        if v in self.uverts[u]:
            self.uverts[u].remove(v)


###############################################################################
# the real thing, observed through the public API only


class World:
    def __init__(self):
        self.obj = {None: None}  # label -> object
        self.lbl = {id(None): None}  # id(object) -> label
        self.keep = []

    def register(self, label, obj):
        self.obj[label] = obj
        self.lbl[id(obj)] = label
        self.keep.append(obj)

    def label(self, obj):
        return self.lbl[id(obj)]

    def observe(self, model):
        vlinks, vunis, ends, uverts = {}, {}, {}, {}
        for lab in model.vlinks:
            v = self.obj[lab]
            links = v.links
            unis = v.universes
            check(type(links) is tuple, "Vertex.links is not a tuple")
            check(type(unis) is list, "Vertex.universes is not a list")
            vlinks[lab] = [self.label(l) for l in links]
            vunis[lab] = [self.label(u) for u in unis]
        for lab in model.ends:
            verts = self.obj[lab].vertices
            check(type(verts) is tuple, "Link.vertices is not a tuple")
            ends[lab] = [self.label(e) for e in verts]
        for lab in model.uverts:
            verts = self.obj[lab].vertices
            check(type(verts) is list, "Universe.vertices is not a list")
            uverts[lab] = [self.label(e) for e in verts]
        return vlinks, vunis, ends, uverts


def outcome(fn):
    try:
        return ("ok", fn())
    except Exception as exc:  # pylint: disable=broad-except
        return ("exc", type(exc).__name__)


def run_random(seed, caching, steps=260):
    Vertex.NEIGHBOR_CACHING = caching
    Vertex._CACHE_STATS = {}  # the test-suite's own way of resetting the statistics
    rng = random.Random(seed)
    model, world = Model(), World()

    nverts = 5
    for i in range(2):
        lab = f"U{i}"
        world.register(lab, Universe())
        model.vlinks[lab], model.vunis[lab], model.uverts[lab] = [], [], []
    for i in range(nverts):
        lab = f"V{i}"
        world.register(lab, Vertex())
        model.vlinks[lab], model.vunis[lab] = [], []
    verts = list(model.vlinks)
    unis = list(model.uverts)
    ends_pool = verts + [None]
    edge_classes = [DirectedEdge, UnDirectedEdge]

    for step in range(steps):
        links = list(model.ends)
        ops = ["link", "link", "link_fn", "link_fn", "unlink", "unlink",
               "uni", "neighbors", "find"]
        if links:
            ops += ["set", "set", "set", "struct", "struct"]
        op = rng.choice(ops)
        fresh = None

        if op == "link":
            a, b = rng.choice(ends_pool), rng.choice(ends_pool)
            cls = rng.choice(edge_classes)
            desc = (op, cls.__name__, a, b)
            real = outcome(lambda: cls(world.obj[a], world.obj[b]))
            want = outcome(lambda: model.new_edge(a, b))
            fresh = True
        elif op == "link_fn":
            a, b = rng.choice(ends_pool), rng.choice(ends_pool)
            dontdup = rng.choice([True, True, False, 1, 0])
            which = rng.randrange(3)
            desc = (op, which, a, b, dontdup)
            va, vb = world.obj[a], world.obj[b]
            if which == 0:
                real = outcome(lambda: explicit.link_directed(va, vb, dontdup))
            elif which == 1:
                real = outcome(
                    lambda: explicit.link_undirected(va, vb, dontdup=dontdup)
                )
            else:
                real = outcome(
                    lambda: explicit.link_from_to(
                        va, UnDirectedEdge, vb, dontdup=dontdup
                    )
                )
            before = model.nlinks
            want = outcome(lambda: model.link(a, b, dontdup))
            fresh = model.nlinks != before
            if real[0] == "ok" and want[0] == "ok":
                wanted_cls = DirectedEdge if which == 0 else UnDirectedEdge
                if fresh:
                    check(
                        type(real[1]) is wanted_cls,
                        f"seed {seed} step {step}: wrong class created",
                    )
        elif op == "unlink":
            a, b = rng.choice(ends_pool), rng.choice(ends_pool)
            destroy = rng.choice([True, False, False, 0, 1, None])
            desc = (op, a, b, destroy)
            va, vb = world.obj[a], world.obj[b]
            if rng.random() < 0.5:
                real = outcome(lambda: explicit.unlink(va, vb, destroy=destroy))
            else:
                real = outcome(lambda: explicit.unlink(va, vb, destroy))
            want = outcome(lambda: model.unlink(a, b, destroy))
            if real[0] == "ok" and real[1] is not None:
                check(type(real[1]) is set, "unlink did not return a set")
                real = ("ok", {world.label(l) for l in real[1]})
        elif op == "set":
            lnk = rng.choice(links)
            idx = rng.randrange(2)
            new = rng.choice(ends_pool)
            desc = (op, lnk, idx, new)
            obj, vnew = world.obj[lnk], world.obj[new]

            def do_set():
                if idx == 0:
                    obj.v1 = vnew
                else:
                    obj.v2 = vnew

            real = outcome(do_set)
            want = outcome(lambda: model.set_end(lnk, idx, new))
        elif op == "struct":
            lnk = rng.choice(links)
            which = rng.randrange(4)
            obj = world.obj[lnk]
            if which == 0:
                v = rng.choice(ends_pool)
                real = outcome(lambda: obj.unlink_from(world.obj[v]))
                want = outcome(lambda: model.unlink_from(lnk, v))
            elif which == 1:
                v = rng.choice(ends_pool)
                real = outcome(lambda: obj.add_vertex(world.obj[v]))
                want = outcome(lambda: model.add_vertex(lnk, v))
            elif which == 2:
                v = rng.choice(verts)
                real = outcome(lambda: world.obj[v].add_to_link(obj))
                want = outcome(lambda: model.add_to_link(v, lnk))
            else:
                v = rng.choice(verts)
                real = outcome(lambda: world.obj[v].remove_from_link(obj))
                want = outcome(lambda: model.remove_from_link(v, lnk))
            desc = (op, which, lnk, v)
        elif op == "uni":
            u, v = rng.choice(unis), rng.choice(verts)
            which = rng.randrange(4)
            desc = (op, which, u, v)
            ou, ov = world.obj[u], world.obj[v]
            if which == 0:
                real = outcome(lambda: ou.add_vertex(ov))
                want = outcome(lambda: model.uni_add(u, v))
            elif which == 1:
                real = outcome(lambda: ou.remove_vertex(ov))
                want = outcome(lambda: model.uni_remove(u, v))
            elif which == 2:
                real = outcome(lambda: ov.add_to_universe(ou))
                want = outcome(lambda: model.v_add_uni(v, u))
            else:
                real = outcome(lambda: ov.remove_from_universe(ou))
                want = outcome(lambda: model.v_remove_uni(v, u))
        elif op == "neighbors":
            v = rng.choice(verts)
            desc = (op, v)
            real = outcome(
                lambda: helpers.neighbors(
                    world.obj[v], direction_sensitive=helpers.DIR_SENS_ANY
                )
            )
            if real[0] == "ok":
                check(type(real[1]) is list, "neighbors is not a list")
                real = ("ok", [world.label(n) for n in real[1]])
            want = outcome(lambda: model.neighbors_any(v))
        else:
            a, b = rng.choice(verts), rng.choice(ends_pool)
            desc = (op, a, b)
            real = outcome(
                lambda: helpers.find_links(
                    world.obj[a], world.obj[b], direction_sensitive=False
                )
            )
            if real[0] == "ok":
                check(type(real[1]) is set, "find_links is not a set")
                real = ("ok", {world.label(l) for l in real[1]})
            want = outcome(lambda: model.find_any(a, b))

        # a freshly created link object gets the label the model chose
        if fresh and real[0] == "ok" and want[0] == "ok":
            world.register(want[1], real[1])
        if op in ("link", "link_fn") and real[0] == "ok" and want[0] == "ok":
            real = ("ok", world.label(real[1]))

        check(
            real == want,
            f"seed {seed} caching {caching} step {step} {desc}: "
            f"library gave {real}, reference model gave {want}",
        )
        state = world.observe(model)
        expect = (model.vlinks, model.vunis, model.ends, model.uverts)
        check(
            state == expect,
            f"seed {seed} caching {caching} step {step} {desc}: graph differs "
            f"from reference model\n  library: {state}\n  model:   {expect}",
        )
        shown = real
        if real[0] == "ok" and isinstance(real[1], set):
            shown = ("ok", sorted(real[1]))
        note(seed, caching, step, desc, shown, state)
        if FAILURES:
            return

    note("stats", seed, caching, Vertex.total_cache_stats())


###############################################################################
# part 2: hand-written unusual situations


class Names:
    """Stable names for objects, so that observations can be compared."""

    def __init__(self, **objs):
        self.by_id = {id(o): n for n, o in objs.items()}
        self.objs = objs

    def add(self, name, obj):
        self.by_id[id(obj)] = name
        self.objs[name] = obj
        return obj

    def name(self, obj):
        if obj is None or isinstance(obj, (str, int)):
            return repr(obj)
        return self.by_id.get(id(obj), "<unknown>")

    def snap(self):
        out = []
        for name, obj in self.objs.items():
            if isinstance(obj, Vertex):
                out.append(
                    (
                        name,
                        [self.name(l) for l in obj.links],
                        [self.name(u) for u in obj.universes],
                    )
                )
                if isinstance(obj, Universe):
                    out.append((name, [self.name(v) for v in obj.vertices]))
            elif isinstance(obj, Link):
                out.append((name, [self.name(v) for v in obj.vertices]))
        return out


def plain(val):
    if isinstance(val, (list, tuple)):
        return all(plain(x) for x in val)
    return val is None or isinstance(val, (str, int, bool))


def expect(got, want, what):
    # only plain data goes into the digest (object reprs contain addresses)
    note(what, got if plain(got) else (got == want))
    check(got == want, f"{what}: got {got!r}, expected {want!r}")


def scenario_self_loops_and_parallel():
    a, b, c = Vertex(), Vertex(), Vertex()
    n = Names(a=a, b=b, c=c)
    loop = n.add("loop", explicit.link_undirected(a, a))
    p1 = n.add("p1", explicit.link_directed(a, b))
    p2 = n.add("p2", explicit.link_directed(b, a))
    p3 = n.add("p3", explicit.link_undirected(a, b))
    half = n.add("half", DirectedEdge(a, None))
    n.add("bc", explicit.link_directed(b, c))
    expect(
        n.snap(),
        [
            ("a", ["loop", "p1", "p2", "p3", "half"], []),
            ("b", ["p1", "p2", "p3", "bc"], []),
            ("c", ["bc"], []),
            ("loop", ["a", "a"]),
            ("p1", ["a", "b"]),
            ("p2", ["b", "a"]),
            ("p3", ["a", "b"]),
            ("half", ["a", "None"]),
            ("bc", ["b", "c"]),
        ],
        "parallel/self-loop graph",
    )
    # dontdup: any type, either direction, first in a's order
    expect(explicit.link_undirected(a, b, dontdup=True) is p1, True, "dontdup a-b")
    expect(explicit.link_directed(b, a, dontdup=True) is p1, True, "dontdup b-a")
    expect(explicit.link_directed(a, a, dontdup=True) is loop, True, "dontdup a-a")
    expect(explicit.link_directed(a, None, dontdup=True) is half, True, "dontdup a-None")
    expect(
        explicit.link_from_to(c, UnDirectedEdge, b, dontdup=1) is n.objs["bc"],
        True,
        "dontdup c-b truthy flag",
    )
    # moving one end of the loop keeps `a` attached, moving both detaches it
    loop.v1 = c
    expect(
        (n.name(loop.v1), n.name(loop.v2), [n.name(l) for l in a.links],
         [n.name(l) for l in c.links]),
        ("c", "a", ["loop", "p1", "p2", "p3", "half"], ["bc", "loop"]),
        "loop.v1 = c",
    )
    loop.v2 = c
    expect(
        ([n.name(v) for v in loop.vertices], [n.name(l) for l in a.links],
         [n.name(l) for l in c.links]),
        (["c", "c"], ["p1", "p2", "p3", "half"], ["bc", "loop"]),
        "loop.v2 = c",
    )
    # unlink(a, b): every type, both directions, nothing else
    got = explicit.unlink(a, b, destroy=False)
    expect(sorted(n.name(l) for l in got), ["p1", "p2", "p3"], "unlink a b")
    expect(type(got) is set, True, "unlink returns a set")
    expect(
        n.snap(),
        [
            ("a", ["half"], []),
            ("b", ["bc"], []),
            ("c", ["bc", "loop"], []),
            ("loop", ["c", "c"]),
            ("p1", []),
            ("p2", []),
            ("p3", []),
            ("half", ["a", "None"]),
            ("bc", ["b", "c"]),
        ],
        "after unlink a b",
    )
    expect(explicit.unlink(a, b, destroy=False), set(), "unlink a b again")
    expect(explicit.unlink(a, b), None, "unlink a b destroy")
    expect(explicit.unlink(c, c, destroy=[]), {loop}, "unlink self-loop, falsy flag")
    expect(explicit.unlink(a, None, destroy="yes"), None, "unlink a None, truthy flag")
    expect(
        n.snap(),
        [
            ("a", [], []),
            ("b", ["bc"], []),
            ("c", ["bc"], []),
            ("loop", []),
            ("p1", []),
            ("p2", []),
            ("p3", []),
            ("half", []),
            ("bc", ["b", "c"]),
        ],
        "after unlinking loop and half edge",
    )
    expect(outcome(lambda: explicit.unlink(None, a)), ("exc", "AttributeError"), "unlink None a")
    # an emptied edge cannot be re-pointed
    def repoint():
        p1.v1 = a
    expect(outcome(repoint), ("exc", "IndexError"), "set v1 of emptied edge")
    expect(n.snap()[0], ("a", [], []), "a untouched by failed set")


def scenario_many_ended_and_junk():
    a, b, c, d = Vertex(), Vertex(), Vertex(), Vertex()
    n = Names(a=a, b=b, c=c, d=d)
    e = n.add("e", UnDirectedEdge(a, a))
    e.add_vertex(b)
    e.add_vertex(a)
    e.add_vertex(None)
    expect([n.name(v) for v in e.vertices], ["a", "a", "b", "a", "None"], "5 ends")
    e.v1 = c
    e.v2 = d
    expect(
        n.snap(),
        [
            ("a", ["e"], []),
            ("b", ["e"], []),
            ("c", ["e"], []),
            ("d", ["e"], []),
            ("e", ["c", "d", "b", "a", "None"]),
        ],
        "a is still listed further back",
    )
    e.unlink_from(None)
    e.unlink_from(a)
    expect(
        ([n.name(v) for v in e.vertices], list(a.links)),
        (["c", "d", "b"], []),
        "unlink_from None then a",
    )
    def junk():
        e.v1 = "junk"
    expect(outcome(junk), ("exc", "AttributeError"), "junk end")
    expect(
        ([n.name(v) for v in e.vertices], [n.name(l) for l in c.links]),
        (["'junk'", "d", "b"], ["e"]),
        "state left behind by junk end",
    )
    expect(outcome(lambda: DirectedEdge(a, "x")), ("exc", "TypeError"), "ctor junk v2")
    expect(outcome(lambda: UnDirectedEdge(0, a)), ("exc", "TypeError"), "ctor junk v1")
    expect(outcome(lambda: TwoEndedLink(e, a)), ("exc", "TypeError"), "ctor link as v1")
    expect(list(a.links), [], "failed constructors attach nothing")
    expect(outcome(lambda: Link()), ("exc", "TypeError"), "bare Link")
    # failing add_to_link leaves the documented-by-behaviour debris
    expect(outcome(lambda: a.add_to_link(None)), ("exc", "AttributeError"), "add_to_link None")
    expect(a.links, (None,), "debris after add_to_link(None)")
    expect(outcome(lambda: explicit.link_directed(a, b, dontdup=True)), ("exc", "AttributeError"), "dontdup over debris")
    expect(outcome(lambda: explicit.unlink(a, b)), ("exc", "AttributeError"), "unlink over debris")
    expect(type(explicit.link_directed(a, b, dontdup=False)) is DirectedEdge, True, "plain link over debris")


def scenario_equal_not_identical():
    class EqEdge(UnDirectedEdge):
        def __eq__(self, other):
            return isinstance(other, EqEdge)

        def __hash__(self):
            return 7

    class EqVertex(Vertex):
        def __eq__(self, other):
            return isinstance(other, EqVertex)

        def __hash__(self):
            return 11

    class Falsy(Vertex):
        def __bool__(self):
            return False

        def __len__(self):
            return 0

    a, b, c = Vertex(), Vertex(), Vertex()
    n = Names(a=a, b=b, c=c)
    e1 = n.add("e1", EqEdge(a, b))
    e2 = n.add("e2", EqEdge(a, c))
    note("eq edges", n.snap())
    e2.v1 = b
    note("eq edges after set", n.snap())
    note("eq unlink", sorted(n.name(l) for l in explicit.unlink(a, b, destroy=False)))
    note("eq edges after unlink", n.snap())
    e3 = n.add("e3", explicit.link_from_to(b, EqEdge, c))
    note("eq link_from_to", n.snap(), e3 is e1, e3 is e2)
    note("eq dontdup", n.name(explicit.link_from_to(b, EqEdge, c, dontdup=True)))
    b.remove_from_link(e3)
    c.add_to_link(e1)
    note("eq after remove/add", n.snap())

    p, q, r = EqVertex(), EqVertex(), EqVertex()
    m = Names(p=p, q=q, r=r)
    d1 = m.add("d1", DirectedEdge(p, q))
    note("eq verts", m.snap())
    d1.unlink_from(r)
    note("eq verts unlink_from stranger", m.snap())
    d1.v2 = r
    note("eq verts set", m.snap())
    note("eq verts unlink", sorted(m.name(l) for l in explicit.unlink(r, p, destroy=False)))
    note("eq verts after", m.snap())
    d2 = m.add("d2", explicit.link_undirected(p, q, dontdup=True))
    d3 = m.add("d3", explicit.link_undirected(q, p, dontdup=True))
    note("eq verts dontdup", m.snap(), d2 is d3)
    q.remove_from_link(d2)
    note("eq verts remove", m.snap())

    f, g = Falsy(), Falsy()
    k = Names(f=f, g=g)
    fg = k.add("fg", explicit.link_directed(f, g))
    expect(explicit.link_directed(g, f, dontdup=True) is fg, True, "falsy dontdup")
    fg.v1 = g
    expect(k.snap(), [("f", [], []), ("g", ["fg"], []), ("fg", ["g", "g"])], "falsy set")
    fg.v2 = f
    expect(k.snap(), [("f", ["fg"], []), ("g", ["fg"], []), ("fg", ["g", "f"])], "falsy set back")
    expect(explicit.unlink(f, g, destroy=False), {fg}, "falsy unlink")
    expect(k.snap(), [("f", [], []), ("g", [], []), ("fg", [])], "falsy after unlink")


def scenario_find_links_and_callbacks():
    class Odd(TwoEndedLink):
        pass

    a, b = Vertex(), Vertex()
    n = Names(a=a, b=b)
    fwd = n.add("fwd", explicit.link_directed(a, b))
    back = n.add("back", explicit.link_directed(b, a))
    und = n.add("und", explicit.link_undirected(b, a))
    odd = n.add("odd", Odd(a, b))
    n.add("aa", explicit.link_directed(a, a))
    seen = []

    def keep(lnk):
        seen.append(n.name(lnk))
        return lnk is not und

    def names(links):
        return sorted(n.name(l) for l in links)

    NN, NB, ER = (
        helpers.LNK_UNKNOWN_NONNEIGHBOR,
        helpers.LNK_UNKNOWN_NEIGHBOR,
        helpers.LNK_UNKNOWN_ERROR,
    )
    expect(outcome(lambda: helpers.find_links(a, b)), ("exc", "NotImplementedError"), "find unknown error")
    expect(names(helpers.find_links(a, b, unknown_handling=NN)), ["fwd", "und"], "find nonnb")
    expect(names(helpers.find_links(a, b, unknown_handling=NB)), ["fwd", "odd", "und"], "find nb")
    expect(names(helpers.find_links(b, a, unknown_handling=NB)), ["back", "odd", "und"], "find nb reverse")
    expect(names(helpers.find_links(a, b, False)), ["back", "fwd", "odd", "und"], "find any direction")
    expect(names(helpers.find_links(a, b, False, ER, keep)), ["back", "fwd", "odd"], "find filtered")
    expect(seen, ["fwd", "back", "und", "odd"], "filter order, any direction")
    del seen[:]
    expect(names(helpers.find_links(a, b, True, NB, keep)), ["fwd", "odd"], "find filtered directed")
    expect(seen, ["fwd", "und", "odd"], "filter order, directed")
    del seen[:]
    expect(names(helpers.find_links(a, b, True, NN, keep)), ["fwd"], "find filtered nonnb")
    expect(seen, ["fwd", "und"], "filter order, nonnb")
    del seen[:]
    expect(outcome(lambda: helpers.find_links(a, b, True, ER, keep)), ("exc", "NotImplementedError"), "find filtered error")
    expect(seen, ["fwd", "und"], "filter order before the error")
    expect(outcome(lambda: helpers.find_links(a, b, True, 7)), ("exc", "NotImplementedError"), "odd unknown_handling value")

    def boom(lnk):
        raise KeyError(n.name(lnk))

    expect(outcome(lambda: helpers.find_links(a, b, False, ER, boom)), ("exc", "KeyError"), "raising filter")
    expect(helpers.find_links(a, Vertex()), set(), "no links")
    expect(type(helpers.find_links(a, a)) is set, True, "set type")
    expect(names(helpers.find_links(a, a)), ["aa"], "self loop found")
    # unlink removes every type, both directions
    expect(names(explicit.unlink(b, a, destroy=False)), ["back", "fwd", "odd", "und"], "unlink every type")
    expect(
        n.snap(),
        [
            ("a", ["aa"], []),
            ("b", [], []),
            ("fwd", []),
            ("back", []),
            ("und", []),
            ("odd", []),
            ("aa", ["a", "a"]),
        ],
        "after unlink every type",
    )


def scenario_cache_pickle_copy():
    Vertex.NEIGHBOR_CACHING = True
    Vertex._CACHE_STATS = {}
    try:
        u = Universe()
        a, b, c = Vertex(universes=[u]), Vertex(universes=[u]), Vertex()
        n = Names(u=u, a=a, b=b, c=c)
        ab = n.add("ab", explicit.link_directed(a, b))
        note("stats 0", Vertex.total_cache_stats())
        nb = helpers.neighbors(a)
        nb.append("mine")  # the caller owns the answer
        expect([n.name(v) for v in helpers.neighbors(a)], ["b"], "cached neighbors")
        note("stats 1", Vertex.total_cache_stats())
        ab.v2 = c
        expect([n.name(v) for v in helpers.neighbors(a)], ["c"], "neighbors after set")
        expect(helpers.neighbors(b), [], "old end forgot")
        note("stats 2", Vertex.total_cache_stats())
        ab.v2 = c  # same vertex again
        ab.v1 = a
        note("stats 3", Vertex.total_cache_stats())
        twin = copy.copy(a)  # shares a's private containers, as copy.copy does
        helpers.neighbors(twin, helpers.DIR_SENS_ANY)
        ac = n.add("ac", explicit.link_undirected(a, c, dontdup=True))
        expect(ac is ab, True, "dontdup with cache")
        und = n.add("und", explicit.link_undirected(c, a))
        note("twin", [n.name(v) for v in helpers.neighbors(twin, helpers.DIR_SENS_ANY)],
             [n.name(l) for l in twin.links])
        expect([n.name(v) for v in helpers.neighbors(a)], ["c", "c"], "neighbors after link")
        expect([n.name(v) for v in helpers.neighbors(c, helpers.DIR_SENS_ANY)], ["a", "a"], "c any")
        note("stats 4", Vertex.total_cache_stats())
        expect(explicit.unlink(c, a), None, "unlink with cache")
        expect(helpers.neighbors(a), [], "neighbors after unlink")
        expect(helpers.neighbors(c, helpers.DIR_SENS_ANY), [], "c after unlink")
        note("stats 5", Vertex.total_cache_stats())

        # pickling: what comes back is the same graph and is still usable
        keep = n.add("keep", explicit.link_directed(a, b))
        n.add("loop", explicit.link_undirected(b, b))
        helpers.neighbors(a)
        before = n.snap()
        for dump in (nrpickler.dumps, pickle.dumps):
            u2 = pickle.loads(dump(u))
            a2, b2 = u2.vertices
            keep2, loop2 = b2.links
            m = Names(u=u2, a=a2, b=b2, keep=keep2, loop=loop2)
            expect(
                m.snap(),
                [
                    ("u", [], []),
                    ("u", ["a", "b"]),
                    ("a", ["keep"], ["u"]),
                    ("b", ["keep", "loop"], ["u"]),
                    ("keep", ["a", "b"]),
                    ("loop", ["b", "b"]),
                ],
                "unpickled graph",
            )
            expect([m.name(v) for v in helpers.neighbors(a2)], ["b"], "unpickled neighbors")
            keep2.v2 = a2
            expect([m.name(v) for v in helpers.neighbors(a2)], ["a"], "unpickled set")
            expect(explicit.unlink(b2, b2, destroy=False), {loop2}, "unpickled unlink")
            expect(
                m.snap(),
                [
                    ("u", [], []),
                    ("u", ["a", "b"]),
                    ("a", ["keep"], ["u"]),
                    ("b", [], ["u"]),
                    ("keep", ["a", "a"]),
                    ("loop", []),
                ],
                "unpickled graph after mutation",
            )
        expect(n.snap(), before, "original untouched by the copies")
        note("stats 6", Vertex.total_cache_stats())
        expect(keep.other(a) is b, True, "other")
    finally:
        Vertex.NEIGHBOR_CACHING = False
    expect(Vertex.total_cache_stats(), "Neighbor caching is DISABLED", "stats text when off")


###############################################################################

GOLDEN = "d6f0b9a74d4de24222bc0828d8759f46c4280a43e6320de6d45cda23e011be51"


def main():
    for caching in (False, True):
        for seed in range(12):
            run_random(seed, caching)
            if FAILURES:
                break
    Vertex.NEIGHBOR_CACHING = False
    for scenario in (
        scenario_self_loops_and_parallel,
        scenario_many_ended_and_junk,
        scenario_equal_not_identical,
        scenario_find_links_and_callbacks,
        scenario_cache_pickle_copy,
    ):
        note(scenario.__name__)
        try:
            scenario()
        except Exception as exc:  # pylint: disable=broad-except
            check(False, f"{scenario.__name__} raised {exc!r}")
            raise
    digest = TRACE.hexdigest()
    if "--digest" in sys.argv:
        print(digest)
    check(
        digest == GOLDEN,
        f"observation digest {digest} differs from the one recorded on the "
        f"unchanged library ({GOLDEN})",
    )
    if FAILURES:
        print(f"{len(FAILURES)} check(s) failed")
        return 1
    print("equiv.py: all checks passed")
    return 0


if __name__ == "__main__":
    sys.exit(main())
