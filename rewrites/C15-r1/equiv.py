#!/usr/bin/env python3
"""
equiv.py for C15 (PyVis export) -- rewrite 1 (node pass / membership index /
default network kwargs).

Exit status 0 = everything as expected.  Runs make_pyvis_net on a number of
non-trivial universes and compares the COMPLETE observable result (node option
dicts, edge option dicts incl. key order, final ``net.directed``, the sequence
of callback invocations, exception classes) with an independent reference
model written here, and additionally checks the C15 property as stated.
"""

import sys

from edgegraph.structure import (
    Universe,
    Vertex,
    DirectedEdge,
    UnDirectedEdge,
    TwoEndedLink,
)
from edgegraph.builder import explicit
from edgegraph.output import pyvis as egpyvis

FAILS = []


def check(cond, what):
    if not cond:
        FAILS.append(what)
        print("FAIL:", what)


# --------------------------------------------------------------------------
# independent reference model
# --------------------------------------------------------------------------


def reference(uni, rvfunc=None, refunc=None, kwargs=None):
    """
    Returns (nodes, edges, final_directed); nodes = [(id, label)], edges =
    list of [(key, value), ...] item lists in pyvis' option order.
    """
    verts = uni.vertices
    directed_flag = False if kwargs is None else kwargs.get("directed", False)

    def pos(obj):
        found = None
        for k, cand in enumerate(verts):
            if cand is obj:
                found = k
        return found

    nodes = []
    for i, v in enumerate(verts):
        label = rvfunc(v) if rvfunc else hex(id(v))
        nodes.append((i, label if label else i))

    edges = []
    for i, v in enumerate(verts):
        for e in v.links:
            if e.v2 is v and e.v1 is not v:
                continue
            o = e.v2 if e.v1 is v else (e.v1 if e.v2 is v else None)
            j = pos(o)
            if j is None:
                continue
            directed = isinstance(e, DirectedEdge)
            directed_flag = directed
            opts = []
            if refunc:
                try:
                    opts.append(("title", refunc(e)))
                except AssertionError:
                    continue
            if not directed:
                dup = False
                for old in edges:
                    d = dict(old)
                    if (d["from"], d["to"]) in ((i, j), (j, i)):
                        dup = True
                if dup:
                    continue
            opts += [("from", i), ("to", j)]
            if directed:
                opts.append(("arrows", "to"))
            edges.append(opts)
    return nodes, edges, directed_flag


def observed(net):
    nodes = [(n["id"], n["label"]) for n in net.nodes]
    edges = [list(e.items()) for e in net.edges]
    return nodes, edges, net.directed


# --------------------------------------------------------------------------
# the property, as stated
# --------------------------------------------------------------------------


def check_property(name, uni, net, rvfunc):
    verts = uni.vertices
    n = len(verts)
    check(net.get_nodes() == list(range(n)), f"{name}: node ids 0..n-1")
    check(len(net.nodes) == n, f"{name}: one node per member")
    for i, v in enumerate(verts):
        want = rvfunc(v) if rvfunc else hex(id(v))
        check(
            net.get_node(i)["label"] == (want if want else i),
            f"{name}: label of node {i}",
        )
    links = []
    for v in verts:
        for e in v.links:
            if not any(e is x for x in links):
                links.append(e)

    def member(x):
        return any(x is v for v in verts)

    def idx(x):
        return [k for k, v in enumerate(verts) if v is x][0]

    # every edge corresponds to a link
    for ed in net.edges:
        i, j = ed["from"], ed["to"]
        check(0 <= i < n and 0 <= j < n, f"{name}: edge joins member nodes")
        if ed.get("arrows") == "to":
            cands = [
                e
                for e in links
                if isinstance(e, DirectedEdge)
                and e.v1 is verts[i]
                and e.v2 is verts[j]
            ]
            check(cands, f"{name}: arrowed edge {i}->{j} has a directed link")
        else:
            cands = [
                e
                for e in links
                if not isinstance(e, DirectedEdge)
                and {id(e.v1), id(e.v2)} == {id(verts[i]), id(verts[j])}
            ]
            check(cands, f"{name}: plain edge {i}--{j} has an undirected link")
    # one arrowed edge per directed link
    for i in range(n):
        for j in range(n):
            have = sum(
                1
                for ed in net.edges
                if ed["from"] == i and ed["to"] == j and ed.get("arrows")
            )
            want = sum(
                1
                for e in links
                if isinstance(e, DirectedEdge)
                and e.v1 is verts[i]
                and e.v2 is verts[j]
            )
            check(have == want, f"{name}: {want} arrowed edges {i}->{j}")
    # conversely
    for e in links:
        if member(e.v1) and member(e.v2):
            pair = {idx(e.v1), idx(e.v2)}
            check(
                any({ed["from"], ed["to"]} == pair for ed in net.edges),
                f"{name}: link between members {sorted(pair)} is shown",
            )


# --------------------------------------------------------------------------
# worlds
# --------------------------------------------------------------------------


class Tagged(Vertex):
    """vertex subclass carrying unrelated attributes"""


class FancyDirected(DirectedEdge):
    """directed-edge subclass"""


class FancyUndirected(UnDirectedEdge):
    """undirected-edge subclass"""


def world_mixed():
    uni = Universe()
    a, b, c, d = (Tagged(attributes={"i": k, "label": "x"}) for k in range(4))
    for v in (a, b, c, d):
        uni.add_vertex(v)
    out1 = Vertex(attributes={"i": 90})
    out2 = Vertex(attributes={"i": 91})
    # injected attribute from an old implementation; must be ignored
    out1.__make_pyvis_net_i = 2
    out1.i = 90
    explicit.link_directed(a, b)
    explicit.link_directed(a, b)  # parallel
    explicit.link_directed(b, a)  # anti-parallel
    explicit.link_undirected(b, c)
    explicit.link_undirected(c, b)  # parallel undirected, reversed
    explicit.link_directed(c, c)  # directed self-loop
    explicit.link_undirected(d, d)  # undirected self-loop
    explicit.link_directed(a, out1)  # leaves the universe
    explicit.link_directed(out1, b)  # enters the universe
    explicit.link_undirected(out2, d)
    explicit.link_undirected(d, out2)
    explicit.link_directed(out1, out2)
    FancyDirected(d, a)
    FancyUndirected(a, d)
    explicit.link_undirected(a, b)  # undirected next to directed ones
    DirectedEdge(a, None)  # None end
    DirectedEdge(None, b)
    UnDirectedEdge(None, c)
    TwoEndedLink(c, d)  # neither directed nor undirected
    TwoEndedLink(d, c)
    return uni


def world_last_is_undirected():
    uni = Universe()
    a = Vertex(attributes={"i": 0}, universes=[uni])
    b = Vertex(attributes={"i": 1}, universes=[uni])
    explicit.link_directed(a, b)
    explicit.link_undirected(b, a)
    return uni


def world_last_is_directed():
    uni = Universe()
    a = Vertex(attributes={"i": 0}, universes=[uni])
    b = Vertex(attributes={"i": 1}, universes=[uni])
    explicit.link_undirected(a, b)
    explicit.link_directed(b, a)
    return uni


def world_nested():
    outer = Universe()
    inner = Universe(attributes={"i": 7})
    x = Vertex(attributes={"i": 0}, universes=[inner])
    y = Vertex(attributes={"i": 1}, universes=[inner, outer])
    outer.add_vertex(inner)  # a universe as member vertex
    explicit.link_directed(inner, y)
    explicit.link_directed(x, y)  # x is not a member of outer
    explicit.link_undirected(inner, inner)
    return outer, inner


def world_empty():
    return Universe()


def world_no_edges():
    uni = Universe()
    for k in range(3):
        Vertex(attributes={"i": k}, universes=[uni])
    return uni


# --------------------------------------------------------------------------
# run
# --------------------------------------------------------------------------


def compare(name, uni, rvfunc=None, refunc=None, kwargs=None, use_kw=True):
    if use_kw:
        net = egpyvis.make_pyvis_net(
            uni, rvfunc=rvfunc, refunc=refunc, network_kwargs=kwargs
        )
    else:
        net = egpyvis.make_pyvis_net(uni, rvfunc, refunc, kwargs)
    want = reference(uni, rvfunc, refunc, kwargs)
    got = observed(net)
    check(got[0] == want[0], f"{name}: nodes {got[0]} != {want[0]}")
    check(got[1] == want[1], f"{name}: edges {got[1]} != {want[1]}")
    check(got[2] is want[2], f"{name}: net.directed {got[2]} != {want[2]}")
    check_property(name, uni, net, rvfunc)
    return net


def main():
    label = lambda v: f"v{v.i}"  # noqa: E731
    title = lambda e: f"{type(e).__name__}"  # noqa: E731

    worlds = {
        "mixed": world_mixed(),
        "last-undirected": world_last_is_undirected(),
        "last-directed": world_last_is_directed(),
        "nested-outer": world_nested()[0],
        "nested-inner": world_nested()[1],
        "empty": world_empty(),
        "no-edges": world_no_edges(),
    }
    for name, uni in worlds.items():
        compare(name + "/defaults", uni)
        compare(name + "/positional", uni, label, title, None, use_kw=False)
        compare(name + "/rv", uni, rvfunc=label)
        compare(name + "/re", uni, refunc=title)
        net = compare(
            name + "/kwargs",
            uni,
            label,
            title,
            {"cdn_resources": "remote", "directed": True, "heading": "H"},
        )
        check(net.cdn_resources == "remote", f"{name}: kwargs passed")
        check(net.heading == "H", f"{name}: kwargs passed (heading)")
        net = compare(name + "/empty-kwargs", uni, kwargs={})
        check(net.cdn_resources == "local", f"{name}: {{}} kwargs kept")
        net = egpyvis.make_pyvis_net(uni)
        check(net.cdn_resources == "local", f"{name}: default cdn_resources")
        check(not net.conf, f"{name}: no customisation UI by default")
        net2 = egpyvis.pyvis_render_customizable(uni, label, title)
        check(net2.conf, f"{name}: customisable sets conf")
        check(
            observed(net2) == reference(uni, label, title),
            f"{name}: customisable has the same content",
        )

    # the kwargs dict of the caller is neither modified nor kept
    kw = {"cdn_resources": "in_line"}
    net = egpyvis.make_pyvis_net(worlds["mixed"], network_kwargs=kw)
    check(kw == {"cdn_resources": "in_line"}, "caller's kwargs untouched")
    check(net.cdn_resources == "in_line", "in_line passed through")

    # invalid kwargs: pyvis' own errors come through
    for bad, exc in (
        ({"cdn_resources": "nowhere"}, AssertionError),
        ({"no_such_option": 1}, TypeError),
    ):
        try:
            egpyvis.make_pyvis_net(worlds["mixed"], network_kwargs=bad)
        except exc:
            pass
        else:
            check(False, f"bad kwargs {bad} should raise {exc.__name__}")

    # callbacks: order of invocation (all vertices first, in universe order,
    # once each; then the edges), falsy results, falsy callables
    uni = worlds["mixed"]
    log = []

    def rv(v):
        log.append(("v", v.i))
        return "" if v.i == 1 else (0 if v.i == 2 else f"v{v.i}")

    def re_(e):
        log.append(("e", getattr(e.v1, "i", None), getattr(e.v2, "i", None)))
        return None

    net = egpyvis.make_pyvis_net(uni, rv, re_)
    got_log = list(log)
    del log[:]
    want = reference(uni, rv, re_)
    want_log = list(log)
    check(observed(net) == want, "falsy labels / None titles")
    check(got_log == want_log, f"callback order: {got_log} != {want_log}")
    check(
        got_log[:4] == [("v", k) for k in range(4)]
        and all(x[0] == "e" for x in got_log[4:])
        and len(got_log) > 8,
        "rvfunc once per member in universe order, then the edges",
    )
    check(
        [n["label"] for n in net.nodes] == ["v0", 1, 2, "v3"],
        "falsy labels fall back to the node id",
    )

    class FalsyCallable:
        """a callable that is falsy: treated like 'not given'"""

        calls = 0

        def __bool__(self):
            return False

        def __call__(self, obj):
            type(self).calls += 1
            return "never"

    fc = FalsyCallable()
    net = compare("falsy-callables", uni, fc, fc)
    check(FalsyCallable.calls == 0, "falsy callables are not called")
    check(
        [n["label"] for n in net.nodes] == [hex(id(v)) for v in uni.vertices],
        "falsy rvfunc -> hex(id) labels",
    )

    # callbacks that raise
    class Boom(Exception):
        pass

    seen = []

    def rv_boom(v):
        seen.append(v.i)
        if v.i == 2:
            raise Boom()
        return "x"

    try:
        egpyvis.make_pyvis_net(uni, rvfunc=rv_boom)
    except Boom:
        check(seen == [0, 1, 2], f"rvfunc stops at the raising vertex: {seen}")
    else:
        check(False, "rvfunc exception must propagate")

    def rv_assert(v):
        raise AssertionError("from rvfunc")

    try:
        egpyvis.make_pyvis_net(uni, rvfunc=rv_assert)
    except AssertionError:
        pass
    else:
        check(False, "AssertionError of rvfunc must propagate")

    def re_boom(e):
        raise Boom()

    try:
        egpyvis.make_pyvis_net(uni, refunc=re_boom)
    except Boom:
        pass
    else:
        check(False, "refunc exception must propagate")

    count = [0]

    def re_assert_some(e):
        count[0] += 1
        if count[0] % 2 == 0:
            raise AssertionError("skip me")
        return f"t{count[0]}"

    net = egpyvis.make_pyvis_net(uni, refunc=re_assert_some)
    count[0] = 0
    want = reference(uni, None, re_assert_some)
    check(observed(net) == want, "AssertionError in refunc skips that edge")

    # a universe whose rvfunc raising AssertionError on an empty universe
    # is never called
    net = egpyvis.make_pyvis_net(Universe(), rvfunc=rv_assert, refunc=re_boom)
    check(observed(net) == ([], [], False), "empty universe")

    # an edge that lost an end: IndexError comes through
    uni = Universe()
    a = Vertex(attributes={"i": 0}, universes=[uni])
    e = DirectedEdge(a, None)
    e.unlink_from(None)
    try:
        egpyvis.make_pyvis_net(uni)
    except IndexError:
        pass
    else:
        check(False, "one-ended edge should raise IndexError")

    # vertices with value-equality defined: membership is by identity
    class Same(Vertex):
        def __eq__(self, other):
            return isinstance(other, Same)

        def __hash__(self):
            return 1

    uni = Universe()
    m = Same(attributes={"i": 0})
    uni.add_vertex(m)
    outsider = Same(attributes={"i": 1})  # == m, but not a member
    explicit.link_directed(m, outsider)
    explicit.link_directed(outsider, m)
    explicit.link_directed(m, m)
    net = compare("equal-not-identical", uni, lambda v: f"v{v.i}")
    check(len(net.nodes) == 1 and len(net.edges) == 1, "only the self-loop")

    if FAILS:
        print(f"{len(FAILS)} check(s) failed")
        return 1
    print("equiv.py: all checks passed")
    return 0


if __name__ == "__main__":
    sys.exit(main())
