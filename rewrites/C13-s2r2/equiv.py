#!/usr/bin/env python3
# -*- coding: utf-8 -*-
"""
Equivalence / property check for C13 ("read-only operations never change the
graph, even when a user callback raises"), centred on the renderers
edgegraph.output.pyvis.make_pyvis_net / pyvis_render_customizable and
edgegraph.output.plaintext.basic_render (plus, more lightly, plantuml source
generation, nrpickler.dumps and the traversals).

Only the public API is used.  The library is compared against an independent
model (plain Python data, written from the documentation and the property
statement) which predicts

 * the value returned (the text of basic_render; nodes, labels, edges, arrow
   heads, titles and the ``directed`` flag of the pyvis network) or the class
   of the exception raised,
 * the exact sequence of user-callback invocations (rvfunc, refunc, rfunc,
   sort, and the __format__ of whatever rfunc handed back), with arguments,
 * the hit / miss / insertion counters published by
   Vertex.total_cache_stats(),

and, around every single call, vars() and the public views of every vertex,
link, universe and law object are snapshotted and must be unchanged.  After a
call that ended in an exception the same call is repeated with well-behaved
callbacks and must give the normal answer.

Exit status 0 means everything was as expected.
"""

import random
import re
import sys

from edgegraph.structure import (
    BaseObject,
    Vertex,
    Universe,
    TwoEndedLink,
    DirectedEdge,
    UnDirectedEdge,
)
from edgegraph.traversal import helpers, breadthfirst, depthfirst
from edgegraph.output import plaintext, nrpickler, plantuml
from edgegraph.output import pyvis as egpyvis

FWD, ANY, BWD = (
    helpers.DIR_SENS_FORWARD,
    helpers.DIR_SENS_ANY,
    helpers.DIR_SENS_BACKWARD,
)
U_NON, U_NB, U_ERR = (
    helpers.LNK_UNKNOWN_NONNEIGHBOR,
    helpers.LNK_UNKNOWN_NEIGHBOR,
    helpers.LNK_UNKNOWN_ERROR,
)
assert (FWD, ANY, BWD) == (0, 1, 2) and (U_NON, U_NB, U_ERR) == (0, 1, 2)

FAILURES = []
CHECKS = [0]


def check(cond, msg):
    CHECKS[0] += 1
    if not cond:
        FAILURES.append(msg)
        if len(FAILURES) <= 40:
            print("FAIL:", msg)


class Boom(Exception):
    """raised by misbehaving callbacks"""


class BaseBoom(BaseException):
    """a non-Exception exception raised by misbehaving callbacks"""


# --------------------------------------------------------------------------
# classes used as "unusual but legal" inputs


class MyVertex(Vertex):
    pass


class UnknownLink(TwoEndedLink):
    """neither directed nor undirected"""


class SubDirected(DirectedEdge):
    pass


class SubUnDirected(UnDirectedEdge):
    pass


class BothWays(UnDirectedEdge, DirectedEdge):
    """inherits from both: the undirected test comes first"""


KINDS = {
    "U": UnDirectedEdge,
    "D": DirectedEdge,
    "X": UnknownLink,
    "SU": SubUnDirected,
    "SD": SubDirected,
    "UD": BothWays,
}


def kind_class(kind):
    """how the documentation classifies a link class: U, D or X"""
    if kind in ("U", "SU", "UD"):
        return "U"
    if kind in ("D", "SD"):
        return "D"
    return "X"


# --------------------------------------------------------------------------
# cache statistics, read through the public classmethod


def read_stats():
    """(hits, misses, invalidations, insertions), whatever the caching flag"""
    old = Vertex.NEIGHBOR_CACHING
    Vertex.NEIGHBOR_CACHING = True
    try:
        txt = Vertex.total_cache_stats()
    finally:
        Vertex.NEIGHBOR_CACHING = old
    vals = {}
    for line in txt.splitlines():
        m = re.match(r"^(\w+):\s+(-?\d+)$", line.strip())
        if m:
            vals[m.group(1)] = int(m.group(2))
    return (
        vals["Hits"],
        vals["Misses"],
        vals["Invalidations"],
        vals["Insertions"],
    )


# --------------------------------------------------------------------------
# snapshots


def freeze(x):
    if isinstance(x, (list, tuple)):
        return (type(x).__name__, tuple(freeze(i) for i in x))
    if isinstance(x, (set, frozenset)):
        return (type(x).__name__, tuple(sorted(id(i) for i in x)))
    if isinstance(x, dict):
        return ("dict", tuple((freeze(k), freeze(v)) for k, v in x.items()))
    if isinstance(x, (int, str, float, bool, bytes, type(None))):
        return (type(x).__name__, x)
    return ("obj", id(x))


def snapshot(objs, caching):
    """
    vars() of every object (names, order and values) plus the public views.

    While caching is enabled, private dict-valued attributes are taken to be
    memo tables and are not compared (filling the memo is not a change of the
    graph; whether it is filled at the right moments is checked through the
    published counters instead).  While caching is disabled *everything* is
    compared.
    """
    out = {}
    for o in objs:
        if o is None:
            continue
        items = []
        for k, v in vars(o).items():
            if caching and k.startswith("_") and isinstance(v, dict):
                continue
            items.append((k, freeze(v)))
        pub = [type(o), tuple(items)]
        pub.append(tuple(id(u) for u in o.universes))
        pub.append(o.uid)
        if isinstance(o, Vertex):
            pub.append(tuple(id(l) for l in o.links))
        if isinstance(o, Universe):
            pub.append(tuple(id(v) for v in o.vertices))
            pub.append(id(o.laws))
        if isinstance(o, TwoEndedLink) or hasattr(o, "vertices"):
            pub.append(tuple(id(v) for v in o.vertices))
        if hasattr(o, "applies_to"):
            pub.append(id(o.applies_to))
        out[id(o)] = tuple(pub)
    return out


# --------------------------------------------------------------------------
# callbacks: one specification, two instances (library side / model side)

EVENTS = {"lib": [], "mod": []}


class CB:
    """
    A deterministic callback.  ``lib`` is handed to the library, ``mod`` to the
    model; both log (name, ids of arguments) into a shared per-side event list
    and raise at their k-th invocation when armed with k.
    """

    def __init__(self, name, fn, sided=False):
        self.name = name
        self.fn = fn
        self.sided = sided
        self.fuse = {"lib": None, "mod": None}
        self.exc = Boom
        self.lib = self._make("lib")
        self.mod = self._make("mod")

    def _make(self, side):
        def call(*args):
            EVENTS[side].append((self.name,) + tuple(id(a) for a in args))
            if self.fuse[side] is not None:
                self.fuse[side] -= 1
                if self.fuse[side] == 0:
                    raise self.exc(f"{self.name} misbehaves")
            if self.sided:
                return self.fn(side, *args)
            return self.fn(*args)

        return call

    def arm(self, k, exc=Boom):
        self.fuse = {"lib": k, "mod": k}
        self.exc = exc


# --------------------------------------------------------------------------
# the model


class MLink:
    def __init__(self, kind, a, b, obj):
        self.kind = kind  # key of KINDS
        self.a = a  # v1 (a Vertex object used as an identity token, or None)
        self.b = b  # v2
        self.obj = obj  # the library object (identity token for callbacks)


class Model:
    """
    Plain-data picture of the graph, kept in step by the test as it builds /
    mutates the real graph through the public API.
    """

    def __init__(self):
        self.inc = {}  # id(vertex) -> list of MLink, in attachment order
        self.memo = {}  # id(vertex) -> set of keys
        self.caching = False
        self.stats = [0, 0, 0]  # hits, misses, insertions

    def add_vertex(self, v):
        self.inc[id(v)] = []
        self.memo[id(v)] = set()

    def attach(self, v, ml):
        if ml not in self.inc[id(v)]:
            self.inc[id(v)].append(ml)

    def invalidate_all(self):
        for k in self.memo:
            self.memo[k] = set()

    # -- documented semantics of neighbors()

    @staticmethod
    def other(ml, v):
        if v is ml.a:
            return ml.b
        if v is ml.b:
            return ml.a
        return None

    @staticmethod
    def eq(x, const):
        # the options are compared by value
        return x == const

    def neighbors(self, v, ds=FWD, uh=U_ERR, cb=None):
        if v is None:
            raise AttributeError("None has no neighbors")
        key = (ds, uh, None if cb is None else id(cb))
        if self.caching:
            if key in self.memo[id(v)]:
                self.stats[0] += 1
                hit = True
            else:
                self.stats[1] += 1
                hit = False
        else:
            hit = False
        # (a hit returns what an uncached computation returned earlier; the
        # graph did not change in between, and no callback is invoked)
        out = []
        ff = None if cb is None else cb.mod
        for ml in self.inc[id(v)]:
            far = self.other(ml, v)
            if hit:
                take = self._structural(ml, v, ds, uh)
                if take and (ff is None or cb.fn(ml.obj, far)):
                    out.append(far)
                continue
            take = self._structural(ml, v, ds, uh)
            if take and (ff is None or ff(ml.obj, far)):
                out.append(far)
        if self.caching and not hit:
            self.stats[2] += 1
            self.memo[id(v)].add(key)
        return out

    def _structural(self, ml, v, ds, uh):
        if self.eq(ds, FWD):
            origin, target = ml.a, ml.b
        elif self.eq(ds, BWD):
            origin, target = ml.b, ml.a
        elif self.eq(ds, ANY):
            return True
        else:
            raise ValueError("direction")
        cls = kind_class(ml.kind)
        if cls == "U":
            return True
        if cls == "D":
            if origin is v:
                return True
            if target is v:
                return False
        if self.eq(uh, U_NON):
            return False
        if self.eq(uh, U_NB):
            return True
        raise NotImplementedError("unknown link class")

    # -- documented semantics of find_links()

    def find_links(self, v1, v2, ds=True, uh=U_ERR, cb=None):
        out = []
        ff = None if cb is None else cb.mod
        for ml in self.inc[id(v1)]:
            if self.other(ml, v1) is not v2:
                continue
            if ds:
                cls = kind_class(ml.kind)
                if cls == "U":
                    pass
                elif cls == "D":
                    if ml.a is not v1:
                        continue
                elif self.eq(uh, U_NON):
                    continue
                elif self.eq(uh, U_NB):
                    pass
                else:
                    raise NotImplementedError("unknown link class")
            if ff is None or ff(ml.obj):
                out.append(ml.obj)
        return out

    # -- traversals (textbook algorithms, as documented)

    @staticmethod
    def _member(members, v):
        return (members is None) or any(v is m for m in members)

    @staticmethod
    def _wanted(res, v):
        return True if res is None else bool(res.mod(v))

    def bft(self, members, start, ds, uh, via, res, out):
        if members is not None and len(members) == 0:
            return
        if not self._member(members, start):
            raise ValueError("start")
        seen = [start]
        queue = [start]
        if self._wanted(res, start):
            out.append(start)
        while queue:
            u = queue.pop(0)
            for v in self.neighbors(u, ds, uh, via):
                if not self._member(members, v):
                    continue
                if not any(v is s for s in seen):
                    seen.append(v)
                    queue.append(v)
                    if self._wanted(res, v):
                        out.append(v)

    def _preflight(self, members, start):
        if members is not None and len(members) == 0:
            raise ValueError("empty")
        if not self._member(members, start):
            raise ValueError("start")

    def dft_recursive(self, members, start, ds, uh, via, res, out):
        self._preflight(members, start)
        seen = []

        def rec(v):
            seen.append(v)
            if self._wanted(res, v):
                out.append(v)
            for w in self.neighbors(v, ds, uh, via):
                if not self._member(members, w):
                    continue
                if not any(w is s for s in seen):
                    rec(w)

        rec(start)

    def dft_iterative(self, members, start, ds, uh, via, res, out):
        self._preflight(members, start)
        stack = [start]
        seen = []
        while stack:
            v = stack.pop()
            if any(v is s for s in seen):
                continue
            if not self._member(members, v):
                continue
            seen.append(v)
            if self._wanted(res, v):
                out.append(v)
            stack.extend(self.neighbors(v, ds, uh, via))

    # -- searches

    @staticmethod
    def _match(tags, v, attrib, val):
        if v is None or attrib != "tag":
            return False
        return id(v) in tags and tags[id(v)] == val

    def bfs(self, members, start, attrib, val, tags):
        if members is not None and len(members) == 0:
            return None
        if not self._member(members, start):
            raise ValueError("start")
        if self._match(tags, start, attrib, val):
            return start
        seen = [start]
        queue = [start]
        while queue:
            u = queue.pop(0)
            for v in self.neighbors(u):
                if not self._member(members, v):
                    continue
                if self._match(tags, v, attrib, val):
                    return v
                if not any(v is s for s in seen):
                    seen.append(v)
                    queue.append(v)
        return None

    def dfs_recursive(self, members, start, attrib, val, tags):
        self._preflight(members, start)
        if self._match(tags, start, attrib, val):
            return start
        seen = []

        def rec(v):
            seen.append(v)
            for w in self.neighbors(v):
                if not self._member(members, w):
                    continue
                if not any(w is s for s in seen):
                    if self._match(tags, w, attrib, val):
                        return w
                    got = rec(w)
                    if got is not None:
                        return got
            return None

        return rec(start)

    def dfs_iterative(self, members, start, attrib, val, tags):
        self._preflight(members, start)
        stack = [start]
        seen = []
        while stack:
            v = stack.pop()
            if not self._member(members, v):
                continue
            if any(v is s for s in seen):
                continue
            if self._match(tags, v, attrib, val):
                return v
            seen.append(v)
            stack.extend(self.neighbors(v))
        return None

    # -- plain text rendering

    def basic_render(self, members, rfunc, sort):
        if len(members) == 0:
            return None
        if sort is not None:
            verts = sorted(members, key=sort.mod)
        else:
            verts = list(members)
        lines = []
        for vert in verts:
            head = rfunc.mod(vert) if rfunc is not None else repr(vert)
            head = f"{head} -> "
            nbs = self.neighbors(vert)
            if sort is not None:
                nbs = sorted(nbs, key=sort.mod)
            names = []
            for end in nbs:
                name = rfunc.mod(end) if rfunc is not None else repr(end)
                names.append(f"{name}")
            lines.append(head + ", ".join(names))
        return "\n".join(lines)


    # -- pyvis export: one node per member (numbered in member order), one
    # edge per link between members, drawn from the v1 side; arrows only on
    # directed edges; pyvis itself refuses a second arrow-less edge between a
    # pair of nodes that already has an edge

    def pyvis_net(self, members, rv, re_, directed0=False):
        nodes = []
        for i, v in enumerate(members):
            label = rv.mod(v) if rv is not None else hex(id(v))
            nodes.append((i, label if label else i))
        edges = []
        directed = directed0
        for i, v in enumerate(members):
            if id(v) not in self.inc:
                raise AttributeError("not a vertex")
            for ml in self.inc[id(v)]:
                if v is ml.b and v is not ml.a:
                    continue
                far = self.other(ml, v)
                j = None
                for k, m in enumerate(members):
                    if m is far:
                        j = k
                if j is None:
                    continue
                directed = issubclass(KINDS[ml.kind], DirectedEdge)
                edge = {}
                if re_ is not None:
                    try:
                        edge["title"] = re_.mod(ml.obj)
                    except AssertionError:
                        continue
                edge["from"] = i
                edge["to"] = j
                if directed:
                    edge["arrows"] = "to"
                elif any(
                    (e["from"], e["to"]) in ((i, j), (j, i)) for e in edges
                ):
                    continue
                edges.append(edge)
        return nodes, edges, directed


# --------------------------------------------------------------------------
# a world = real graph + model + bookkeeping


class World:
    def __init__(self, rng, caching):
        self.rng = rng
        self.caching = caching
        Vertex.NEIGHBOR_CACHING = caching
        self.model = Model()
        self.model.caching = caching
        self.verts = []
        self.links = []  # MLink
        self.unis = []
        self.tags = {}  # id(vertex) -> int (only the vertices that have .tag)
        self.num = {}  # id(obj) -> small int, for deterministic callbacks
        self.num[id(None)] = 0
        self.extra_objs = []

    # -- building through the public API

    def new_vertex(self, cls=Vertex, tag=None, universes=None):
        kwargs = {}
        if tag is not None:
            kwargs["attributes"] = {"tag": tag}
        if universes:
            kwargs["universes"] = universes
        if cls is Universe:
            kwargs.pop("universes", None)
            v = Universe(**kwargs)
            for u in universes or ():
                u.add_vertex(v)
        else:
            v = cls(**kwargs)
        self.verts.append(v)
        self.model.add_vertex(v)
        if tag is not None:
            self.tags[id(v)] = tag
        self.num[id(v)] = len(self.num) * 7 + 3
        return v

    def new_link(self, kind, a, b):
        obj = KINDS[kind](a, b)
        ml = MLink(kind, a, b, obj)
        self.links.append(ml)
        self.num[id(obj)] = len(self.num) * 5 + 1
        for end in (a, b):
            if end is not None:
                self.model.attach(end, ml)
        self.model.invalidate_all()
        self.force_invalidate()
        return ml

    def add_extra_member(self, ml, w):
        """make w a third member of the link (it is neither v1 nor v2)"""
        if w is ml.a or w is ml.b:
            return
        w.add_to_link(ml.obj)
        self.model.attach(w, ml)
        self.model.invalidate_all()
        self.force_invalidate()

    def force_invalidate(self):
        """
        Drop every memo (model and library) so both start level after a
        change of the graph.  Asking a vertex to leave a link it is not in is
        documented to do nothing but it does refresh the vertex' memo.
        """
        for v in self.verts:
            v.remove_from_link(None)

    def all_objects(self):
        objs = list(self.verts) + [ml.obj for ml in self.links] + self.unis
        for u in self.unis + [v for v in self.verts if isinstance(v, Universe)]:
            if u.laws is not None:
                objs.append(u.laws)
        return objs + self.extra_objs

    # -- deterministic callback functions

    def n(self, obj):
        return self.num.get(id(obj), 0)


TRUTHY = [True, 1, "y", (0,), 2.5]
FALSY = [False, 0, "", None, ()]


def make_callbacks(world, salt):
    n = world.n

    def via_fn(link, far):
        x = (n(link) * 3 + n(far) + salt) % 5
        return FALSY[(n(link) + salt) % 5] if x == 0 else TRUTHY[x]

    def res_fn(v):
        x = (n(v) + salt) % 4
        return FALSY[(n(v) + salt) % 5] if x == 0 else TRUTHY[x]

    def fl_fn(link):
        x = (n(link) + salt) % 3
        return FALSY[(n(link) + salt) % 5] if x == 0 else TRUTHY[x]

    def r_fn(v):
        return f"<{n(v)}>"

    def sort_fn(v):
        return (n(v) * 11 + salt) % 13

    return {
        "via": CB("via", via_fn),
        "via2": CB("via2", lambda l, f: True),
        "res": CB("res", res_fn),
        "fl": CB("fl", fl_fn),
        "rfunc": CB("rfunc", r_fn),
        "sort": CB("sort", sort_fn),
    }


# --------------------------------------------------------------------------
# running one operation on both sides


def ids(x):
    if isinstance(x, (list, tuple)):
        return [id(i) for i in x]
    if isinstance(x, (set, frozenset)):
        return sorted(id(i) for i in x)
    if isinstance(x, str) or x is None:
        return x
    return id(x)


def run_side(fn):
    try:
        return ("ok", fn())
    except RecursionError:
        raise
    except BaseException as exc:  # pylint: disable=broad-except
        if isinstance(exc, (KeyboardInterrupt, SystemExit)):
            raise
        return ("exc", type(exc))


def differential(world, label, lib_fn, mod_fn, cbs, arm=None, rearm=True):
    """
    lib_fn / mod_fn: zero-argument callables returning the (id-normalised)
    result.  ``arm``: dict callback-name -> (k, exception class).
    """
    objs = world.all_objects()
    for cb in cbs.values():
        cb.arm(None)
    if arm:
        for name, (k, exc) in arm.items():
            cbs[name].arm(k, exc)
    EVENTS["lib"].clear()
    EVENTS["mod"].clear()

    before = snapshot(objs, world.caching)
    s0 = read_stats()
    m0 = list(world.model.stats)
    got = run_side(lib_fn)
    s1 = read_stats()
    after = snapshot(objs, world.caching)
    want = run_side(mod_fn)
    m1 = list(world.model.stats)

    check(got == want, f"{label}: outcome {got!r} != expected {want!r}")
    check(
        EVENTS["lib"] == EVENTS["mod"],
        f"{label}: callback sequence differs "
        f"(lib {len(EVENTS['lib'])} calls, model {len(EVENTS['mod'])})",
    )
    check(before == after, f"{label}: graph changed by a read-only call")
    dlib = (s1[0] - s0[0], s1[1] - s0[1], s1[3] - s0[3])
    dmod = (m1[0] - m0[0], m1[1] - m0[1], m1[2] - m0[2])
    check(s1[2] == s0[2], f"{label}: a read-only call invalidated a memo")
    if world.caching:
        check(
            dlib == dmod,
            f"{label}: memo traffic (hits, misses, insertions) {dlib} "
            f"!= expected {dmod}",
        )
    else:
        check(dlib == (0, 0, 0), f"{label}: memo traffic while disabled")

    if got[0] == "exc" and arm and rearm:
        # the same call again, with well-behaved callbacks
        differential(world, label + " [again]", lib_fn, mod_fn, cbs)
    return got


# --------------------------------------------------------------------------
# operations


def op_neighbors(world, cbs, v, ds, uh, cbname):
    cb = cbs[cbname] if cbname else None
    ff = cb.lib if cb else None
    return (
        lambda: ids(helpers.neighbors(v, ds, uh, ff)),
        lambda: ids(world.model.neighbors(v, ds, uh, cb)),
    )


def op_find_links(world, cbs, a, b, ds, uh, cbname):
    cb = cbs[cbname] if cbname else None
    ff = cb.lib if cb else None

    def lib():
        res = helpers.find_links(a, b, ds, uh, ff)
        assert isinstance(res, set)
        return ids(res)

    def mod():
        res = world.model.find_links(a, b, ds, uh, cb)
        return sorted(set(id(x) for x in res))

    return lib, mod


TRAVERSALS = {
    "bft": (breadthfirst.bft, breadthfirst.ibft, "bft"),
    "dft_recursive": (
        depthfirst.dft_recursive,
        depthfirst.idft_recursive,
        "dft_recursive",
    ),
    "dft_iterative": (
        depthfirst.dft_iterative,
        depthfirst.idft_iterative,
        "dft_iterative",
    ),
}


def op_traverse(world, cbs, name, uni, start, ds, uh, vianame, resname, gen):
    listfn, genfn, modname = TRAVERSALS[name]
    via = cbs[vianame] if vianame else None
    res = cbs[resname] if resname else None
    kwargs = {
        "direction_sensitive": ds,
        "unknown_handling": uh,
        "ff_via": via.lib if via else None,
        "ff_result": res.lib if res else None,
    }
    members = None if uni is None else uni.vertices

    if not gen:

        def lib():
            out = listfn(uni, start, **kwargs)
            assert isinstance(out, list)
            return ("full", ids(out))

        def mod():
            out = []
            getattr(world.model, modname)(
                members, start, ds, uh, via, res, out
            )
            return ("full", ids(out))

        return lib, mod

    # generator flavour: what was yielded before any exception counts, too
    def lib():
        out = []
        it = genfn(uni, start, **kwargs)
        try:
            for x in it:
                out.append(x)
        except Exception as exc:  # pylint: disable=broad-except
            if type(exc) is RuntimeError and isinstance(
                exc.__cause__, StopIteration
            ):
                # a StopIteration leaving a generator is turned into a
                # RuntimeError by Python itself
                return ("partial", ids(out), RuntimeError, StopIteration)
            return ("partial", ids(out), type(exc))
        return ("full", ids(out))

    def mod():
        out = []
        try:
            getattr(world.model, modname)(
                members, start, ds, uh, via, res, out
            )
        except StopIteration:
            return ("partial", ids(out), RuntimeError, StopIteration)
        except Exception as exc:  # pylint: disable=broad-except
            return ("partial", ids(out), type(exc))
        return ("full", ids(out))

    return lib, mod


SEARCHES = {
    "bfs": breadthfirst.bfs,
    "dfs_recursive": depthfirst.dfs_recursive,
    "dfs_iterative": depthfirst.dfs_iterative,
}


def op_search(world, name, uni, start, attrib, val):
    members = None if uni is None else uni.vertices
    return (
        lambda: ids(SEARCHES[name](uni, start, attrib, val)),
        lambda: ids(
            getattr(world.model, name)(members, start, attrib, val, world.tags)
        ),
    )


def op_render(world, cbs, uni, rname, sname):
    rf = cbs[rname] if rname else None
    sf = cbs[sname] if sname else None
    return (
        lambda: plaintext.basic_render(
            uni, rf.lib if rf else None, sf.lib if sf else None
        ),
        lambda: world.model.basic_render(uni.vertices, rf, sf),
    )


# --------------------------------------------------------------------------
# the renderers' callbacks


class Fmt:
    """what a render function may hand back: anything format() accepts"""

    def __init__(self, call, obj):
        self.call = call
        self.obj = obj

    def __format__(self, spec):
        if spec != "":
            raise RuntimeError("unexpected format spec")
        return self.call(self.obj)

    def __repr__(self):
        raise RuntimeError("repr() of a render result is not to be used")

    __str__ = __repr__


LABELS = ["", None, 0, "name", "x y", 17, 2.5]


def render_callbacks(world, cbs, salt):
    n = world.n
    fmt = CB("fmt", lambda v: f"[{n(v)}]")

    def rfmt(side, v):
        return Fmt(getattr(fmt, side), v)

    def rv_fn(v):
        x = (n(v) + salt) % 9
        return LABELS[x] if x < len(LABELS) else f"v{n(v)}"

    def re_fn(link):
        x = (n(link) + salt) % 6
        return None if x == 0 else f"e{n(link)}"

    cbs["fmt"] = fmt
    cbs["rfmt"] = CB("rfmt", rfmt, sided=True)
    cbs["rv"] = CB("rv", rv_fn)
    cbs["re"] = CB("re", re_fn)
    return cbs


def net_view(net):
    return (
        [(nd["id"], nd["label"]) for nd in net.nodes],
        [dict(e) for e in net.edges],
        [list(e) for e in net.edges],
        net.directed,
        bool(net.conf),
        list(net.node_ids),
    )


def op_pyvis(world, cbs, uni, rvname, rename, custom=False, kwargs=None):
    rv = cbs[rvname] if rvname else None
    re_ = cbs[rename] if rename else None

    def lib():
        if custom:
            net = egpyvis.pyvis_render_customizable(
                uni,
                rv.lib if rv else None,
                re_.lib if re_ else None,
                ["physics"],
            )
            check(
                net.options.configure.filter == ["physics"],
                "show_buttons filter not passed on",
            )
        elif kwargs is not None:
            mine = dict(kwargs)
            net = egpyvis.make_pyvis_net(
                uni,
                rvfunc=rv.lib if rv else None,
                refunc=re_.lib if re_ else None,
                network_kwargs=mine,
            )
            check(mine == kwargs, "network_kwargs modified")
        else:
            net = egpyvis.make_pyvis_net(
                uni, rv.lib if rv else None, re_.lib if re_ else None
            )
        return net_view(net)

    def mod():
        members = uni.vertices
        d0 = bool(kwargs and kwargs.get("directed", False))
        nodes, edges, directed = world.model.pyvis_net(members, rv, re_, d0)
        return (
            nodes,
            edges,
            [list(e) for e in edges],
            directed,
            custom,
            [i for i, _ in enumerate(members)],
        )

    return lib, mod


def op_plantuml(world, uni, options):
    """
    No model of the text here (its layout is not part of the property): the
    call must be repeatable and is subject to the snapshot comparison.
    """

    def lib():
        first = plantuml.render_to_plantuml_src(uni, options)
        second = plantuml.render_to_plantuml_src(uni, options)
        check(first == second, "plantuml source not repeatable")
        return None if first is None else "text"

    def mod():
        return None if len(uni.vertices) == 0 else "text"

    return lib, mod


def puml_options(urf=None):
    opts = {
        "skinparams": {"dpi": "300"},
        Vertex: {
            "type": "object",
            "stereotype_skinparams": {"BackgroundColor": "White"},
            "show_attrs": ["tag"],
            "title_format": "$id",
        },
        DirectedEdge: {"v1side": "", "v2side": ">"},
        UnDirectedEdge: {"v1side": "", "v2side": ""},
        TwoEndedLink: {"v1side": "x", "v2side": "x"},
        type(None): {"show_attrs": ["^$"], "title_format": "$id"},
    }
    if urf is not None:
        opts[Vertex]["user_render_func"] = urf
    return opts


# --------------------------------------------------------------------------
# scripted corner cases


def scripted(caching):
    rng = random.Random(1)
    w = World(rng, caching)
    uni = Universe()
    small = Universe()
    w.unis.extend([uni, small])
    v = [w.new_vertex(tag=i, universes=[uni]) for i in range(5)]
    loner = w.new_vertex(MyVertex, universes=[uni])
    outsider = w.new_vertex(tag=99)
    inner_uni = w.new_vertex(Universe, tag=7, universes=[uni])
    for x in (v[0], v[1], v[4]):
        small.add_vertex(x)
    cbs = render_callbacks(w, make_callbacks(w, 2), 2)

    w.new_link("D", v[1], v[2])
    w.new_link("D", v[1], v[3])
    w.new_link("D", v[2], v[3])
    w.new_link("D", v[3], v[4])
    w.new_link("D", v[4], v[1])
    w.new_link("D", v[1], v[4])
    w.new_link("D", v[1], v[4])  # parallel, directed: drawn twice
    w.new_link("D", v[0], v[0])  # directed self loop
    w.new_link("U", v[0], v[0])  # undirected self loop: pyvis drops it
    w.new_link("U", v[0], v[1])
    w.new_link("U", v[1], v[0])  # parallel, undirected: drawn once
    w.new_link("SD", v[2], v[0])
    w.new_link("U", v[0], v[2])  # undirected next to a directed one
    w.new_link("SU", v[2], v[4])
    w.new_link("UD", v[4], v[3])
    w.new_link("X", v[3], v[2])
    w.new_link("D", v[3], outsider)
    w.new_link("D", outsider, v[3])
    w.new_link("U", inner_uni, v[1])
    w.new_link("D", inner_uni, inner_uni)
    w.new_link("D", None, v[4])
    w.new_link("U", v[4], None)
    d3 = w.new_link("D", v[0], v[4])
    u3 = w.new_link("U", v[0], v[3])
    w.add_extra_member(d3, loner)
    w.add_extra_member(u3, loner)

    combos = [
        (None, None),
        ("rv", None),
        (None, "re"),
        ("rv", "re"),
    ]
    for un in (uni, small):
        members = len(un.vertices)
        for rvname, rename in combos:
            for custom in (False, True):
                lib, mod = op_pyvis(w, cbs, un, rvname, rename, custom)
                differential(w, "pyvis scripted", lib, mod, cbs)
            for kw in (
                {},
                {"directed": True},
                {"directed": False, "cdn_resources": "remote"},
                {"cdn_resources": "local", "height": "300px"},
            ):
                lib, mod = op_pyvis(w, cbs, un, rvname, rename, False, kw)
                differential(w, f"pyvis kwargs {kw}", lib, mod, cbs)
            # every callback position, several kinds of exception (an
            # AssertionError out of refunc only costs the edge its place)
            for which in (rvname, rename):
                if which is None:
                    continue
                for exc in (Boom, AssertionError, StopIteration, BaseBoom):
                    for k in range(1, 30 if which == "re" else members + 2):
                        for custom in (False, True):
                            lib, mod = op_pyvis(
                                w, cbs, un, rvname, rename, custom
                            )
                            differential(
                                w,
                                f"pyvis {which} raising {exc.__name__}@{k}",
                                lib,
                                mod,
                                cbs,
                                arm={which: (k, exc)},
                            )
        # bad keyword arguments for pyvis: nothing of the universe is looked at
        lib, mod = op_pyvis(w, cbs, un, "rv", "re", False, {"nonsense": 1})
        got = differential(
            w, "pyvis bad kwargs", lib, lambda: (_ for _ in ()).throw(TypeError), cbs
        )
        check(got == ("exc", TypeError), "bad network_kwargs accepted")

    # plain text
    for un in (uni, small):
        for rname in (None, "rfunc", "rfmt"):
            for sname in (None, "sort"):
                lib, mod = op_render(w, cbs, un, rname, sname)
                got = differential(w, "basic_render scripted", lib, mod, cbs)
                if un is small:
                    check(
                        got[0] == "ok"
                        and got[1].count("\n") + 1 == len(un.vertices),
                        "basic_render: one line per vertex",
                    )
                else:
                    # (an unknown link class is met on the way)
                    check(
                        got == ("exc", NotImplementedError),
                        "basic_render: unknown link classes are an error",
                    )
                for which in (rname, sname, "fmt" if rname == "rfmt" else None):
                    if which is None:
                        continue
                    for exc in (Boom, StopIteration, BaseBoom):
                        for k in range(1, 45):
                            lib, mod = op_render(w, cbs, un, rname, sname)
                            differential(
                                w,
                                f"basic_render {which} raising "
                                f"{exc.__name__}@{k}",
                                lib,
                                mod,
                                cbs,
                                arm={which: (k, exc)},
                            )

    # default labels
    got = plaintext.basic_render(small)
    want = "\n".join(
        f"{x!r} -> " + ", ".join(repr(y) for y in w.model.neighbors(x))
        for x in small.vertices
    )
    for x in small.vertices:
        helpers.neighbors(x)  # (keeps model and library memo level)
    check(got == want, "basic_render with default labels")
    w.force_invalidate()
    w.model.invalidate_all()

    # render functions may be any callable; falsy ones count as "not given"
    class Quiet:
        def __init__(self):
            self.calls = 0
            self.bools = 0

        def __bool__(self):
            self.bools += 1
            return False

        def __call__(self, *a):
            self.calls += 1
            return "never"

    q = Quiet()
    check(
        plaintext.basic_render(small, q, q) == plaintext.basic_render(small),
        "falsy callables in basic_render",
    )
    check(q.calls == 0, "falsy callable was called")
    a = net_view(egpyvis.make_pyvis_net(small, q, q))
    b = net_view(egpyvis.make_pyvis_net(small))
    check(a == b and q.calls == 0, "falsy callables in make_pyvis_net")
    w.force_invalidate()
    w.model.invalidate_all()

    # a universe may hold things that are not vertices; the renderers then
    # fail, and always at the same point
    odd = Universe()
    w.unis.append(odd)
    odd.add_vertex(v[1])
    thing = BaseObject()
    odd.add_vertex(thing)
    odd.add_vertex(v[4])
    w.extra_objs.append(thing)
    w.num[id(thing)] = 1234
    lib, mod = op_pyvis(w, cbs, odd, "rv", "re")
    got = differential(w, "pyvis with a non-vertex member", lib, mod, cbs)
    check(got == ("exc", AttributeError), "non-vertex member: AttributeError")
    objs = w.all_objects()
    before = snapshot(objs, caching)
    EVENTS["lib"].clear()
    try:
        plaintext.basic_render(odd, cbs["rfunc"].lib)
        check(False, "basic_render with a non-vertex member")
    except AttributeError:
        pass
    seen = [e[1] for e in EVENTS["lib"]]
    want = [id(v[1])] + [id(x) for x in w.model.neighbors(v[1])] + [id(thing)]
    check(seen == want, "basic_render: callbacks before the failure")
    check(snapshot(objs, caching) == before, "failed render changed things")
    w.force_invalidate()
    w.model.invalidate_all()

    # empty universe
    empty = Universe()
    w.unis.append(empty)
    for rvname, rename in combos:
        lib, mod = op_pyvis(w, cbs, empty, rvname, rename)
        differential(w, "pyvis empty", lib, mod, cbs)
    lib, mod = op_render(w, cbs, empty, "rfunc", "sort")
    got = differential(w, "render empty", lib, mod, cbs)
    check(got == ("ok", None), "basic_render(empty) is None")

    # plantuml source, with and without a user render function that raises
    calls = []

    def urf(vert, options):
        calls.append(vert)
        if len(calls) == urf.fuse:
            raise Boom("user_render_func")
        return f"object {hex(id(vert))}\n"

    urf.fuse = 0
    puml_uni = Universe()
    w.unis.append(puml_uni)
    for x in v:
        puml_uni.add_vertex(x)
    for options in (puml_options(), puml_options(urf)):
        for un in (puml_uni, empty):
            lib, mod = op_plantuml(w, un, options)
            differential(w, "plantuml", lib, mod, cbs)
    for k in range(1, 11):
        # (op_plantuml renders twice: 2 x 5 invocations)
        calls.clear()
        urf.fuse = k
        lib, mod = op_plantuml(w, puml_uni, puml_options(urf))
        got = differential(
            w,
            f"plantuml user_render_func raising@{k}",
            lib,
            lambda: (_ for _ in ()).throw(Boom),
            cbs,
        )
        check(len(calls) == k, "user_render_func: number of invocations")
        calls.clear()
        urf.fuse = 0
        lib, mod = op_plantuml(w, puml_uni, puml_options(urf))
        differential(w, "plantuml again", lib, mod, cbs)

    # traversals and friends still agree with the model
    for name in TRAVERSALS:
        for start in w.verts:
            for ds in (FWD, ANY, BWD):
                lib, mod = op_traverse(
                    w, cbs, name, uni, start, ds, U_NB, "via", "res", False
                )
                differential(w, f"{name} scripted", lib, mod, cbs)
    for vert in w.verts:
        for ds in (FWD, ANY, BWD):
            for uh in (U_NON, U_NB, U_ERR):
                lib, mod = op_neighbors(w, cbs, vert, ds, uh, "via")
                differential(w, "neighbors scripted", lib, mod, cbs)

    # pickling is read-only, too
    objs = w.all_objects()
    before = snapshot(objs, caching)
    s0 = read_stats()
    blob = nrpickler.dumps(uni)
    check(snapshot(objs, caching) == before, "nrpickler.dumps changed things")
    check(read_stats() == s0, "nrpickler.dumps touched the memo counters")
    import dill  # the documented way to load what nrpickler wrote

    clone = dill.loads(blob)
    before = snapshot(objs, caching)
    clone_small = dill.loads(nrpickler.dumps(small))
    check(snapshot(objs, caching) == before, "nrpickler.dumps changed things")
    a = plaintext.basic_render(small, lambda x: str(getattr(x, "tag", "-")))
    b = plaintext.basic_render(
        clone_small, lambda x: str(getattr(x, "tag", "-"))
    )
    check(a == b and a is not None, "pickle round trip renders the same")
    a = net_view(egpyvis.make_pyvis_net(uni, lambda x: "n", lambda e: "e"))
    b = net_view(egpyvis.make_pyvis_net(clone, lambda x: "n", lambda e: "e"))
    check(a == b, "pickle round trip exports the same network")
    w.force_invalidate()
    w.model.invalidate_all()


# --------------------------------------------------------------------------
# seeded random differential part


def random_world(rng, caching):
    w = World(rng, caching)
    nuni = rng.choice([1, 2, 2])
    unis = [Universe() for _ in range(nuni)]
    w.unis.extend(unis)
    nv = rng.choice([0, 1, 2, 3, 4, 5, 6, 8])
    for _ in range(nv):
        cls = rng.choice([Vertex, Vertex, Vertex, MyVertex, Universe])
        member_of = [u for u in unis if rng.random() < 0.75]
        tag = rng.randrange(4) if rng.random() < 0.6 else None
        w.new_vertex(cls, tag=tag, universes=member_of)
    if nv:
        for _ in range(rng.randrange(0, 3 * nv + 3)):
            kind = rng.choice(["U", "D", "D", "U", "SU", "SD", "UD", "X"])
            a = rng.choice(w.verts)
            b = rng.choice(w.verts)
            if rng.random() < 0.03:
                a = None
            elif rng.random() < 0.03:
                b = None
            ml = w.new_link(kind, a, b)
            if rng.random() < 0.05:
                w.add_extra_member(ml, rng.choice(w.verts))
    return w


def random_ops(w, rng, cbs, nops):
    for _ in range(nops):
        what = rng.random()
        arm = None
        uni = rng.choice(w.unis)
        size = len(uni.vertices)
        if what < 0.45:
            rvname = rng.choice([None, "rv"])
            rename = rng.choice([None, "re", "re"])
            cands = [c for c in (rvname, rename) if c]
            if cands and rng.random() < 0.45:
                which = rng.choice(cands)
                arm = {
                    which: (
                        rng.randrange(1, size + 2 if which == "rv" else 12),
                        rng.choice([Boom, Boom, AssertionError]),
                    )
                }
            kw = rng.choice([None, None, {}, {"directed": True}])
            custom = kw is None and rng.random() < 0.3
            lib, mod = op_pyvis(w, cbs, uni, rvname, rename, custom, kw)
            label = "random pyvis"
        elif what < 0.85:
            rname = rng.choice([None, "rfunc", "rfmt"])
            sname = rng.choice([None, "sort"])
            cands = [c for c in (rname, sname) if c]
            if rname == "rfmt":
                cands.append("fmt")
            if cands and rng.random() < 0.45:
                arm = {rng.choice(cands): (rng.randrange(1, 14), Boom)}
            lib, mod = op_render(w, cbs, uni, rname, sname)
            label = "random basic_render"
        elif what < 0.90:
            lib, mod = op_plantuml(w, uni, puml_options())
            label = "random plantuml"
        elif w.verts:
            name = rng.choice(list(TRAVERSALS))
            lib, mod = op_traverse(
                w,
                cbs,
                name,
                uni,
                rng.choice(w.verts),
                rng.choice([FWD, ANY, BWD]),
                rng.choice([U_NON, U_NB, U_ERR]),
                rng.choice([None, "via"]),
                rng.choice([None, "res"]),
                rng.random() < 0.5,
            )
            label = f"random {name}"
        else:
            continue
        differential(w, label, lib, mod, cbs, arm=arm)

        if rng.random() < 0.08 and w.verts:
            w.new_link(
                rng.choice(["U", "D", "X"]),
                rng.choice(w.verts),
                rng.choice(w.verts),
            )


def randomized(seed, worlds, nops):
    rng = random.Random(seed)
    for i in range(worlds):
        caching = bool(i % 2)
        w = random_world(rng, caching)
        salt = rng.randrange(100)
        cbs = render_callbacks(w, make_callbacks(w, salt), salt)
        random_ops(w, rng, cbs, nops)


def main():
    old = Vertex.NEIGHBOR_CACHING
    try:
        for caching in (False, True):
            scripted(caching)
        randomized(20240914, 400, 30)
    finally:
        Vertex.NEIGHBOR_CACHING = old
    print(f"{CHECKS[0]} checks, {len(FAILURES)} failures")
    return 1 if FAILURES else 0


if __name__ == "__main__":
    sys.exit(main())
