#!/usr/bin/env python
# -*- coding: utf-8 -*-
"""
Equivalence / property harness for C12 ("containers handed out or taken in are
snapshots; mutating them changes nothing").

Uses the public API only.  Three layers:

1. scripted corner cases (accessors, edge_whitelist, neighbor cache, pickling,
   neighbors()/find_links() decision matrix, callbacks that raise, ...);
2. a seeded random differential run against an independent pure-Python model
   of the graph (written from the documentation / the property statement):
   after every operation every accessor is read, compared with the model, the
   returned container is vandalised, and everything is read again;
3. a digest of the complete observable trace (return values, exceptions and
   their messages, callback call sequences, total_cache_stats() output), which
   must equal the digest recorded on the unchanged library.

Run as:  PYTHONPATH=<worktree> python equiv.py     (exit status 0 == all good)
         ... equiv.py --digest                      (print the trace digest)
         ... equiv.py --no-golden   (model checks only, skip the digest check)
"""

import copy
import hashlib
import pickle
import random
import sys
import types

import dill

from edgegraph.structure import (
    BaseObject,
    Vertex,
    Link,
    Universe,
    TwoEndedLink,
    DirectedEdge,
    UnDirectedEdge,
)
from edgegraph.structure.universe import UniverseLaws
from edgegraph.traversal import helpers, breadthfirst, depthfirst
from edgegraph.builder import explicit, adjlist, adjmatrix, randgraph
from edgegraph.output import nrpickler, plaintext

#: which part of the library this copy of the harness leans on in its random
#: part: "structure" (accessors, cache bookkeeping) or "traversal" (queries)
FOCUS = "structure"

#: digest of the trace, recorded with the unchanged library
GOLDEN = "136a093ce99cd5690e776a8e354de190828b95d6659e39500498de24f9528e1d"

FWD, ANY, BWD = (
    helpers.DIR_SENS_FORWARD,
    helpers.DIR_SENS_ANY,
    helpers.DIR_SENS_BACKWARD,
)
NON, NBR, ERR = (
    helpers.LNK_UNKNOWN_NONNEIGHBOR,
    helpers.LNK_UNKNOWN_NEIGHBOR,
    helpers.LNK_UNKNOWN_ERROR,
)

###############################################################################
# trace + labels

TRACE = hashlib.sha256()
NTRACE = [0]
KEEP = []  # keeps every labelled object alive, so id() stays unique
LABELS = {}
DEBUG = "--debug" in sys.argv


def lab(obj):
    """Stable label of an object (order of first sight)."""
    if obj is None:
        return "None"
    if isinstance(obj, (int, str, bool, float)):
        return repr(obj)
    key = id(obj)
    if key not in LABELS:
        LABELS[key] = f"{type(obj).__name__}#{len(LABELS)}"
        KEEP.append(obj)
    return LABELS[key]


def labs(seq):
    return "[" + ",".join(lab(x) for x in seq) + "]"


def slabs(aset):
    return "{" + ",".join(sorted(lab(x) for x in aset)) + "}"


def tr(*parts):
    line = " ".join(str(p) for p in parts)
    NTRACE[0] += 1
    TRACE.update(line.encode("utf-8") + b"\n")
    if DEBUG:
        print(line)


def check(cond, *msg):
    if not cond:
        raise AssertionError(" ".join(str(m) for m in msg))


def same_seq(real, expected):
    """Element-wise identity of two sequences."""
    real = list(real)
    expected = list(expected)
    return len(real) == len(expected) and all(
        a is b for a, b in zip(real, expected)
    )


def outcome(func, *args, **kwargs):
    """Run func; give ("ok", value) or ("exc", exception)."""
    try:
        return ("ok", func(*args, **kwargs))
    # pylint: disable-next=broad-exception-caught
    except Exception as exc:
        return ("exc", exc)


def exc_sig(exc):
    return f"{type(exc).__name__}:{exc}"


def stats():
    """Parsed Vertex.total_cache_stats(), or None if caching is off."""
    text = Vertex.total_cache_stats()
    if not Vertex.NEIGHBOR_CACHING:
        check(text == "Neighbor caching is DISABLED", "stats text (off)", text)
        return None
    lines = text.split("\n")
    check(lines[0] == "=== CACHE STATISTICS OVERALL ===", "stats head", text)
    names = ["Size", "Hits", "Misses", "Invalidations", "Insertions"]
    out = {}
    for name, line in zip(names, lines[1:]):
        check(line.startswith(name + ":"), "stats line", line)
        out[name] = int(line.split(":")[1])
    check(len(lines) == 6, "stats length", text)
    return out


class Junk(object):
    """Something that is never part of a graph."""


JUNK = Junk()


def vandalise(container):
    """
    Do the worst possible to a container the library handed out; returns a
    word describing what kind of container it was.
    """
    if container is None:
        return "none"
    if isinstance(container, tuple):
        check(type(container) is tuple, "tuple subclass handed out?")
        return "tuple"
    if isinstance(container, list):
        container.reverse()
        container.append(JUNK)
        container.insert(0, None)
        del container[1:3]
        container.extend([JUNK, JUNK])
        container.clear()
        container.append(JUNK)
        return "list"
    if isinstance(container, set):
        container.add(JUNK)
        container.clear()
        container.add(JUNK)
        return "set"
    if isinstance(container, types.MappingProxyType):
        for action in (
            lambda: container.__setitem__(JUNK, JUNK),
            lambda: container.__delitem__(next(iter(container), JUNK)),
            lambda: container.clear(),
            lambda: container.update({}),
            lambda: container.pop(JUNK, None),
        ):
            res = outcome(action)
            check(
                res[0] == "exc"
                and isinstance(res[1], (TypeError, AttributeError)),
                "mappingproxy accepted a mutation",
                res,
            )
        return "mappingproxy"
    raise AssertionError(f"unexpected container type {type(container)}")


###############################################################################
# user-defined classes used as "unusual but legal" inputs


class Hyper(Link):
    """An n-ended link of a class neighbors() knows nothing about."""

    def other(self, end):
        for vert in self.vertices:
            if vert is not end:
                return vert
        return None


class Town(Vertex):
    """A vertex subclass."""


class Road(DirectedEdge):
    """A directed edge subclass."""


class Path(UnDirectedEdge):
    """An undirected edge subclass."""


###############################################################################
# the model (independent oracle)


class MObj(object):
    """Model of a BaseObject: the universes it is in."""

    def __init__(self, real):
        self.real = real
        self.unis = []
        self.num = None


class MLink(MObj):
    """Model of a link: ordered ends.  kind: D, U, T, H or L."""

    def __init__(self, real, kind):
        super().__init__(real)
        self.kind = kind
        self.ends = []

    def other(self, end):
        ends = self.ends
        if self.kind == "L":
            raise AttributeError("no other()")
        if self.kind == "H":
            for vert in ends:
                if vert is not end:
                    return vert
            return None
        # two-ended family: looks at positions 0 and 1 only
        if len(ends) < 1:
            raise IndexError("v1")
        if end is ends[0]:
            if len(ends) < 2:
                raise IndexError("v2")
            return ends[1]
        if len(ends) < 2:
            raise IndexError("v2")
        if end is ends[1]:
            return ends[0]
        return None


class MVert(MObj):
    """Model of a vertex: ordered links, remembered neighbor answers."""

    def __init__(self, real):
        super().__init__(real)
        self.links = []
        self.memo = {}


class MUni(MVert):
    """Model of a universe: ordered member vertices."""

    def __init__(self, real):
        super().__init__(real)
        self.verts = []


def has(seq, item):
    """`in` with the semantics of the (identity-comparing) library objects."""
    return any(x is item for x in seq)


def drop_first(seq, item):
    for i, x in enumerate(seq):
        if x is item:
            del seq[i]
            return
    raise ValueError("not there")


class World(object):
    """The model world + the bookkeeping shared with the real one."""

    def __init__(self):
        self.verts = []  # MVert and MUni
        self.links = []
        self.others = []  # plain MObj (laws, base objects)
        self.by_id = {}
        self.counter = 0
        self.hits = self.misses = self.inserts = 0

    # -- registry ----------------------------------------------------------
    def register(self, mobj):
        mobj.num = self.counter
        self.counter += 1
        self.by_id[id(mobj.real)] = mobj
        KEEP.append(mobj.real)
        lab(mobj.real)
        if isinstance(mobj, MVert):
            self.verts.append(mobj)
        elif isinstance(mobj, MLink):
            self.links.append(mobj)
        else:
            self.others.append(mobj)
        return mobj

    def m(self, real):
        if real is None:
            return None
        return self.by_id[id(real)]

    def unis(self):
        return [v for v in self.verts if isinstance(v, MUni)]

    def everything(self):
        return self.verts + self.links + self.others

    # -- invalidation ------------------------------------------------------
    @staticmethod
    def touch(verts):
        for vert in verts:
            if vert is not None:
                vert.memo = {}

    # -- structure operations (documented semantics) -------------------------
    def link_add_vertex(self, link, new):
        link.ends.append(new)
        self.touch(link.ends)
        if new is not None and not has(new.links, link):
            new.links.append(link)

    def vert_add_to_link(self, vert, link):
        if not has(vert.links, link):
            vert.links.append(link)
            if not has(link.ends, vert):
                link.ends.append(vert)
                self.touch(link.ends)
        self.touch([vert])

    def link_unlink_from(self, link, kill):
        if has(link.ends, kill):
            self.touch(link.ends)
            if kill is None:
                drop_first(link.ends, None)
            else:
                link.ends = [v for v in link.ends if v is not kill]
                if has(kill.links, link):
                    drop_first(kill.links, link)

    def vert_remove_from_link(self, vert, link):
        if has(vert.links, link):
            drop_first(vert.links, link)
            if has(link.ends, vert):
                self.touch(link.ends)
                link.ends = [v for v in link.ends if v is not vert]
        self.touch([vert])

    def link_set_end(self, link, idx, new):
        if len(link.ends) < 2:
            raise IndexError("end missing")
        old = link.ends[idx]
        self.touch(link.ends)
        link.ends[idx] = new
        self.touch(link.ends)
        if old is not None and not has(link.ends, old):
            if has(old.links, link):
                drop_first(old.links, link)
            self.touch([old])
        if new is not None and not has(new.links, link):
            new.links.append(link)
            self.touch([new])

    def find_links(self, va, vb, dirsens=True, unknown=ERR, pred=None, log=None):
        out = []
        for link in va.links:
            if link.other(va) is not vb:
                continue
            if dirsens:
                if link.kind == "U":
                    pass
                elif link.kind == "D":
                    if link.ends[0] is not va:
                        continue
                else:
                    if unknown == NON:
                        continue
                    if unknown != NBR:
                        raise NotImplementedError("unknown link class")
            if pred is not None:
                if log is not None:
                    log.append(lab(link.real))
                if not pred(link.num):
                    continue
            out.append(link)
        return out

    def unlink(self, va, vb):
        links = self.find_links(va, vb, dirsens=False)
        for link in links:
            self.link_unlink_from(link, va)
            self.link_unlink_from(link, vb)
        return links

    def obj_add_to_universe(self, obj, uni):
        if not has(obj.unis, uni):
            obj.unis.append(uni)
        if isinstance(obj, MVert) and not has(uni.verts, obj):
            uni.verts.append(obj)

    def obj_remove_from_universe(self, obj, uni):
        drop_first(obj.unis, uni)  # ValueError if absent
        if isinstance(obj, MVert) and has(uni.verts, obj):
            drop_first(uni.verts, obj)

    def uni_add_vertex(self, uni, vert):
        if has(uni.verts, vert):
            return
        uni.verts.append(vert)
        if not has(vert.unis, uni):
            vert.unis.append(uni)

    def uni_remove_vertex(self, uni, vert):
        drop_first(uni.verts, vert)  # ValueError if absent
        if has(vert.unis, uni):
            drop_first(vert.unis, uni)

    # -- queries -------------------------------------------------------------
    def compute_neighbors(self, vert, dirsens, unknown, pred, log):
        out = []
        for link in vert.links:
            far = link.other(vert)
            if dirsens == FWD or dirsens == BWD:
                origin, dest = (0, 1) if dirsens == FWD else (1, 0)
                if link.kind == "U":
                    follow = True
                elif link.kind == "D" and link.ends[origin] is vert:
                    follow = True
                elif link.kind == "D" and link.ends[dest] is vert:
                    follow = False
                elif unknown == NON:
                    follow = False
                elif unknown == NBR:
                    follow = True
                else:
                    raise NotImplementedError("unknown link class")
            elif dirsens == ANY:
                follow = True
            else:
                raise ValueError("direction")
            if not follow:
                continue
            if pred is not None:
                log.append((lab(link.real), lab(far.real if far else None)))
                if not pred(link.num, None if far is None else far.num):
                    continue
            out.append(far)
        return out

    def neighbors(self, vert, dirsens, unknown, ffname, log):
        """Mirror of one call of helpers.neighbors(), cache stats included."""
        if vert is None:
            raise AttributeError("None has no neighbors")
        key = (dirsens, unknown, ffname)
        caching = Vertex.NEIGHBOR_CACHING
        if caching:
            if key in vert.memo:
                self.hits += 1
                return list(vert.memo[key])
            self.misses += 1
        out = self.compute_neighbors(
            vert, dirsens, unknown, PREDS[ffname], log
        )
        if caching:
            self.inserts += 1
            vert.memo[key] = tuple(out)
        return out

    def bft(self, uni, start, dirsens, unknown, ffname, log):
        if uni is not None and len(uni.verts) == 0:
            return []
        if uni is not None and not has(uni.verts, start):
            raise ValueError("start")
        out = [start]
        seen = [start]
        queue = [start]
        while queue:
            cur = queue.pop(0)
            for nxt in self.neighbors(cur, dirsens, unknown, ffname, log):
                if uni is not None and not has(uni.verts, nxt):
                    continue
                if not has(seen, nxt):
                    seen.append(nxt)
                    queue.append(nxt)
                    out.append(nxt)
        return out

    def dft(self, uni, start, dirsens, unknown, ffname, log, iterative):
        if uni is not None and len(uni.verts) == 0:
            raise ValueError("empty")
        if uni is not None and not has(uni.verts, start):
            raise ValueError("start")
        out = []
        if iterative:
            stack = [start]
            while stack:
                cur = stack.pop()
                if has(out, cur):
                    continue
                if uni is not None and not has(uni.verts, cur):
                    continue
                out.append(cur)
                stack.extend(
                    self.neighbors(cur, dirsens, unknown, ffname, log)
                )
            return out

        def recur(cur):
            out.append(cur)
            for nxt in self.neighbors(cur, dirsens, unknown, ffname, log):
                if uni is not None and not has(uni.verts, nxt):
                    continue
                if not has(out, nxt):
                    recur(nxt)

        recur(start)
        return out


###############################################################################
# filter functions: pure predicates over creation numbers, shared by the real
# callbacks (which log what they were called with) and by the model

W = World()
REAL_LOG = []


class Boom(Exception):
    """Raised by the exploding filter."""


def _num(real):
    return None if real is None else W.m(real).num


def _p_mod3(lnum, vnum):
    return (lnum + (0 if vnum is None else vnum)) % 3 != 0


def _p_bomb(lnum, vnum):
    if lnum % 4 == 0:
        raise Boom(f"filter exploded on {lnum}")
    return vnum is None or vnum % 2 == 0


def _p_true(lnum, vnum):
    return True


def ff_mod3(link, v2):
    REAL_LOG.append((lab(link), lab(v2)))
    return _p_mod3(_num(link), _num(v2))


def ff_bomb(link, v2):
    REAL_LOG.append((lab(link), lab(v2)))
    return _p_bomb(_num(link), _num(v2))


def ff_true(link, v2):
    REAL_LOG.append((lab(link), lab(v2)))
    # a truthy non-bool
    return [0]


PREDS = {None: None, "mod3": _p_mod3, "bomb": _p_bomb, "true": _p_true}
FUNCS = {None: None, "mod3": ff_mod3, "bomb": ff_bomb, "true": ff_true}


###############################################################################
# audit: read every accessor, compare with the model, vandalise, read again

UID = [1000]


def next_uid():
    UID[0] += 1
    return UID[0]


def reals(mobjs):
    return [None if m is None else m.real for m in mobjs]


def read_accessors(mobj):
    """All containers the public accessors of one object hand out."""
    real = mobj.real
    got = {"universes": real.universes}
    if isinstance(mobj, MVert):
        got["links"] = real.links
    if isinstance(mobj, MUni):
        got["vertices"] = real.vertices
    if isinstance(mobj, MLink):
        got["vertices"] = real.vertices
    return got


def expected_accessors(mobj):
    exp = {"universes": (list, reals(mobj.unis))}
    if isinstance(mobj, MVert):
        exp["links"] = (tuple, reals(mobj.links))
    if isinstance(mobj, MUni):
        exp["vertices"] = (list, reals(mobj.verts))
    if isinstance(mobj, MLink):
        exp["vertices"] = (tuple, reals(mobj.ends))
    return exp


def audit_object(mobj, trace=True):
    exp = expected_accessors(mobj)
    first = read_accessors(mobj)
    second = read_accessors(mobj)
    for name, (typ, content) in exp.items():
        for got in (first[name], second[name]):
            check(type(got) is typ, lab(mobj.real), name, "type", type(got))
            check(
                same_seq(got, content),
                lab(mobj.real),
                name,
                "is",
                labs(got),
                "model says",
                labs(content),
            )
        if typ is list:
            check(first[name] is not second[name], name, "not a fresh list")
        if trace:
            tr("acc", lab(mobj.real), name, typ.__name__, labs(content))
        vandalise(first[name])
    third = read_accessors(mobj)
    for name, (typ, content) in exp.items():
        check(
            type(third[name]) is typ and same_seq(third[name], content),
            lab(mobj.real),
            name,
            "changed after the container handed out was modified",
        )
        # the second copy must not have been affected by the first one either
        check(same_seq(second[name], content), name, "copies share state")
    if isinstance(mobj, MLink) and mobj.kind in "DUT":
        for idx, attr in ((0, "v1"), (1, "v2")):
            res = outcome(getattr, mobj.real, attr)
            if len(mobj.ends) > idx:
                end = mobj.ends[idx]
                check(
                    res[0] == "ok"
                    and res[1] is (None if end is None else end.real),
                    lab(mobj.real),
                    attr,
                )
            else:
                check(
                    res[0] == "exc" and isinstance(res[1], IndexError),
                    lab(mobj.real),
                    attr,
                    "should be missing",
                )


def audit_world(trace=True):
    for mobj in W.everything():
        audit_object(mobj, trace)


def audit_stats(tag):
    got = stats()
    if got is None:
        tr("stats", tag, "off")
        return
    check(got["Hits"] == W.hits, "hits", got, W.hits)
    check(got["Misses"] == W.misses, "misses", got, W.misses)
    check(got["Insertions"] == W.inserts, "insertions", got, W.inserts)
    check(got["Size"] == len(W.verts), "size", got, len(W.verts))
    tr("stats", tag, sorted(got.items()))


def query_neighbors(mvert, dirsens, unknown, ffname, repeat=2):
    """
    Ask the library and the model for neighbors; compare values, exceptions,
    callback sequences; vandalise the answer; ask again.
    """
    for turn in range(repeat):
        del REAL_LOG[:]
        model_log = []
        exp = outcome(W.neighbors, mvert, dirsens, unknown, ffname, model_log)
        got = outcome(
            helpers.neighbors,
            None if mvert is None else mvert.real,
            dirsens,
            unknown,
            FUNCS[ffname],
        )
        check(got[0] == exp[0], "neighbors outcome", got, exp)
        check(REAL_LOG == model_log, "filter calls", REAL_LOG, model_log)
        if got[0] == "ok":
            check(type(got[1]) is list, "neighbors() type", type(got[1]))
            check(
                same_seq(got[1], reals(exp[1])),
                "neighbors",
                lab(mvert.real),
                dirsens,
                unknown,
                ffname,
                labs(got[1]),
                labs(reals(exp[1])),
            )
            tr("nb", lab(mvert.real), dirsens, unknown, ffname, turn,
               labs(got[1]), len(REAL_LOG))
            vandalise(got[1])
        else:
            check(
                type(got[1]) is type(exp[1])
                or (
                    isinstance(exp[1], Boom) and isinstance(got[1], Boom)
                ),
                "neighbors exception",
                repr(got[1]),
                repr(exp[1]),
            )
            tr("nb!", lab(mvert.real if mvert else None), dirsens, unknown,
               ffname, turn, exc_sig(got[1]), len(REAL_LOG))


def query_find_links(ma, mb, dirsens, unknown, use_pred):
    log_real = []
    log_model = []

    def pred(lnum):
        return lnum % 2 == 0

    def func(link):
        log_real.append(lab(link))
        return pred(_num(link))

    exp = outcome(
        W.find_links, ma, mb, dirsens, unknown,
        pred if use_pred else None, log_model,
    )
    got = outcome(
        helpers.find_links,
        ma.real,
        None if mb is None else mb.real,
        dirsens,
        unknown,
        func if use_pred else None,
    )
    check(got[0] == exp[0], "find_links outcome", got, exp)
    check(log_real == log_model, "find_links filter calls")
    if got[0] == "ok":
        check(type(got[1]) is set, "find_links type")
        check(
            len(got[1]) == len(exp[1])
            and all(has(got[1], m.real) for m in exp[1]),
            "find_links",
            slabs(got[1]),
            labs(reals(exp[1])),
        )
        tr("fl", lab(ma.real), lab(mb.real if mb else None), dirsens,
           unknown, use_pred, slabs(got[1]), len(log_real))
        before = expected_accessors(ma)
        vandalise(got[1])
        check(same_seq(ma.real.links, before["links"][1]), "fl snapshot")
    else:
        check(type(got[1]) is type(exp[1]), "find_links exc", got, exp)
        tr("fl!", lab(ma.real), lab(mb.real if mb else None), dirsens,
           unknown, use_pred, exc_sig(got[1]))


def query_traversal(which, muni, mstart, dirsens, unknown, ffname):
    del REAL_LOG[:]
    model_log = []
    uni_real = None if muni is None else muni.real
    kwargs = {
        "direction_sensitive": dirsens,
        "unknown_handling": unknown,
        "ff_via": FUNCS[ffname],
    }
    if which == "bft":
        exp = outcome(W.bft, muni, mstart, dirsens, unknown, ffname, model_log)
        got = outcome(breadthfirst.bft, uni_real, mstart.real, **kwargs)
    elif which == "dfti":
        exp = outcome(
            W.dft, muni, mstart, dirsens, unknown, ffname, model_log, True
        )
        got = outcome(depthfirst.dft_iterative, uni_real, mstart.real, **kwargs)
    else:
        exp = outcome(
            W.dft, muni, mstart, dirsens, unknown, ffname, model_log, False
        )
        got = outcome(depthfirst.dft_recursive, uni_real, mstart.real, **kwargs)
    check(got[0] == exp[0], which, "outcome", got, exp)
    check(REAL_LOG == model_log, which, "filter calls")
    if got[0] == "ok":
        check(type(got[1]) is list, which, "type")
        check(same_seq(got[1], reals(exp[1])), which, labs(got[1]),
              labs(reals(exp[1])))
        tr(which, lab(uni_real), lab(mstart.real), dirsens, unknown, ffname,
           labs(got[1]))
        vandalise(got[1])
    else:
        check(
            type(got[1]) is type(exp[1])
            or (isinstance(exp[1], Boom) and isinstance(got[1], Boom)),
            which, "exception", repr(got[1]), repr(exp[1]),
        )
        tr(which + "!", lab(uni_real), lab(mstart.real), dirsens, unknown,
           ffname, exc_sig(got[1]))


###############################################################################
# constructors that build the real object and its model side by side


def dedupe(seq):
    out = []
    for item in seq:
        if not has(out, item):
            out.append(item)
    return out


def new_vertex(cls=Vertex, unis=(), links=(), as_generator=True):
    unis = list(unis)
    links = list(links)
    real_unis = reals(unis)
    real_links = reals(links)
    attrs = {"i": W.counter}
    real = cls(
        uid=next_uid(),
        attributes=attrs,
        universes=(u for u in real_unis) if as_generator else real_unis,
        links=real_links,
    )
    # the containers given to the constructor are not the object's business
    # any more
    real_unis.clear()
    real_links.append(JUNK)
    attrs["i"] = "changed"
    attrs["j"] = 1
    check(real.i == W.counter and not hasattr(real, "j"), "attributes= leak")
    mvert = W.register(MVert(real))
    mvert.unis = dedupe(unis)
    for link in links:
        W.vert_add_to_link(mvert, link)
    for uni in mvert.unis:
        W.uni_add_vertex(uni, mvert)
    tr("new", lab(real), labs(reals(unis)), labs(reals(links)))
    return mvert


def new_universe(verts=(), as_generator=False):
    verts = list(verts)
    real_verts = reals(verts)
    real = Universe(
        uid=next_uid(),
        vertices=(v for v in real_verts) if as_generator else real_verts,
    )
    real_verts.reverse()
    real_verts.append(JUNK)
    muni = W.register(MUni(real))
    for vert in verts:
        W.uni_add_vertex(muni, vert)
    tr("newuni", lab(real), labs(reals(verts)))
    return muni


def new_link(kind, ends, how=0):
    """ends: list of MVert/None (exactly two unless kind is H or L)."""
    rends = reals(ends)
    if kind == "D":
        if how == 0 and None not in rends:
            real = explicit.link_directed(rends[0], rends[1])
        elif how == 1:
            real = Road(rends[0], rends[1], uid=next_uid())
        else:
            real = DirectedEdge(v1=rends[0], v2=rends[1], uid=next_uid())
    elif kind == "U":
        if how == 0 and None not in rends:
            real = explicit.link_undirected(rends[0], rends[1])
        elif how == 1:
            real = Path(rends[0], rends[1], uid=next_uid())
        else:
            real = UnDirectedEdge(rends[0], rends[1], uid=next_uid())
    elif kind == "T":
        real = TwoEndedLink(rends[0], rends[1], uid=next_uid())
    elif kind == "H":
        given = list(rends)
        real = Hyper(vertices=(v for v in given), uid=next_uid())
        given.clear()
    else:
        given = list(rends)
        real = Link(vertices=given, uid=next_uid(), _force_creation=True)
        given.append(JUNK)
    mlink = W.register(MLink(real, kind))
    for end in ends:
        W.link_add_vertex(mlink, end)
    tr("newlink", kind, lab(real), labs(rends))
    return mlink


###############################################################################
# the random differential run


def apply_both(tag, real_call, model_call, *labels):
    """Run an operation on the library and on the model; same outcome?"""
    got = outcome(real_call)
    exp = outcome(model_call)
    check(got[0] == exp[0], tag, "outcome differs", got, exp, *labels)
    if got[0] == "exc":
        check(type(got[1]) is type(exp[1]), tag, "exception differs", got, exp)
        tr(tag + "!", *labels, exc_sig(got[1]))
    else:
        tr(tag, *labels)
    return got, exp


def random_run(seed, steps, weights):
    rng = random.Random(seed)
    tr("random-run", seed, steps)

    # a starting population
    for _ in range(2):
        new_universe()
    for _ in range(5):
        new_vertex(unis=rng.sample(W.unis(), rng.randint(0, 2)))

    dirs = [FWD, FWD, ANY, BWD, True, 7]
    unks = [ERR, ERR, NBR, NON, 9]
    ffs = [None, None, "mod3", "true", "bomb"]
    names = sorted(weights)
    wts = [weights[n] for n in names]

    def some_vert(allow_none=False, only_plain=False):
        pool = [v for v in W.verts if not (only_plain and isinstance(v, MUni))]
        if allow_none and rng.random() < 0.08:
            return None
        return rng.choice(pool)

    for step in range(steps):
        opname = rng.choices(names, wts)[0]
        tr("step", step, opname, "caching", Vertex.NEIGHBOR_CACHING)

        if opname == "vertex":
            if len(W.verts) < 16:
                links = []
                if W.links and rng.random() < 0.3:
                    links = rng.sample(W.links, min(len(W.links), 2))
                    if rng.random() < 0.5:
                        links.append(links[0])
                unis = rng.choices(W.unis(), k=rng.randint(0, 3))
                new_vertex(
                    cls=rng.choice([Vertex, Town]),
                    unis=unis,
                    links=links,
                    as_generator=rng.random() < 0.5,
                )

        elif opname == "universe":
            if len(W.unis()) < 4:
                new_universe(
                    rng.choices(W.verts, k=rng.randint(0, 4)),
                    as_generator=rng.random() < 0.5,
                )

        elif opname == "link":
            if len(W.links) < 30:
                kind = rng.choice("DDDUUUTHHL" if len(W.links) > 3 else "DU")
                if kind in "DUT":
                    ends = [some_vert(True), some_vert(True)]
                    if rng.random() < 0.15:
                        ends[1] = ends[0]
                else:
                    ends = [some_vert(True) for _ in range(rng.randint(0, 4))]
                new_link(kind, ends, how=rng.randint(0, 2))

        elif opname == "setend" and W.links:
            link = rng.choice(W.links)
            if link.kind in "DUT":
                idx = rng.randint(0, 1)
                new = some_vert(True)
                attr = ("v1", "v2")[idx]
                apply_both(
                    "setend",
                    lambda: setattr(link.real, attr, new and new.real),
                    lambda: W.link_set_end(link, idx, new),
                    lab(link.real), attr, lab(new and new.real),
                )

        elif opname == "unlink":
            va, vb = some_vert(), some_vert(True)
            if rng.random() < 0.5 and va.links:
                # make it likely that something is found
                far = outcome(rng.choice(va.links).other, va)
                if far[0] == "ok":
                    vb = far[1]
            got, exp = apply_both(
                "unlink",
                lambda: explicit.unlink(va.real, vb and vb.real, destroy=False),
                lambda: W.unlink(va, vb),
                lab(va.real), lab(vb and vb.real),
            )
            if got[0] == "ok":
                check(
                    len(got[1]) == len(exp[1])
                    and all(has(got[1], m.real) for m in exp[1]),
                    "unlink result",
                )
                tr("unlinked", slabs(got[1]))
                vandalise(got[1])

        elif opname == "unlink_from" and W.links:
            link = rng.choice(W.links)
            kill = rng.choice(link.ends) if link.ends and rng.random() < 0.8 \
                else some_vert(True)
            apply_both(
                "unlink_from",
                lambda: link.real.unlink_from(kill and kill.real),
                lambda: W.link_unlink_from(link, kill),
                lab(link.real), lab(kill and kill.real),
            )

        elif opname == "remove_from_link" and W.links:
            vert = some_vert()
            link = rng.choice(vert.links) if vert.links and rng.random() < 0.8 \
                else rng.choice(W.links)
            apply_both(
                "remove_from_link",
                lambda: vert.real.remove_from_link(link.real),
                lambda: W.vert_remove_from_link(vert, link),
                lab(vert.real), lab(link.real),
            )

        elif opname == "add_to_link" and W.links:
            vert = some_vert()
            link = rng.choice(W.links)
            if rng.random() < 0.5:
                apply_both(
                    "add_to_link",
                    lambda: vert.real.add_to_link(link.real),
                    lambda: W.vert_add_to_link(vert, link),
                    lab(vert.real), lab(link.real),
                )
            else:
                vert = some_vert(True)
                apply_both(
                    "add_vertex",
                    lambda: link.real.add_vertex(vert and vert.real),
                    lambda: W.link_add_vertex(link, vert),
                    lab(link.real), lab(vert and vert.real),
                )

        elif opname == "universe_op":
            uni = rng.choice(W.unis())
            obj = rng.choice(W.everything())
            which = rng.randint(0, 3)
            if which == 0:
                apply_both(
                    "add_to_universe",
                    lambda: obj.real.add_to_universe(uni.real),
                    lambda: W.obj_add_to_universe(obj, uni),
                    lab(obj.real), lab(uni.real),
                )
            elif which == 1:
                apply_both(
                    "remove_from_universe",
                    lambda: obj.real.remove_from_universe(uni.real),
                    lambda: W.obj_remove_from_universe(obj, uni),
                    lab(obj.real), lab(uni.real),
                )
            elif isinstance(obj, MVert):
                if which == 2:
                    apply_both(
                        "uni.add_vertex",
                        lambda: uni.real.add_vertex(obj.real),
                        lambda: W.uni_add_vertex(uni, obj),
                        lab(uni.real), lab(obj.real),
                    )
                else:
                    apply_both(
                        "uni.remove_vertex",
                        lambda: uni.real.remove_vertex(obj.real),
                        lambda: W.uni_remove_vertex(uni, obj),
                        lab(uni.real), lab(obj.real),
                    )

        elif opname == "toggle":
            Vertex.NEIGHBOR_CACHING = not Vertex.NEIGHBOR_CACHING

        elif opname == "neighbors":
            for _ in range(rng.randint(1, 4)):
                query_neighbors(
                    some_vert(), rng.choice(dirs), rng.choice(unks),
                    rng.choice(ffs), repeat=rng.randint(1, 3),
                )

        elif opname == "find_links":
            va, vb = some_vert(), some_vert(True)
            if rng.random() < 0.6 and va.links:
                far = outcome(rng.choice(va.links).other, va)
                if far[0] == "ok":
                    vb = far[1]
            query_find_links(
                va, vb, rng.choice([True, False, 1, 0, "yes", ""]),
                rng.choice(unks), rng.random() < 0.4,
            )

        elif opname == "traverse":
            uni = rng.choice(W.unis() + [None, None])
            start = some_vert()
            if uni is not None and uni.verts and rng.random() < 0.8:
                start = rng.choice(uni.verts)
            query_traversal(
                rng.choice(["bft", "dfti", "dftr"]), uni, start,
                rng.choice([FWD, FWD, ANY, BWD]), rng.choice([NBR, NON, ERR]),
                rng.choice([None, None, "mod3", "true", "bomb"]),
            )

        audit_world()
        # whatever happened above, every vertex still answers like the model
        for mvert in rng.sample(W.verts, 2):
            query_neighbors(mvert, rng.choice(dirs[:4]), rng.choice(unks[:4]),
                            rng.choice(ffs[:3]), repeat=2)
        audit_stats(step)


###############################################################################
# scripted corner cases (these keep their own, local, stats bookkeeping)


def stat_delta(before, after):
    return [after[k] - before[k] for k in
            ("Size", "Hits", "Misses", "Invalidations", "Insertions")]


def public_vars(obj):
    return sorted(k for k in vars(obj) if not k.startswith("_"))


def scripted_accessors():
    tr("== scripted_accessors")
    for caching in (False, True):
        Vertex.NEIGHBOR_CACHING = caching
        u1 = Universe(uid=next_uid())
        u2 = Universe(uid=next_uid())
        given_unis = [u1, u2, u1, u1]
        given_attrs = {"name": "a", "weight": 3}
        a = Vertex(uid=next_uid(), universes=given_unis, attributes=given_attrs)
        given_unis.clear()
        given_attrs.clear()
        check(same_seq(a.universes, [u1, u2]), "universes= deduplicated copy")
        check(a.name == "a" and a["weight"] == 3, "attributes= copied")
        check(public_vars(a) == ["name", "weight"], public_vars(a))
        check(same_seq(u1.vertices, [a]) and same_seq(u2.vertices, [a]), "u")

        b = Vertex(uid=next_uid(), universes=iter([u2]))
        c = Town(uid=next_uid(), universes=(u for u in ()))
        check(c.universes == [] and type(c.universes) is list, "empty gen")
        e1 = DirectedEdge(a, b, uid=next_uid())
        e2 = UnDirectedEdge(b, a, uid=next_uid())
        loop = DirectedEdge(a, a, uid=next_uid())
        half = DirectedEdge(a, None, uid=next_uid())
        check(same_seq(a.links, [e1, e2, loop, half]), "a.links")
        check(same_seq(loop.vertices, [a, a]), "loop ends")
        check(same_seq(half.vertices, [a, None]), "half ends")
        check(type(a.links) is tuple and type(e1.vertices) is tuple, "tuples")
        check(a.links == a.links and a.universes is not a.universes, "fresh")

        # links= given as a list that is modified afterwards, and a generator
        given_links = [e1, e2, e1]
        d = Vertex(uid=next_uid(), links=given_links)
        given_links.clear()
        check(same_seq(d.links, [e1, e2]), "links= copied", labs(d.links))
        check(same_seq(e1.vertices, [a, b, d]), "link learnt of d")
        g = Vertex(uid=next_uid(), links=(x for x in [loop]))
        check(same_seq(g.links, [loop]) and same_seq(loop.vertices, [a, a, g]),
              "links= generator")

        # Link(vertices=) and Universe(vertices=) copy what they are given
        given_verts = [a, b, None, a]
        hyp = Hyper(vertices=given_verts, uid=next_uid())
        given_verts.reverse()
        given_verts.pop()
        check(same_seq(hyp.vertices, [a, b, None, a]), "vertices= copied")
        given_set = [c, a, c]
        u3 = Universe(uid=next_uid(), vertices=given_set)
        given_set.clear()
        check(same_seq(u3.vertices, [c, a]), "Universe(vertices=) copied")
        check(same_seq(c.universes, [u3]) and same_seq(a.universes, [u1, u2, u3]),
              "membership")

        # every list handed out is detached; both directions
        for obj, attr, content in (
            (a, "universes", [u1, u2, u3]),
            (u3, "vertices", [c, a]),
            (u3, "universes", []),
            (hyp, "universes", []),
        ):
            first = getattr(obj, attr)
            second = getattr(obj, attr)
            check(vandalise(first) == "list", attr)
            check(same_seq(second, content), "sibling copy affected")
            check(same_seq(getattr(obj, attr), content), attr, "affected")
            # ... and later changes of the object do not reach old snapshots
        snap_l, snap_u, snap_v = a.links, a.universes, u3.vertices
        snap_e = e1.vertices
        extra = UnDirectedEdge(a, c, uid=next_uid())
        a.remove_from_universe(u1)
        u3.add_vertex(b)
        e1.v2 = c
        check(same_seq(snap_l, [e1, e2, loop, half, hyp]), "old links snapshot")
        check(same_seq(snap_u, [u1, u2, u3]), "old universes snapshot")
        check(same_seq(snap_v, [c, a]), "old vertices snapshot")
        check(same_seq(snap_e, [a, b, d]), "old ends snapshot")
        check(same_seq(a.links, [e1, e2, loop, half, hyp, extra]), "new links")
        check(same_seq(e1.vertices, [a, c, d]), "new ends", labs(e1.vertices))
        check(same_seq(b.links, [e2, hyp]), "b dropped e1")
        for obj in (a, b, c, d, g, u1, u2, u3, e1, e2, loop, half, hyp, extra):
            tr("acc", caching, lab(obj), labs(obj.universes),
               labs(getattr(obj, "links", ())), labs(getattr(obj, "vertices", ())),
               public_vars(obj))

        # errors leave everything as it was
        res = outcome(a.remove_from_universe, u1)
        check(res[0] == "exc" and type(res[1]) is ValueError, "rm twice")
        res = outcome(u3.remove_vertex, d)
        check(res[0] == "exc" and type(res[1]) is ValueError, "rm absent")
        check(same_seq(a.universes, [u2, u3]) and same_seq(u3.vertices, [c, a, b]),
              "state after failed removals")
        res = outcome(Vertex, attributes=[("x", 1)])
        check(res[0] == "exc" and type(res[1]) is TypeError, "attributes type")
        tr("attr-exc", exc_sig(res[1]))
        res = outcome(Link, vertices=[a])
        check(res[0] == "exc" and type(res[1]) is TypeError, "bare Link")
        tr("link-exc", exc_sig(res[1]))
        res = outcome(DirectedEdge, a, JUNK)
        check(res[0] == "exc" and type(res[1]) is TypeError, "junk end")
        check(same_seq(a.links, [e1, e2, loop, half, hyp, extra]), "no trace")


class LoggedMapping(object):
    """Not a dict: offers items() only, and says when it is called."""

    def __init__(self, name, pairs, log):
        self.name, self.pairs, self.log = name, pairs, log

    def items(self):
        self.log.append(self.name)
        return list(self.pairs)


def scripted_whitelist():
    tr("== scripted_whitelist")
    inner_a = {Vertex: DirectedEdge, Town: Road}
    inner_b = {}
    given = {Vertex: inner_a, Town: inner_b}
    laws = UniverseLaws(edge_whitelist=given, mixed_links=True)

    def expect(laws, content):
        wl = laws.edge_whitelist
        check(type(wl) is types.MappingProxyType, "outer proxy")
        check(list(wl.keys()) == list(content.keys()), "outer keys/order")
        for key, inner in content.items():
            check(type(wl[key]) is types.MappingProxyType, "inner proxy")
            check(list(wl[key].items()) == list(inner.items()), "inner", key)
        return wl

    reference = {Vertex: dict(inner_a), Town: {}}
    first = expect(laws, reference)
    # taken in: a snapshot, two levels deep
    inner_a[Universe] = Path
    del inner_a[Town]
    inner_b[Vertex] = Hyper
    given[Universe] = {}
    del given[Vertex]
    second = expect(laws, reference)
    # handed out: read-only and fresh on each access, two levels deep
    check(first is not second and first[Vertex] is not second[Vertex], "fresh")
    check(first == second, "equal content")
    check(vandalise(first) == "mappingproxy", "outer")
    check(vandalise(first[Vertex]) == "mappingproxy", "inner")
    expect(laws, reference)
    check(laws.mixed_links is True and laws.cycles is True, "other laws")
    tr("wl", sorted(k.__name__ for k in second), public_vars(laws))

    # None, empty, dict subclasses, things that merely have items()
    check(UniverseLaws().edge_whitelist is None, "None stays None")
    check(UniverseLaws(edge_whitelist=None).edge_whitelist is None, "None")
    empty = UniverseLaws(edge_whitelist={})
    check(type(empty.edge_whitelist) is types.MappingProxyType
          and len(empty.edge_whitelist) == 0, "empty whitelist")

    class MyDict(dict):
        pass

    sub = MyDict({int: MyDict({str: float})})
    laws2 = UniverseLaws(sub)
    sub[int][bytes] = bool
    expect(laws2, {int: {str: float}})
    check(type(laws2.edge_whitelist[int]) is types.MappingProxyType, "sub")

    log = []
    pairs_in = [(str, float), (bytes, bool), (str, int)]
    inner = LoggedMapping("inner", pairs_in, log)
    inner2 = LoggedMapping("inner2", [], log)
    outer_pairs = [(int, inner), (float, inner2)]
    outer = LoggedMapping("outer", outer_pairs, log)
    laws3 = UniverseLaws(edge_whitelist=outer)
    tr("wl-calls", log)
    check(log == ["outer", "inner", "inner2"], "items() calls", log)
    pairs_in.append((list, tuple))
    outer_pairs.pop()
    expect(laws3, {int: {str: int, bytes: bool}, float: {}})
    check(log == ["outer", "inner", "inner2"], "no later calls into the input")

    # wrong structures: ValueError chained from the original problem
    bad = [
        ({"cat": "dog"}, AttributeError),
        ([1, 2, 3], AttributeError),
        ({"cat": [1, 2]}, AttributeError),
        (LoggedMapping("o", [(1, 2, 3)], []), ValueError),
        ({int: LoggedMapping("i", [(1, 2, 3)], [])}, ValueError),
        ("text", AttributeError),
        (7, AttributeError),
    ]
    for wrong, cause in bad:
        res = outcome(UniverseLaws, edge_whitelist=wrong)
        check(res[0] == "exc" and type(res[1]) is ValueError, "bad wl", wrong)
        check(type(res[1].__cause__) is cause, "cause", wrong, res[1].__cause__)
        tr("wl-bad", exc_sig(res[1]), type(res[1].__cause__).__name__)
    # ... whereas other exception classes pass through untouched
    for wrong, klass in (
        ({int: LoggedMapping("i", 5, [])}, TypeError),
        ({int: LoggedMapping("i", [([], 1)], [])}, TypeError),
        (LoggedMapping("o", [5], []), TypeError),
    ):
        res = outcome(UniverseLaws, edge_whitelist=wrong)
        check(res[0] == "exc" and type(res[1]) is klass, "raw", wrong, res)
        tr("wl-raw", type(res[1]).__name__)

    # a subclass that catches the error keeps whatever had been stored
    class Lenient(UniverseLaws):
        def __init__(self, **kwargs):
            self.problem = None
            try:
                super().__init__(**kwargs)
            except ValueError as exc:
                self.problem = exc

    len1 = Lenient(edge_whitelist={"cat": "dog"})
    check(isinstance(len1.problem, ValueError), "lenient caught")
    res = outcome(lambda: len1.edge_whitelist)
    check(res[0] == "exc" and type(res[1]) is AttributeError, "lenient read")
    res = outcome(lambda: len1.mixed_links)
    check(res[0] == "exc" and type(res[1]) is AttributeError, "half built")
    tr("wl-lenient", exc_sig(res[1]), public_vars(len1))

    # a subclass overriding the property is consulted by the constructor
    class Odd(UniverseLaws):
        seen = []

        @property
        def edge_whitelist(self):
            Odd.seen.append("read")
            raise ValueError("no whitelist for you")

    res = outcome(Odd)
    check(res[0] == "exc" and type(res[1]) is ValueError
          and str(res[1]) == "Given edge_whitelist is of incorrect structure!",
          "overridden property", res)
    check(Odd.seen == ["read"], "read once")

    # laws <-> universe wiring is not disturbed by any of this
    uni = Universe(uid=next_uid(), laws=laws)
    check(uni.laws is laws and laws.applies_to is uni, "laws wiring")
    expect(uni.laws, reference)

    # pickling (library classes only, so that every pickler saves them by
    # reference)
    ref_p = {Vertex: {Universe: DirectedEdge, Vertex: UnDirectedEdge}, Link: {}}
    laws_p = UniverseLaws(edge_whitelist=copy.deepcopy(ref_p), cycles=False)
    uni_p = Universe(uid=next_uid(), laws=laws_p)
    for dumps, loads in (
        (pickle.dumps, pickle.loads),
        (dill.dumps, dill.loads),
        (nrpickler.dumps, dill.loads),
        (nrpickler.dumps, pickle.loads),
    ):
        back = loads(dumps(uni_p))
        expect(back.laws, ref_p)
        check(back.laws.applies_to is back and back.laws.cycles is False,
              "wiring after pickle")
        check(vandalise(back.laws.edge_whitelist) == "mappingproxy", "pk")
        check(vandalise(back.laws.edge_whitelist[Vertex]) == "mappingproxy", "pk")
        expect(back.laws, ref_p)
    expect(copy.deepcopy(uni_p).laws, ref_p)
    expect(copy.copy(laws_p), ref_p)


HASHLOG = []


class CallableFilter(object):
    """A hashable callable filter that reports every __hash__ / __eq__."""

    def __init__(self, tag, verdict=True):
        self.tag, self.verdict = tag, verdict

    def __call__(self, link, v2):
        HASHLOG.append(("call", self.tag))
        return self.verdict

    def __hash__(self):
        HASHLOG.append(("hash", self.tag))
        return 17

    def __eq__(self, other):
        HASHLOG.append(("eq", self.tag))
        return isinstance(other, CallableFilter) and other.tag[0] == self.tag[0]


class UnhashableFilter(object):
    """Callable, but cannot be part of a dictionary key."""

    __hash__ = None

    def __call__(self, link, v2):
        return True


def keep_all(link, v2):
    """A picklable (module level) filter."""
    return True


def scripted_cache():
    tr("== scripted_cache")
    Vertex.NEIGHBOR_CACHING = True
    a, b, c, d = (Vertex(uid=next_uid(), attributes={"i": i}) for i in range(4))
    before = stats()
    e_ab = explicit.link_directed(a, b)
    e_ac = explicit.link_undirected(a, c)
    e_da = explicit.link_directed(d, a)
    tr("built", stat_delta(before, stats()))

    def nb(vert, *args, **kwargs):
        res = helpers.neighbors(vert, *args, **kwargs)
        check(type(res) is list, "list")
        return res

    # miss, then hits; whatever is done to an answer stays with that answer
    s0 = stats()
    r1 = nb(a)
    check(same_seq(r1, [b, c]), "first answer")
    r1.append(d)
    r1.reverse()
    r2 = nb(a)
    check(same_seq(r2, [b, c]) and r2 is not r1, "answer after vandalism 1")
    r2.clear()
    r3 = nb(a)
    r4 = nb(a)
    check(same_seq(r3, [b, c]) and same_seq(r4, [b, c]), "after vandalism 2")
    check(r3 is not r4 and r3 is not r2, "every call gives a list of its own")
    r3[0] = None
    check(same_seq(r4, [b, c]) and same_seq(nb(a), [b, c]), "no shared list")
    check(stat_delta(s0, stats()) == [0, 4, 1, 0, 1], "1 miss + 4 hits",
          stat_delta(s0, stats()))

    # keys: every argument combination is remembered separately; equal
    # arguments share an entry whatever way they are passed
    s0 = stats()
    check(same_seq(nb(a, ANY), [b, c, d]), "any")
    check(same_seq(nb(a, direction_sensitive=BWD), [c, d]), "bwd")
    check(same_seq(nb(a, FWD, ERR, None), [b, c]), "explicit defaults: hit")
    check(same_seq(nb(a, True), [b, c, d]), "True == DIR_SENS_ANY: hit")
    check(same_seq(nb(a, 0.0, 2.0), [b, c]), "0.0 == 0: hit")
    check(same_seq(nb(a, FWD, NON), [b, c]), "other unknown_handling: miss")
    check(same_seq(nb(a, FWD, ERR, keep_all), [b, c]), "filter: miss")
    check(same_seq(nb(a, FWD, ERR, keep_all), [b, c]), "same filter: hit")
    check(stat_delta(s0, stats()) == [0, 4, 4, 0, 4], stat_delta(s0, stats()))

    # a change anywhere near the vertex is seen at once, in every mode ...
    s0 = stats()
    e_ab.v2 = d
    check(same_seq(nb(a), [d, c]) and same_seq(nb(a, ANY), [d, c, d]), "moved")
    check(same_seq(nb(b, ANY), []) and same_seq(nb(d, BWD), [a]), "b, d")
    tr("after-move", stat_delta(s0, stats()))
    # ... including a change made at the far end of a link only
    s0 = stats()
    check(same_seq(nb(c, ANY), [a]), "c sees a")
    e_ac.v1 = b
    check(same_seq(nb(c, ANY), [b]) and same_seq(nb(a), [d]), "far end moved")
    check(same_seq(nb(b), [c]), "b gained c")
    tr("after-far-move", stat_delta(s0, stats()))

    # switched off: nothing is counted, nothing is stored, nothing is served
    s0 = stats()
    Vertex.NEIGHBOR_CACHING = False
    check(Vertex.total_cache_stats() == "Neighbor caching is DISABLED", "off")
    off1 = nb(a)
    off1.append(JUNK)
    check(same_seq(nb(a), [d]), "off: fresh computation")
    e_ab.v2 = b  # invalidates (silently) what was remembered while on
    check(same_seq(nb(a), [b]), "off: sees the change")
    Vertex.NEIGHBOR_CACHING = True
    check(same_seq(nb(a), [b]), "on again: nothing stale")
    check(stat_delta(s0, stats()) == [0, 0, 1, 0, 1], stat_delta(s0, stats()))
    # an entry stored earlier and not invalidated meanwhile is still served
    s0 = stats()
    Vertex.NEIGHBOR_CACHING = False
    nb(a)
    Vertex.NEIGHBOR_CACHING = True
    check(same_seq(nb(a), [b]), "survived the pause")
    check(stat_delta(s0, stats()) == [0, 1, 0, 0, 0], stat_delta(s0, stats()))

    # enabled on a subclass only
    Vertex.NEIGHBOR_CACHING = False
    t1, t2 = Town(uid=next_uid()), Town(uid=next_uid())
    explicit.link_undirected(t1, t2)
    Town.NEIGHBOR_CACHING = True
    x1 = nb(t1)
    x1.append(JUNK)
    check(same_seq(nb(t1), [t2]), "subclass caching: copy on hit")
    check(Vertex.total_cache_stats() == "Neighbor caching is DISABLED", "cls")
    tr("town", Town.total_cache_stats())
    del Town.NEIGHBOR_CACHING
    Vertex.NEIGHBOR_CACHING = True

    # filters as dictionary keys: unhashable ones cannot be used with the
    # cache (TypeError before anything is counted), but work without it
    s0 = stats()
    res = outcome(helpers.neighbors, a, FWD, ERR, UnhashableFilter())
    check(res[0] == "exc" and type(res[1]) is TypeError, "unhashable", res)
    res = outcome(helpers.neighbors, a, [], ERR)
    check(res[0] == "exc" and type(res[1]) is TypeError, "unhashable dir", res)
    check(stat_delta(s0, stats()) == [0, 0, 0, 0, 0], "nothing counted")
    Vertex.NEIGHBOR_CACHING = False
    check(same_seq(nb(a, FWD, ERR, UnhashableFilter()), [b]), "off: fine")
    res = outcome(helpers.neighbors, a, [], ERR)
    check(res[0] == "exc" and type(res[1]) is ValueError, "bad direction", res)
    tr("baddir", exc_sig(res[1]))
    Vertex.NEIGHBOR_CACHING = True

    # number and order of __hash__/__eq__/__call__ on a filter object
    f1, f1bis, f2 = (CallableFilter("x1"), CallableFilter("x2"),
                     CallableFilter("y", verdict=0))
    for filt in (f1, f1, f1bis, f2, f2, f1):
        del HASHLOG[:]
        res = nb(a, ANY, NON, filt)
        tr("hashlog", filt.tag, labs(res), list(HASHLOG))
    check(same_seq(nb(a, ANY, NON, f1bis), [b, d]), "equal filter shares entry")
    check(same_seq(nb(a, ANY, NON, f2), []), "verdict 0")

    # a filter that raises leaves no entry behind, and the statistics say so
    calls = []

    def grumpy(link, v2):
        calls.append(lab(v2))
        if len(calls) == 2:
            raise Boom("second call")
        return True

    s0 = stats()
    res = outcome(helpers.neighbors, a, ANY, ERR, grumpy)
    check(res[0] == "exc" and type(res[1]) is Boom, "grumpy raised")
    check(stat_delta(s0, stats()) == [0, 0, 1, 0, 0], "miss without insertion")
    res = nb(a, ANY, ERR, grumpy)
    check(same_seq(res, [b, d]) and len(calls) == 4, "recomputed in full", calls)
    check(same_seq(nb(a, ANY, ERR, grumpy), [b, d]) and len(calls) == 4, "hit")
    check(stat_delta(s0, stats()) == [0, 1, 2, 0, 1], stat_delta(s0, stats()))

    # the row of a vertex is re-created by its constructor (same uid)
    s0 = stats()
    twin = Vertex(uid=a.uid)
    tr("twin", stat_delta(s0, stats()))
    check(twin.uid == a.uid and same_seq(nb(twin), []), "twin")
    tr("final", sorted(stats().items()))


def iso_check(orig_uni, copy_uni, ffunc):
    """Is copy_uni a faithful, independent, copy of orig_uni?"""
    overts, cverts = orig_uni.vertices, copy_uni.vertices
    check([v.uid for v in overts] == [v.uid for v in cverts], "vertex uids")
    twin = {id(o): c for o, c in zip(overts, cverts)}
    for orig, cpy in zip(overts, cverts):
        check(cpy is not orig and type(cpy) is type(orig), "a copy")
        check([l.uid for l in orig.links] == [l.uid for l in cpy.links], "links")
        for lo, lc in zip(orig.links, cpy.links):
            check(type(lo) is type(lc) and lo is not lc, "link copy")
            check(
                all(twin[id(x)] is y for x, y in zip(lo.vertices, lc.vertices))
                and len(lo.vertices) == len(lc.vertices),
                "link ends map onto the copies (sharing preserved)",
            )
        check(same_seq(cpy.universes, [copy_uni]), "universe of the copy")
        for dirsens in (FWD, ANY, BWD):
            for filt in (None, ffunc):
                want = [twin[id(x)] for x in
                        helpers.neighbors(orig, dirsens, NBR, filt)]
                got = helpers.neighbors(cpy, dirsens, NBR, filt)
                check(same_seq(got, want), "neighbors of the copy")
                got.clear()
                got = helpers.neighbors(cpy, dirsens, NBR, filt)
                check(same_seq(got, want), "neighbors of the copy, again")


def scripted_pickling():
    tr("== scripted_pickling")
    for caching in (True, False):
        Vertex.NEIGHBOR_CACHING = caching
        rng = random.Random(99)
        verts = [Vertex(uid=next_uid(), attributes={"i": i}) for i in range(9)]
        uni = Universe(uid=next_uid(), vertices=verts)
        for i in range(16):
            va, vb = rng.choice(verts), rng.choice(verts)
            kind = (DirectedEdge, UnDirectedEdge, TwoEndedLink)[i % 3]
            kind(va, vb, uid=next_uid())
        # fill the caches (if on) with several keys, including a filter
        for vert in verts:
            for dirsens in (FWD, ANY, BWD):
                helpers.neighbors(vert, dirsens, NBR)
                helpers.neighbors(vert, dirsens, NBR, keep_all)
        for name, dumps, loads in (
            ("pickle", pickle.dumps, pickle.loads),
            ("dill", dill.dumps, dill.loads),
            ("nrpickler", nrpickler.dumps, dill.loads),
            ("deepcopy", copy.deepcopy, lambda x: x),
        ):
            s0 = stats()
            back = loads(dumps(uni))
            check(stats() == s0, "(un)pickling touches no statistics")
            iso_check(uni, back, keep_all)
            # the copy is independent: changing it leaves the original alone
            bverts = back.vertices
            before = [labs(helpers.neighbors(v, ANY, NBR)) for v in verts]
            explicit.link_directed(bverts[0], bverts[1])
            bverts[2].links[0].unlink_from(bverts[2]) if bverts[2].links else 0
            after = [labs(helpers.neighbors(v, ANY, NBR)) for v in verts]
            check(before == after, "original changed with its copy")
            if s0 is not None:
                tr("pk", name, stat_delta(s0, stats()))
            else:
                tr("pk", name, "off")
        tr("pk-graph", [labs(helpers.neighbors(v, ANY, NBR)) for v in verts])


ACCESS = []


class SpyEdge(DirectedEdge):
    """A directed edge that reports every look at its ends."""

    @property
    def v1(self):
        ACCESS.append("v1:" + lab(self))
        return super().v1

    @v1.setter
    def v1(self, new):
        super()._set_v1(new)

    @property
    def v2(self):
        ACCESS.append("v2:" + lab(self))
        return super().v2

    @v2.setter
    def v2(self, new):
        super()._set_v2(new)

    def other(self, end):
        ACCESS.append("other:" + lab(self))
        return super().other(end)


class SpyPath(UnDirectedEdge):
    """An undirected edge that reports calls of other()."""

    def other(self, end):
        ACCESS.append("other:" + lab(self))
        return super().other(end)


class Both(UnDirectedEdge, DirectedEdge):
    """Directed and undirected at once (undirected is asked first)."""


class Opt(int):
    """An int (as an option value) that reports comparisons and hashing."""

    def __eq__(self, other):
        ACCESS.append(f"eq:{int(self)}=={int(other)}")
        return int(self) == int(other)

    def __ne__(self, other):
        ACCESS.append(f"ne:{int(self)}!={int(other)}")
        return int(self) != int(other)

    def __hash__(self):
        ACCESS.append(f"hash:{int(self)}")
        return hash(int(self))

    def __format__(self, spec):
        return f"Opt({int(self)})"

    __str__ = __repr__ = lambda self: f"Opt({int(self)})"


def scripted_matrix():
    """neighbors() / find_links(): every mode against every kind of link."""
    tr("== scripted_matrix")
    for caching in (False, True):
        Vertex.NEIGHBOR_CACHING = caching
        hub, p, q, r = (Vertex(uid=next_uid(), attributes={"i": i})
                        for i in range(4))
        lonely = Vertex(uid=next_uid())
        links = [
            DirectedEdge(hub, p, uid=next_uid()),
            DirectedEdge(q, hub, uid=next_uid()),
            UnDirectedEdge(hub, r, uid=next_uid()),
            UnDirectedEdge(p, hub, uid=next_uid()),
            Road(hub, hub, uid=next_uid()),
            Path(hub, hub, uid=next_uid()),
            SpyEdge(hub, q, uid=next_uid()),
            SpyEdge(r, hub, uid=next_uid()),
            SpyPath(hub, p, uid=next_uid()),
            Both(q, hub, uid=next_uid()),
            TwoEndedLink(hub, r, uid=next_uid()),
            Hyper(vertices=[p, hub, q], uid=next_uid()),
            DirectedEdge(hub, None, uid=next_uid()),
            DirectedEdge(None, hub, uid=next_uid()),
            UnDirectedEdge(None, hub, uid=next_uid()),
        ]
        # a directed edge that lists hub, but at neither end
        third = SpyEdge(p, q, uid=next_uid())
        hub.add_to_link(third)
        links.append(third)
        check(same_seq(hub.links, links), "hub links in order of attachment")
        for link in links:
            lab(link)

        seen = []

        def watcher(link, v2):
            seen.append(lab(link) + ">" + lab(v2))
            return v2 is not p

        for dirsens in (FWD, ANY, BWD, True, False, 2.0, 5, None, "fwd",
                        Opt(0), Opt(1), Opt(2), Opt(3)):
            for unknown in (NON, NBR, ERR, 11, None, Opt(0), Opt(1), Opt(2)):
                for filt in (None, watcher):
                    for turn in (0, 1):
                        del ACCESS[:]
                        del seen[:]
                        res = outcome(helpers.neighbors, hub, dirsens, unknown,
                                      filt)
                        if res[0] == "ok":
                            check(type(res[1]) is list, "list")
                            tr("mx", caching, dirsens, unknown, filt is not None,
                               turn, labs(res[1]), list(seen), list(ACCESS))
                            check(vandalise(res[1]) == "list", "list")
                        else:
                            tr("mx!", caching, dirsens, unknown,
                               filt is not None, turn, exc_sig(res[1]),
                               list(seen), list(ACCESS))
        # no links: nothing is looked at, not even a nonsensical direction
        for dirsens in (FWD, 5, None, "x"):
            res = helpers.neighbors(lonely, dirsens, 12345)
            check(res == [] and type(res) is list, "lonely")
            res.append(JUNK)
            check(helpers.neighbors(lonely, dirsens, 12345) == [], "lonely 2")
        # not a vertex
        for bad in (None, JUNK, links[0]):
            res = outcome(helpers.neighbors, bad)
            check(res[0] == "exc" and type(res[1]) is AttributeError, "bad vert")
        # a link without other()
        bare = Link(vertices=[lonely, p], uid=next_uid(), _force_creation=True)
        for dirsens in (FWD, ANY, 5):
            res = outcome(helpers.neighbors, lonely, dirsens, NON)
            check(res[0] == "exc" and type(res[1]) is AttributeError, "bare")
            tr("bare", exc_sig(res[1]))
        res = outcome(helpers.find_links, lonely, p)
        check(res[0] == "exc" and type(res[1]) is AttributeError, "bare fl")
        bare.unlink_from(lonely)
        check(helpers.neighbors(lonely) == [], "bare gone")

        # find_links: every pair, every mode
        flseen = []

        def flwatch(link):
            flseen.append(lab(link))
            return type(link) is not Road

        for va in (hub, p, q):
            for vb in (hub, p, q, r, None, lonely):
                for dirsens in (True, False, 1, 0, None, "yes", Opt(0), Opt(1)):
                    for unknown in (NON, NBR, ERR, 11, Opt(1)):
                        for filt in (None, flwatch):
                            del ACCESS[:]
                            del flseen[:]
                            res = outcome(helpers.find_links, va, vb, dirsens,
                                          unknown, filt)
                            if res[0] == "ok":
                                check(type(res[1]) is set, "set")
                                tr("fx", caching, lab(va), lab(vb), dirsens,
                                   unknown, filt is not None, slabs(res[1]),
                                   list(flseen), list(ACCESS))
                                snapshot = va.links
                                check(vandalise(res[1]) == "set", "set")
                                check(same_seq(va.links, snapshot), "fl detached")
                            else:
                                tr("fx!", caching, lab(va), lab(vb), dirsens,
                                   unknown, filt is not None, exc_sig(res[1]),
                                   list(flseen), list(ACCESS))

        # link_from_to(dontdup=True) and unlink() sit on top of the same calls
        again = explicit.link_directed(hub, p, dontdup=True)
        check(again is links[0], "dontdup returns the first existing link")
        fresh = explicit.link_undirected(lonely, p, dontdup=True)
        check(type(fresh) is UnDirectedEdge and same_seq(lonely.links, [fresh]),
              "dontdup creates when there is none")
        gone = explicit.unlink(hub, p, destroy=False)
        tr("unlinked", slabs(gone), labs(hub.links), labs(p.links))
        check(all(len(l.vertices) == 0 for l in gone if type(l) is not Hyper),
              "unlinked links are empty")
        check(vandalise(gone) == "set", "set")
        check(explicit.unlink(hub, q) is None, "destroy=True gives None")
        tr("unlinked2", labs(hub.links), labs(q.links),
           labs(helpers.neighbors(hub, ANY, NBR)))


def scripted_builders():
    tr("== scripted_builders")
    for caching in (False, True):
        Vertex.NEIGHBOR_CACHING = caching
        vs = [Vertex(uid=next_uid(), attributes={"i": i}) for i in range(6)]
        lists = {
            vs[0]: [vs[1], vs[2], vs[3]],
            vs[1]: (v for v in (vs[2], vs[2])),
            vs[3]: [vs[3]],
            vs[5]: [],
        }
        adj = dict(lists)
        uni = adjlist.load_adj_dict(adj, linktype=DirectedEdge)
        want = [labs(helpers.neighbors(v)) for v in vs]
        members = labs(uni.vertices)
        # what happens to the input afterwards is of no consequence
        lists[vs[0]].clear()
        lists[vs[3]].append(vs[0])
        adj.clear()
        check([labs(helpers.neighbors(v)) for v in vs] == want, "adjlist input")
        check(labs(uni.vertices) == members, "adjlist members")
        tr("adjlist", members, want)

        ws = [Vertex(uid=next_uid(), attributes={"i": i}) for i in range(4)]
        matrix = [[0, 1, 1, 0], [0, 0, "x", 0], [1, 0, 0, 0], [0, 0, 0, [0]]]
        side = list(ws)
        uni2 = adjmatrix.load_adj_matrix(matrix, side, linktype=UnDirectedEdge)
        want = [labs(helpers.neighbors(v)) for v in ws]
        for row in matrix:
            row[:] = [1, 1, 1, 1]
        matrix.pop()
        side.reverse()
        check([labs(helpers.neighbors(v)) for v in ws] == want, "matrix input")
        check(same_seq(uni2.vertices, ws), "matrix members")
        tr("adjmatrix", want)
        for wrong in ([[0, 1], [1]], [[0]]):
            res = outcome(adjmatrix.load_adj_matrix, wrong, ws[:2])
            check(res[0] == "exc" and type(res[1]) is ValueError, "not square")
            tr("adjmatrix!", exc_sig(res[1]))
        check(all(v.universes == [uni2] for v in ws), "no universe left behind")

        # randgraph: number and order of the random.* calls are part of the deal
        random.seed(4242)
        rg = randgraph.randgraph(9, edge=UnDirectedEdge)
        marker = random.random()
        rverts = rg.vertices
        shape = [[x.i for x in helpers.neighbors(v, ANY)] for v in rverts]
        tr("randgraph", [v.i for v in rverts], shape, repr(marker))
        random.seed(7)
        rg0 = randgraph.randgraph(0, connectivity=0.5)
        rg1 = randgraph.randgraph(1, ensurelink=False, connectivity=0.3)
        tr("randgraph-small", len(rg0.vertices),
           [[x.i for x in helpers.neighbors(v)] for v in rg1.vertices],
           repr(random.random()))

        # traversal and rendering results are lists / strings of their own
        first = breadthfirst.bft(rg, rverts[0], direction_sensitive=ANY)
        check(vandalise(first) == "list", "bft list")
        second = breadthfirst.bft(rg, rverts[0], direction_sensitive=ANY)
        tr("bft", [v.i for v in second])
        for func in (depthfirst.dft_recursive, depthfirst.dft_iterative):
            one = func(rg, rverts[0], direction_sensitive=ANY)
            shown = [v.i for v in one]
            check(vandalise(one) == "list", "dft list")
            check([v.i for v in func(rg, rverts[0], direction_sensitive=ANY)]
                  == shown, "dft repeatable")
            tr("dft", shown)
        tr("found", lab(breadthfirst.bfs(rg, rverts[0], "i", 5)) != "None",
           lab(depthfirst.dfs_recursive(rg, rverts[0], "i", 5)) != "None",
           lab(depthfirst.dfs_iterative(rg, rverts[0], "i", 99)))
        text = plaintext.basic_render(rg, rfunc=lambda v: f"v{v.i}",
                                      sort=lambda v: v.i)
        tr("render", text)
        check([[x.i for x in helpers.neighbors(v, ANY)] for v in rverts]
              == shape, "rendering is read-only")


###############################################################################


def main():
    Vertex.NEIGHBOR_CACHING = True
    check(stats() == {"Size": 0, "Hits": 0, "Misses": 0, "Invalidations": 0,
                      "Insertions": 0}, "fresh process expected")
    if FOCUS == "structure":
        weights = {
            "vertex": 6, "universe": 2, "link": 10, "setend": 9, "unlink": 5,
            "unlink_from": 5, "remove_from_link": 5, "add_to_link": 5,
            "universe_op": 12, "toggle": 4, "neighbors": 8, "find_links": 3,
            "traverse": 3,
        }
        runs = [(1201, 260), (1202, 260)]
    else:
        weights = {
            "vertex": 4, "universe": 1, "link": 10, "setend": 6, "unlink": 3,
            "unlink_from": 3, "remove_from_link": 3, "add_to_link": 3,
            "universe_op": 4, "toggle": 4, "neighbors": 22, "find_links": 12,
            "traverse": 12,
        }
        runs = [(2201, 260), (2202, 260)]
    # the random part comes first: its statistics bookkeeping is exact and
    # wants a process in which nothing else has created vertices yet
    for seed, steps in runs:
        random_run(seed, steps, weights)
    Vertex.NEIGHBOR_CACHING = True
    audit_stats("end-of-random")

    scripted_accessors()
    scripted_whitelist()
    scripted_cache()
    scripted_pickling()
    scripted_matrix()
    scripted_builders()

    digest = TRACE.hexdigest()
    if "--digest" in sys.argv:
        print(digest, NTRACE[0])
        return 0
    if "--no-golden" in sys.argv:
        print(f"OK: model agreed everywhere ({NTRACE[0]} trace lines; digest "
              "comparison skipped)")
        return 0
    if digest != GOLDEN:
        print("FAIL: observable trace differs from the one recorded on the "
              f"unchanged library: {digest} != {GOLDEN} ({NTRACE[0]} lines)")
        return 1
    print(f"OK: model agreed everywhere; trace of {NTRACE[0]} lines matches "
          "the recorded digest")
    return 0


if __name__ == "__main__":
    sys.exit(main())
