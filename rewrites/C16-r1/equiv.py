#!/usr/bin/env python3
"""
equiv.py (rewrite 1) -- exercises edgegraph.output.plaintext.basic_render.

Checks the C16 property against an independent oracle (explicit edge list) and
also pins down the finer observable details of the renderer: order of the
callbacks, how often truthiness of rfunc / sort is asked, format() being used
for whatever rfunc returns, exception propagation, cache statistics.

Exit status 0 = everything as expected.
"""

import itertools
import re
import sys

from edgegraph.structure import (
    Vertex,
    Universe,
    DirectedEdge,
    UnDirectedEdge,
)
from edgegraph.traversal import helpers
from edgegraph.output import plaintext

FAILS = []


def check(cond, what):
    if not cond:
        FAILS.append(what)
        print("FAIL:", what)


def build():
    """
    a..e in the universe, x outside of it.

      a -> a (self loop), a -> b twice (parallel), b -- c (undirected),
      c -> x (outside), d -> a (inbound for a), c -- c (undirected self loop)
      e isolated
    """
    uni = Universe()
    names = "abcde"
    verts = {}
    for i, n in enumerate(names):
        verts[n] = Vertex(attributes={"i": i, "name": n}, universes=[uni])
    verts["x"] = Vertex(attributes={"i": 99, "name": "x"})
    edges = [
        ("D", "a", "a"),
        ("D", "a", "b"),
        ("U", "b", "c"),
        ("D", "a", "b"),
        ("D", "c", "x"),
        ("D", "d", "a"),
        ("U", "c", "c"),
    ]
    for kind, s, t in edges:
        cls = DirectedEdge if kind == "D" else UnDirectedEdge
        cls(verts[s], verts[t])
    return uni, verts, edges


def oracle_neighbors(name, edges):
    """Forward neighbours in link-creation order, from the edge list only."""
    out = []
    for kind, s, t in edges:
        if kind == "D":
            if s == name:
                out.append(t)
        else:
            if s == name:
                out.append(t)
            elif t == name:
                out.append(s)
    return out


def oracle_render(order, verts, edges, label, key):
    lines = []
    members = list(order)
    if key is not None:
        members = sorted(members, key=lambda n: key(verts[n]))
    for n in members:
        nbs = oracle_neighbors(n, edges)
        if key is not None:
            nbs = sorted(nbs, key=lambda m: key(verts[m]))
        lines.append(
            str(label(verts[n])) + " -> " + ", ".join(str(label(verts[m])) for m in nbs)
        )
    return "\n".join(lines)


class FalsyCallable:
    """A callable whose truth value is False: basic_render must ignore it."""

    def __init__(self):
        self.bools = 0
        self.calls = 0

    def __bool__(self):
        self.bools += 1
        return False

    def __call__(self, v):
        self.calls += 1
        return "never"


class TruthyCounting:
    """A callable that counts how often its truth value is asked."""

    def __init__(self, fn):
        self.fn = fn
        self.bools = 0
        self.calls = []

    def __bool__(self):
        self.bools += 1
        return True

    def __call__(self, v):
        self.calls.append(v)
        return self.fn(v)


class Fancy:
    """Return value of an rfunc: str() and format() differ on purpose."""

    def __init__(self, v):
        self.v = v

    def __str__(self):
        return "STR" + self.v.name

    def __repr__(self):
        return "REPR" + self.v.name

    def __format__(self, spec):
        return "<" + self.v.name + ":" + spec + ">"


def stats_numbers():
    txt = Vertex.total_cache_stats()
    return [int(x) for x in re.findall(r":\s+(\d+)", txt)]


def run(caching):
    Vertex.NEIGHBOR_CACHING = caching
    Vertex._CACHE_STATS = {}

    uni, verts, edges = build()
    order = "abcde"

    # --- empty universe
    check(plaintext.basic_render(Universe()) is None, "empty -> None")
    check(
        plaintext.basic_render(Universe(), rfunc=lambda v: 1 / 0, sort=lambda v: 1 / 0)
        is None,
        "empty -> None, callbacks untouched",
    )

    # --- all combinations of rfunc / sort against the oracle
    rfuncs = {
        "none": (None, repr),
        "int": (lambda v: v.i, lambda v: v.i),
        "name": (lambda v: v.name, lambda v: v.name),
        "empty": (lambda v: "", lambda v: ""),
    }
    sorts = {
        "none": None,
        "asc": lambda v: v.i,
        "desc": lambda v: -v.i,
        "const": lambda v: 0,
    }
    for (rn, (rf, lab)), (sn, key) in itertools.product(rfuncs.items(), sorts.items()):
        got = plaintext.basic_render(uni, rfunc=rf, sort=key)
        want = oracle_render(order, verts, edges, lab, key)
        check(got == want, f"render rfunc={rn} sort={sn} caching={caching}")
        check(type(got) is str, "result is an exact str")
        check(len(got.split("\n")) == 5, "one line per member")

    # positional arguments as well
    check(
        plaintext.basic_render(uni, lambda v: v.name, lambda v: -v.i)
        == "e -> \nd -> a\nc -> x, c, b\nb -> c\na -> b, b, a",
        "positional call, literal expectation",
    )
    check(
        plaintext.basic_render(uni, rfunc=lambda v: v.name)
        == "a -> a, b, b\nb -> c\nc -> b, x, c\nd -> a\ne -> ",
        "literal expectation, unsorted",
    )

    # --- neighbours agree with helpers.neighbors() as such
    for n in order:
        check(
            [v.name for v in helpers.neighbors(verts[n])] == oracle_neighbors(n, edges),
            f"neighbors({n})",
        )

    # --- falsy callables are treated like "not given"
    frf, fso = FalsyCallable(), FalsyCallable()
    got = plaintext.basic_render(uni, rfunc=frf, sort=fso)
    check(got == oracle_render(order, verts, edges, repr, None), "falsy callables ignored")
    check(frf.calls == 0 and fso.calls == 0, "falsy callables never called")
    # rfunc truthiness: once per line head, once per listed neighbour
    n_listed = sum(len(oracle_neighbors(n, edges)) for n in order)
    check(frf.bools == 5 + n_listed, f"rfunc truthiness asked {frf.bools} times")
    # sort truthiness: once for the member order, once per line
    check(fso.bools == 1 + 5, f"sort truthiness asked {fso.bools} times")

    trf = TruthyCounting(lambda v: v.name)
    tso = TruthyCounting(lambda v: v.i)
    got = plaintext.basic_render(uni, rfunc=trf, sort=tso)
    check(got == oracle_render(order, verts, edges, lambda v: v.name, lambda v: v.i), "counting callables")
    check(trf.bools == 5 + n_listed and tso.bools == 6, "truthiness counts (truthy)")
    check(len(trf.calls) == 5 + n_listed, "rfunc called once per rendered item")
    check(len(tso.calls) == 5 + n_listed, "sort called once per sorted item")

    # --- order of the callbacks (rfunc on the head comes before the sort of
    # its neighbours, which comes before rfunc on the neighbours)
    trace = []

    def t_rfunc(v):
        trace.append(("r", v.name))
        return v.name

    def t_sort(v):
        trace.append(("s", v.name))
        return -v.i

    plaintext.basic_render(uni, rfunc=t_rfunc, sort=t_sort)
    want = [("s", n) for n in order]
    for n in sorted(order, key=lambda m: -verts[m].i):
        want.append(("r", n))
        nbs = oracle_neighbors(n, edges)
        want.extend(("s", m) for m in nbs)
        want.extend(("r", m) for m in sorted(nbs, key=lambda m: -verts[m].i))
    check(trace == want, "callback order")

    # --- what rfunc returns goes through format(), not str() / repr()
    got = plaintext.basic_render(uni, rfunc=Fancy)
    check(
        got == "<a:> -> <a:>, <b:>, <b:>\n<b:> -> <c:>\n<c:> -> <b:>, <x:>, <c:>\n<d:> -> <a:>\n<e:> -> ",
        "format() of rfunc results",
    )

    # --- exceptions from the callbacks come out unchanged
    class Boom(Exception):
        pass

    def bad_rfunc(v):
        if v.name == "x":
            raise Boom("x")
        return v.name

    def bad_sort(v):
        if v.name == "c":
            raise Boom("c")
        return v.i

    for kwargs, label in (
        ({"rfunc": bad_rfunc}, "rfunc raising on an outside neighbour"),
        ({"sort": bad_sort}, "sort raising"),
        ({"rfunc": lambda v: 1 / 0}, "rfunc raising at once"),
    ):
        try:
            plaintext.basic_render(uni, **kwargs)
        except (Boom, ZeroDivisionError):
            pass
        else:
            check(False, label)

    # StopIteration must come out as StopIteration
    def stop(v):
        raise StopIteration

    try:
        plaintext.basic_render(uni, rfunc=stop)
    except StopIteration:
        pass
    else:
        check(False, "StopIteration from rfunc")

    # a universe member that is no Vertex at all: rfunc sees it first, then
    # the neighbour lookup fails
    from edgegraph.structure import BaseObject

    odd = Universe()
    bo = BaseObject()
    odd.add_vertex(bo)
    seen = []
    try:
        plaintext.basic_render(odd, rfunc=lambda v: seen.append(v) or "odd")
    except AttributeError:
        pass
    else:
        check(False, "non-vertex member -> AttributeError")
    check(seen == [bo], "rfunc saw the odd member before the failure")

    # --- rfunc modifying the universe / graph while rendering: membership and
    # neighbour lists were snapshotted
    uni2, verts2, edges2 = build()

    def meddling(v):
        if v.name == "a" and len(uni2.vertices) == 5:
            Vertex(attributes={"i": 50, "name": "late"}, universes=[uni2])
            DirectedEdge(verts2["a"], verts2["e"])
        return v.name

    got = plaintext.basic_render(uni2, rfunc=meddling)
    check(
        got == "a -> a, b, b, e\nb -> c\nc -> b, x, c\nd -> a\ne -> ",
        "members snapshotted, links of the current head not yet: " + repr(got),
    )

    # --- cache statistics: exactly one neighbour lookup per line
    if caching:
        uni3, _, _ = build()
        before = stats_numbers()
        plaintext.basic_render(uni3)
        mid = stats_numbers()
        plaintext.basic_render(uni3, sort=lambda v: v.i)
        after = stats_numbers()
        # [size, hits, misses, invalidations, insertions]
        check(mid[2] - before[2] == 5 and mid[4] - before[4] == 5, "5 misses + 5 insertions")
        check(mid[1] == before[1], "no hits at first")
        check(after[1] - mid[1] == 5 and after[2] == mid[2], "5 hits on the second go")
        check(after[3] == mid[3] == before[3], "no invalidations by rendering")
    else:
        check(Vertex.total_cache_stats() == "Neighbor caching is DISABLED", "stats text, disabled")


def main():
    for caching in (False, True, False):
        run(caching)
    Vertex.NEIGHBOR_CACHING = False
    if FAILS:
        print(f"{len(FAILS)} check(s) failed")
        return 1
    print("all checks passed")
    return 0


if __name__ == "__main__":
    sys.exit(main())
