#!python3
# -*- coding: utf-8 -*-
"""
Equivalence / property check for edgegraph.output.nrpickler (property C10).

Run as:  cd <worktree> && PYTHONPATH=<worktree> /venv/bin/python equiv.py
Exit status 0 = everything as expected.

What is checked
  1. round trip (pickle.loads and dill.loads, every protocol, dumps and dump)
     gives an isomorphic copy: same class qualnames, uids, attributes, ordered
     links per vertex, ordered ends per link, ordered members per universe,
     laws, sharing, and the same answers of neighbors() / bft / dft;
  2. the copy is usable (can be extended, re-pickled);
  3. graphs much larger than the recursion limit serialise without
     RecursionError;
  4. loading in a fresh interpreter (caching on/off on either side) gives the
     same structural signature;
  5. the bytes AND the exact sequence of ``file.write`` calls are identical to
     those of a reference copy of the original non-recursive algorithm that is
     embedded below (so a rewrite cannot even change the chunking of writes);
  6. failures (unpicklable attribute, raising __reduce__, bad protocol, clashing
     keyword) raise the same exception classes, after the same partial output.
"""

import io
import json
import os
import pickle
import subprocess
import sys
import tempfile
import warnings

import dill

import edgegraph
from edgegraph.structure import (
    BaseObject,
    Vertex,
    Universe,
    Link,
    DirectedEdge,
    UnDirectedEdge,
)
from edgegraph.structure.universe import UniverseLaws
from edgegraph.traversal import helpers, breadthfirst, depthfirst
from edgegraph.output import nrpickler

FAILURES = []


def check(cond, msg):
    if not cond:
        FAILURES.append(msg)
        print("FAIL:", msg)


# --------------------------------------------------------------------------
# reference: the original algorithm, verbatim, as an oracle
# --------------------------------------------------------------------------


class _RefSave(object):
    def __init__(self, obj):
        self.obj = obj


class _RefMemo(object):
    def __init__(self, obj):
        self.obj = obj


class _RefPickler(dill.Pickler):
    def __init__(self, file, **kwargs):
        dill.Pickler.__init__(self, file, **kwargs)
        self.lazywrites = []
        self.realwrite = file.write
        self.write = self.lazywrite

    def lazywrite(self, *args):
        if self.lazywrites:
            self.lazywrites.append(args)
        else:
            self.realwrite(*args)

    def save(self, obj, save_persistent_id=None):
        if save_persistent_id is not None:
            raise NotImplementedError("no save_persistent_id")
        self.lazywrites.append(_RefSave(obj))

    realsave = dill.Pickler.save

    def lazymemoize(self, obj):
        if self.lazywrites:
            self.lazywrites.append(_RefMemo(obj))
        else:
            self.realmemoize(obj)

    memoize = lazymemoize
    realmemoize = dill.Pickler.memoize

    def dump(self, obj):
        if self.proto >= 2:
            self.write(pickle.PROTO + chr(self.proto).encode("ascii"))
        self.realsave(obj)
        while self.lazywrites:
            lws = self.lazywrites
            self.lazywrites = []
            while lws:
                lw = lws.pop(0)
                if isinstance(lw, _RefSave):
                    self.realsave(lw.obj)
                    if self.lazywrites:
                        self.lazywrites.extend(lws)
                        break
                elif isinstance(lw, _RefMemo):
                    if id(lw.obj) in self.memo:
                        self.realwrite(
                            pickle.POP + self.get(self.memo[id(lw.obj)][0])
                        )
                    else:
                        self.realmemoize(lw.obj)
                else:
                    self.realwrite(*lw)
        self.realwrite(pickle.STOP)


def ref_dump(obj, file, protocol=None, byref=None, fmode=None, recurse=None):
    _RefPickler(
        file, protocol=protocol, byref=byref, fmode=fmode, recurse=recurse
    ).dump(obj)


class Recorder(object):
    """File-like object remembering every single write call."""

    def __init__(self):
        self.calls = []

    def write(self, data):
        self.calls.append(bytes(data))
        return len(data)

    def value(self):
        return b"".join(self.calls)


# --------------------------------------------------------------------------
# user classes
# --------------------------------------------------------------------------


class City(Vertex):
    def __init__(self, name, **kwargs):
        # NB: no zero-argument super() here: classes of __main__ are pickled
        # by value, and the __class__ cell of such a method is a cycle that
        # (already in the unchanged library) is outside what the lazy
        # pickler handles
        Vertex.__init__(self, **kwargs)
        self.name = name

    def shout(self):
        return self.name.upper()


class Capital(City):
    pass


class Road(DirectedEdge):
    pass


class Path(UnDirectedEdge):
    pass


class Falsy(Vertex):
    """A vertex whose truth value is False and which equals nothing."""

    def __bool__(self):
        return False


class Boom(Exception):
    pass


class RaisingReduce(object):
    def __reduce__(self):
        raise Boom("no")


def module_level_func(x):
    return x * 4


# --------------------------------------------------------------------------
# structural signature (uses the public API only, and no recursion)
# --------------------------------------------------------------------------

SCALARS = (int, float, str, bytes, bool, type(None), complex)


def signature(root, traversals=True):
    index = {}
    objs = []

    def ref(o):
        if isinstance(o, SCALARS):
            return ["s", type(o).__name__, repr(o)]
        if callable(o) and not isinstance(o, BaseObject):
            return ["f", getattr(o, "__qualname__", "?")]
        if id(o) not in index:
            index[id(o)] = len(objs)
            objs.append(o)
        return ["r", index[id(o)]]

    top = ref(root)
    rows = []
    pos = 0
    while pos < len(objs):
        o = objs[pos]
        pos += 1
        row = {"cls": type(o).__qualname__}
        if isinstance(o, BaseObject):
            row["uid"] = o.uid
            row["attrs"] = [
                [k, ref(v)]
                for k, v in sorted(vars(o).items())
                if not k.startswith("_")
            ]
            row["universes"] = [ref(u) for u in o.universes]
        if isinstance(o, Vertex):
            row["links"] = [ref(l) for l in o.links]
        if isinstance(o, Universe):
            row["members"] = [ref(v) for v in o.vertices]
            row["laws"] = ref(o.laws)
        if isinstance(o, Link):
            row["ends"] = [ref(v) for v in o.vertices]
        if isinstance(o, UniverseLaws):
            wl = o.edge_whitelist
            row["laws"] = [
                o.mixed_links,
                o.cycles,
                o.multipath,
                o.multiverse,
                ref(o.applies_to),
                None if wl is None else sorted(
                    (k.__qualname__, sorted(
                        (a.__qualname__, b.__qualname__) for a, b in v.items()
                    ) if isinstance(v, dict) else repr(v))
                    for k, v in wl.items()
                ) if isinstance(wl, dict) else repr(wl),
            ]
        if isinstance(o, (list, tuple)):
            row["items"] = [ref(x) for x in o]
        elif isinstance(o, (set, frozenset)):
            row["items"] = sorted(repr(ref(x)) for x in o)
        elif isinstance(o, dict):
            row["items"] = [[ref(k), ref(v)] for k, v in o.items()]
        rows.append(row)

    out = {"top": top, "rows": rows}

    if traversals:
        trav = []
        for o in list(objs):
            if not isinstance(o, Vertex):
                continue
            for mode in (
                helpers.DIR_SENS_FORWARD,
                helpers.DIR_SENS_ANY,
                helpers.DIR_SENS_BACKWARD,
            ):
                # twice: second answer may come out of the neighbor cache
                for _ in range(2):
                    nbs = helpers.neighbors(o, direction_sensitive=mode)
                    trav.append(["nb", index[id(o)], mode, [ref(n) for n in nbs]])
            for u in o.universes:
                for fn in (
                    breadthfirst.bft,
                    depthfirst.dft_iterative,
                ):
                    res = fn(u, o)
                    trav.append(
                        [fn.__name__, index[id(u)], index[id(o)],
                         [ref(n) for n in res]]
                    )
        out["trav"] = trav
    return json.dumps(out, sort_keys=True)


# --------------------------------------------------------------------------
# graphs
# --------------------------------------------------------------------------


def build_world():
    outer = Universe(uid=1001, attributes={"label": "outer"})
    inner = Universe(uid=1002, attributes={"label": "inner"})
    outer.add_vertex(inner)  # nested universe

    a = City("a", uid=1, universes=[outer])
    b = Capital("b", uid=2, universes=[outer, inner])
    c = City("c", uid=3, universes=[inner])
    d = Vertex(uid=4, universes=[outer, inner])
    f = Falsy(uid=5, universes=[outer])
    lonely = Vertex(uid=6, universes=[inner])

    shared = ["shared", {"k": (1, 2.5, None)}, {3, 4}]
    a.payload = shared
    c.payload = shared  # shared object must stay shared
    b.me = b  # attribute cycle
    b.friend = a
    d.func = module_level_func
    d.json = json
    d.local = lambda x: x + 1
    d.big = 2**80
    d.empty = ()
    f.zero = 0
    f.blob = b"\x00\xff" * 10

    links = [
        Road(a, b, uid=101),
        Road(a, b, uid=102),  # parallel
        Road(b, a, uid=103),  # cycle
        Path(b, c, uid=104),
        Road(c, c, uid=105),  # self-loop
        Path(d, d, uid=106),  # undirected self-loop
        DirectedEdge(c, d, uid=107),
        UnDirectedEdge(d, a, uid=108, attributes={"w": 3}),
        Road(a, f, uid=109),
        Path(f, b, uid=110),
        Road(inner, a, uid=111),  # a universe used as a vertex
    ]
    links[0].twin = links[1]
    outer.index = {"a": a, "links": links}
    return outer


def build_loose():
    """Not a universe: a tuple with half-open links, listed twice."""
    v1 = Vertex(uid=21)
    v2 = Vertex(uid=22)
    e1 = DirectedEdge(v1, None, uid=201)
    e2 = UnDirectedEdge(None, None, uid=202)
    e3 = DirectedEdge(v1, v2, uid=203)
    laws = UniverseLaws(mixed_links=False, cycles=False)
    u = Universe(uid=23, laws=laws, vertices=[v1, v2])
    return (v1, [e1, e2, e3, e1], v1, {"u": u, "laws": laws}, v2)


def build_reentrant():
    """
    Immutable containers that contain the vertex holding them, and are shared:
    they are reached again while their own elements are being written.
    """
    v = Vertex(uid=31)
    w = Vertex(uid=32)
    tup = (v, "x")
    big = (v, w, 1, 2, 3)  # more than three elements: other opcode path
    frz = frozenset([v])
    v.tup = tup
    w.tup = tup
    v.big = big
    w.big = big
    v.frz = frz
    w.frz = frz
    DirectedEdge(v, w, uid=301, attributes={"ends": (v, w)})
    return v, w, tup, big, frz


def build_chain(n):
    uni = Universe(uid=5000000)
    prev = None
    verts = []
    for i in range(n):
        v = Vertex(uid=i + 1, universes=[uni], attributes={"i": i})
        if prev is not None:
            DirectedEdge(prev, v, uid=1000000 + i)
            if i % 7 == 0:
                UnDirectedEdge(v, prev, uid=2000000 + i)
        verts.append(v)
        prev = v
    DirectedEdge(prev, verts[0], uid=3000000)  # close the ring
    return uni, verts


# --------------------------------------------------------------------------
# checks
# --------------------------------------------------------------------------

PROTOCOLS = list(range(pickle.HIGHEST_PROTOCOL + 1))


def _outcome(fn, obj, **kw):
    rec = Recorder()
    try:
        fn(obj, rec, **kw)
    except Exception as exc:
        return type(exc), rec
    return None, rec


def same_as_reference(obj, protocol, what, may_fail=False, **kw):
    """
    bytes and write-call sequence equal to the embedded original; if the
    original fails for this input (may_fail), the same exception class after
    the same partial output.
    """
    with warnings.catch_warnings():
        warnings.simplefilter("ignore")
        lib_exc, lib = _outcome(nrpickler.dump, obj, protocol=protocol, **kw)
        ref_exc, ref = _outcome(ref_dump, obj, protocol=protocol, **kw)
    check(lib_exc is ref_exc, f"{what}: outcome {lib_exc} vs reference {ref_exc} (proto {protocol})")
    if not may_fail:
        check(lib_exc is None, f"{what}: unexpected {lib_exc} (proto {protocol})")
    check(lib.value() == ref.value(), f"{what}: bytes differ from reference (proto {protocol})")
    check(lib.calls == ref.calls, f"{what}: write calls differ from reference (proto {protocol})")
    if protocol is not None and lib_exc is None:
        with warnings.catch_warnings():
            warnings.simplefilter("ignore")
            s = nrpickler.dumps(obj, protocol=protocol, **kw)
        check(s == ref.value(), f"{what}: dumps != dump bytes (proto {protocol})")
        check(type(s) is bytes, f"{what}: dumps does not return bytes")
    return lib.value()


def roundtrip_checks(obj, what, traversals=True):
    want = signature(obj, traversals)
    for proto in PROTOCOLS + [None, -1]:
        data = same_as_reference(obj, proto, what)
        for loader in (pickle.loads, dill.loads):
            copy = loader(data)
            check(copy is not obj, f"{what}: same object back")
            got = signature(copy, traversals)
            check(got == want, f"{what}: signature differs ({loader.__module__}, proto {proto})")
        # real file
        with tempfile.TemporaryFile() as fp:
            nrpickler.dump(obj, fp, protocol=proto)
            fp.seek(0)
            check(fp.read() == data, f"{what}: real file content differs (proto {proto})")
    # default arguments of dumps
    check(
        nrpickler.dumps(obj)
        == same_as_reference(obj, pickle.DEFAULT_PROTOCOL, what),
        f"{what}: default protocol of dumps changed",
    )
    # dill options are passed through (some of them are beyond what the lazy
    # pickler can do for by-value functions: then the failure is the same)
    same_as_reference(obj, 4, what + " byref", may_fail=True, byref=True)
    same_as_reference(obj, 3, what + " recurse", may_fail=True, recurse=True)
    return want


def usable(copy):
    """The copy is detached and can be worked with."""
    before = len(copy.vertices)
    nv = City("new", universes=[copy])
    old = copy.vertices[1]
    Road(old, nv)
    check(len(copy.vertices) == before + 1, "copy: cannot add vertex")
    check(nv in helpers.neighbors(old), "copy: new neighbor not seen")
    again = pickle.loads(nrpickler.dumps(copy))
    check(signature(again) == signature(copy), "copy: second generation differs")


def failure_checks():
    world = build_world()

    def outcome(fn, *a, **k):
        rec = Recorder()
        try:
            fn(world, rec, *a, **k)
        except BaseException as exc:  # noqa
            return type(exc), rec.calls
        return None, rec.calls

    # unpicklable attribute deep inside
    world.vertices[2].gen = (x for x in range(3))
    for proto in (0, 2, 5):
        check(
            outcome(nrpickler.dump, protocol=proto) == outcome(ref_dump, protocol=proto),
            f"generator failure differs (proto {proto})",
        )
        check(outcome(nrpickler.dump, protocol=proto)[0] is not None, "generator pickled?!")
    del world.vertices[2].gen

    world.vertices[3].bad = RaisingReduce()
    for proto in (1, 4):
        got = outcome(nrpickler.dump, protocol=proto)
        check(got == outcome(ref_dump, protocol=proto), f"raising reduce differs (proto {proto})")
        check(got[0] is Boom, "Boom did not propagate")
    del world.vertices[3].bad

    for bad in (99, pickle.HIGHEST_PROTOCOL + 1):
        got = outcome(nrpickler.dump, protocol=bad)
        check(got == outcome(ref_dump, protocol=bad), f"bad protocol {bad} differs")
        check(got[0] is ValueError, "bad protocol: not ValueError")
        try:
            nrpickler.dumps(world, protocol=bad)
            check(False, "dumps accepted bad protocol")
        except ValueError:
            pass

    for call in (
        lambda: nrpickler.dumps(world, file=io.BytesIO()),
        lambda: nrpickler.dump(world, io.BytesIO(), file=io.BytesIO()),
        lambda: nrpickler.dumps(world, nonsense=1),
        lambda: nrpickler.dump(world, io.BytesIO(), nonsense=1),
        lambda: nrpickler.dump(world, object()),
        lambda: nrpickler.dump(world),
    ):
        try:
            call()
            check(False, "bad call accepted")
        except (TypeError, AttributeError) as exc:
            pass

    # unusual but accepted protocol values
    for proto in (True, 2.0, False):
        same_as_reference(world, proto, f"protocol {proto!r}")

    # keyword pass-through that is accepted
    s = nrpickler.dumps(world, 2, None, None, None, fix_imports=False)
    check(signature(pickle.loads(s)) == signature(world), "fix_imports pass-through")

    # public names
    for name in ("dump", "dumps"):
        check(callable(getattr(nrpickler, name, None)), f"nrpickler.{name} missing")
    import inspect

    check(
        str(inspect.signature(nrpickler.dumps))
        == "(obj, protocol=%d, byref=None, fmode=None, recurse=None, **kwargs)"
        % pickle.DEFAULT_PROTOCOL,
        "dumps signature changed",
    )
    check(
        str(inspect.signature(nrpickler.dump))
        == "(obj, file, protocol=None, byref=None, fmode=None, recurse=None, **kwargs)",
        "dump signature changed",
    )
    check(nrpickler.dump(world, io.BytesIO()) is None, "dump return value")


def big_checks():
    n = 3000
    uni, verts = build_chain(n)
    want = signature(uni, traversals=False)
    old = sys.getrecursionlimit()
    datas = {}
    sys.setrecursionlimit(250)
    try:
        for proto in PROTOCOLS:
            try:
                datas[proto] = nrpickler.dumps((uni, verts), protocol=proto)
            except RecursionError:
                check(False, f"RecursionError for proto {proto}")
    finally:
        sys.setrecursionlimit(old)
    for proto, data in datas.items():
        for loader in (pickle.loads, dill.loads):
            cu, cv = loader(data)
            check(signature(cu, traversals=False) == want, f"big: signature (proto {proto})")
            check([v.i for v in cv] == list(range(n)), "big: order")
            check(cv == cu.vertices, "big: list and members not the same objects")
    # the reference agrees on one protocol (it is slow)
    ref = Recorder()
    ref_dump((uni, verts), ref, protocol=4)
    check(ref.value() == datas[4], "big: bytes differ from reference")
    cu, cv = pickle.loads(datas[5])
    walk = breadthfirst.bft(cu, cv[0])
    check([v.i for v in walk] == [v.i for v in breadthfirst.bft(uni, verts[0])], "big: bft")


def fresh_process_checks(tmpdir):
    env = dict(os.environ)
    root = os.path.dirname(os.path.dirname(os.path.abspath(edgegraph.__file__)))
    env["PYTHONPATH"] = root
    for parent_cache in (False, True):
        Vertex.NEIGHBOR_CACHING = parent_cache
        world = build_world()
        if parent_cache:
            signature(world)  # warm every cache
        want = signature(world)
        for proto in (0, 2, pickle.HIGHEST_PROTOCOL):
            path = os.path.join(tmpdir, f"w{int(parent_cache)}{proto}.pkl")
            with open(path, "wb") as fp:
                nrpickler.dump(world, fp, protocol=proto)
            for child_cache in ("0", "1"):
                for loader in ("pickle", "dill"):
                    res = subprocess.run(
                        [sys.executable, os.path.abspath(__file__), "--child",
                         path, child_cache, loader],
                        env=env, capture_output=True, text=True,
                    )
                    check(res.returncode == 0, f"child failed: {res.stderr[-500:]}")
                    check(
                        res.stdout.strip() == want,
                        f"fresh process signature differs (parent cache {parent_cache}, "
                        f"child cache {child_cache}, proto {proto}, {loader})",
                    )
    Vertex.NEIGHBOR_CACHING = False


def child(path, cache, loader):
    Vertex.NEIGHBOR_CACHING = cache == "1"
    mod = pickle if loader == "pickle" else dill
    with open(path, "rb") as fp:
        copy = mod.load(fp)
    sig = signature(copy)
    usable(copy)
    if FAILURES:
        sys.exit(3)
    print(sig)


def main():
    where = os.path.abspath(edgegraph.__file__)
    print("edgegraph from", where)

    for caching in (False, True):
        Vertex.NEIGHBOR_CACHING = caching
        world = build_world()
        if caching:
            signature(world)  # warm caches
        want = roundtrip_checks(world, f"world(cache={caching})")
        # same signature whatever the caching mode of the loading side
        data = nrpickler.dumps(world)
        Vertex.NEIGHBOR_CACHING = not caching
        check(signature(pickle.loads(data)) == want, "cache flip changes answers")
        Vertex.NEIGHBOR_CACHING = caching
        copy = dill.loads(data)
        inner = copy.vertices[0]
        by_uid = {v.uid: v for v in copy.vertices + inner.vertices}
        check(sorted(by_uid) == [1, 2, 3, 4, 5, 6, 1002], "members lost")
        check(by_uid[1].shout() == "A", "method of subclass lost")
        check(by_uid[1].payload is by_uid[3].payload, "sharing lost")
        check(by_uid[2].me is by_uid[2], "self reference lost")
        check(by_uid[2].friend is by_uid[1], "cross reference lost")
        check(by_uid[4].func(3) == 12, "function attribute lost")
        check(by_uid[4].json is json, "module attribute not by reference")
        check(by_uid[4].local(1) == 2, "lambda lost")
        check(
            not by_uid[5] and type(by_uid[5]).__qualname__ == "Falsy",
            "falsy vertex",
        )
        check(copy.index["a"] is by_uid[1], "dict attribute sharing lost")
        check(copy.index["links"][0].twin is copy.index["links"][1], "link attr")
        check(copy.index["links"][4].vertices == (by_uid[3], by_uid[3]), "self-loop ends")
        usable(copy)
        check(signature(world) == want, "original was modified by pickling / by the copy")

        loose = build_loose()
        roundtrip_checks(loose, f"loose(cache={caching})", traversals=False)
        lc = pickle.loads(nrpickler.dumps(loose, protocol=1))
        check(lc[0] is lc[2], "tuple sharing lost")
        check(lc[1][0] is lc[1][3], "list sharing lost")
        check(lc[1][0].vertices == (lc[0], None), "None end lost")
        check(lc[3]["u"].laws is lc[3]["laws"], "laws sharing lost")

        v, w, tup, big, frz = build_reentrant()
        for root, name in (
            (tup, "tup"), (big, "big"), (frz, "frz"), (v, "v"),
            ([w, tup, big, frz, v], "all"), ((frz, big, tup), "rev"),
        ):
            roundtrip_checks(root, f"reentrant-{name}(cache={caching})")
        for proto in PROTOCOLS:
            ct = pickle.loads(nrpickler.dumps(tup, protocol=proto))
            check(ct[0].tup is ct, f"reentrant tuple not shared (proto {proto})")
            check(ct[0].links[0].v2.tup is ct, f"reentrant tuple not shared via w (proto {proto})")
            check(ct[0].big[0] is ct[0], f"reentrant big tuple (proto {proto})")
            check(ct[0].links[0].v2.big is ct[0].big, f"big tuple sharing (proto {proto})")
            check(ct[0].links[0].ends == (ct[0], ct[0].big[1]), f"edge attr tuple (proto {proto})")
            cf = pickle.loads(nrpickler.dumps(frz, protocol=proto))
            (cv,) = cf
            check(cv.frz == cf and cv.links[0].v2.frz is cv.frz, f"reentrant frozenset (proto {proto})")

        # things that are not graphs at all
        for odd in (None, 0, "", (), [], {}, [[]], ((), ()), {"a": [1, (2, 3)]}):
            for proto in PROTOCOLS:
                data = same_as_reference(odd, proto, f"odd {odd!r}")
                check(pickle.loads(data) == odd, f"odd {odd!r} round trip")
    Vertex.NEIGHBOR_CACHING = False

    failure_checks()
    big_checks()
    with tempfile.TemporaryDirectory() as tmpdir:
        fresh_process_checks(tmpdir)

    if FAILURES:
        print(f"{len(FAILURES)} FAILURE(S)")
        return 1
    print("all checks passed")
    return 0


if __name__ == "__main__":
    if len(sys.argv) > 1 and sys.argv[1] == "--child":
        child(*sys.argv[2:5])
        sys.exit(0)
    sys.exit(main())
