#!/usr/bin/env python3
"""
equiv.py for C13 / rewrite 1 (helpers.neighbors / helpers.find_links cascade
restructured into private predicates).

Checks, on hand-made and on random graphs (self-loops, parallel edges, None
ends, links with a third vertex, unknown link classes, an edge class deriving
from both edge kinds, bool/float option values), with neighbor caching off and
on:

* neighbors() and find_links() agree with an independent table-driven oracle
  for every option combination, including which exception class is raised;
* a filterfunc / ff_via / ff_result / rfunc / sort failing at its k-th
  invocation (every k) leaves the graph as it was, and the repeated call with
  a well-behaved callback gives the normal answer;
* all read-only entry points leave the graph as it was.

Exit status 0 = everything as expected.
"""

import itertools
import random
import sys

from edgegraph.structure import (
    Vertex,
    Universe,
    DirectedEdge,
    UnDirectedEdge,
    TwoEndedLink,
)
from edgegraph.traversal import helpers, breadthfirst, depthfirst
from edgegraph.output import plaintext

FAILS = []


def check(cond, what):
    if not cond:
        FAILS.append(what)
        print("FAIL:", what)


class Boom(Exception):
    pass


class OddLink(TwoEndedLink):
    """neither directed nor undirected"""


class BothEdge(UnDirectedEdge, DirectedEdge):
    """derives from both kinds; the undirected reading wins"""


class SubDirected(DirectedEdge):
    pass


# ---------------------------------------------------------------- snapshots


def snapshot(verts, links, unis):
    snap = []
    for v in verts:
        snap.append(
            (
                "V",
                id(v),
                v.uid,
                tuple(id(l) for l in v.links),
                tuple(id(u) for u in v.universes),
                tuple(
                    sorted(
                        (k, repr(val))
                        for k, val in vars(v).items()
                        if not k.startswith("_")
                    )
                ),
            )
        )
    for l in links:
        snap.append(
            (
                "L",
                id(l),
                l.uid,
                tuple(id(x) for x in l.vertices),
                tuple(id(u) for u in l.universes),
                tuple(
                    sorted(
                        (k, repr(val))
                        for k, val in vars(l).items()
                        if not k.startswith("_")
                    )
                ),
            )
        )
    for u in unis:
        snap.append(
            (
                "U",
                id(u),
                tuple(id(x) for x in u.vertices),
                id(u.laws),
                id(u.laws.applies_to),
            )
        )
    return snap


# ------------------------------------------------------------------ oracle

FWD, ANY, BWD = (
    helpers.DIR_SENS_FORWARD,
    helpers.DIR_SENS_ANY,
    helpers.DIR_SENS_BACKWARD,
)
U_NON, U_NB, U_ERR = (
    helpers.LNK_UNKNOWN_NONNEIGHBOR,
    helpers.LNK_UNKNOWN_NEIGHBOR,
    helpers.LNK_UNKNOWN_ERROR,
)


def kind_of(link, vert):
    """'U' undirected, 'O' vert is origin, 'D' vert is destination (only),
    '?' unknown"""
    if isinstance(link, UnDirectedEdge):
        return "U"
    if isinstance(link, DirectedEdge):
        ends = link.vertices
        if ends[0] is vert:
            return "O"
        if ends[1] is vert:
            return "D"
    return "?"


def role_in(kind, link, vert, direction):
    """same as kind, seen from the requested direction: 'follow', 'skip',
    'unknown'"""
    if direction == ANY:
        return "follow"
    if kind == "U":
        return "follow"
    if kind == "?":
        return "unknown"
    ends = link.vertices
    near = ends[0] if direction == FWD else ends[1]
    return "follow" if near is vert else "skip"


def other_end(link, vert):
    ends = link.vertices
    if vert is ends[0]:
        return ends[1]
    if vert is ends[1]:
        return ends[0]
    return None


def oracle_neighbors(vert, direction, unknown, ff=None):
    """returns ('ok', [..]) or ('exc', cls)"""
    out = []
    for link in vert.links:
        far = other_end(link, vert)
        if direction not in (FWD, ANY, BWD):
            return ("exc", ValueError)
        role = role_in(kind_of(link, vert), link, vert, direction)
        if role == "skip":
            continue
        if role == "unknown":
            if unknown == U_NON:
                continue
            if unknown != U_NB:
                return ("exc", NotImplementedError)
        if ff is None or ff(link, far):
            out.append(far)
    return ("ok", out)


def oracle_find_links(v1, v2, sensitive, unknown, ff=None):
    out = set()
    for link in v1.links:
        if other_end(link, v1) is not v2:
            continue
        if sensitive:
            if isinstance(link, UnDirectedEdge):
                pass
            elif isinstance(link, DirectedEdge):
                if link.vertices[0] is not v1:
                    continue
            else:
                if unknown == U_NON:
                    continue
                if unknown != U_NB:
                    return ("exc", NotImplementedError)
        if ff is None or ff(link):
            out.add(link)
    return ("ok", out)


def attempt(fn, *args, **kwargs):
    try:
        return ("ok", fn(*args, **kwargs))
    except Boom:
        return ("exc", Boom)
    except Exception as exc:  # pylint: disable=broad-except
        return ("exc", type(exc))


def same_list(a, b):
    return len(a) == len(b) and all(x is y for x, y in zip(a, b))


def same_outcome(got, want):
    if got[0] != want[0]:
        return False
    if got[0] == "exc":
        return got[1] is want[1]
    if isinstance(want[1], set):
        return isinstance(got[1], set) and got[1] == want[1]
    return isinstance(got[1], list) and same_list(got[1], want[1])


# ------------------------------------------------------------------ worlds


def handmade_world():
    uni = Universe()
    other_uni = Universe()
    vs = [Vertex(universes=[uni], attributes={"i": i}) for i in range(7)]
    vs[2].add_to_universe(other_uni)
    outsider = Vertex(attributes={"i": 99})
    a, b, c, d, e, f, g = vs
    links = [
        DirectedEdge(a, b),
        DirectedEdge(a, b),  # parallel
        DirectedEdge(b, a),
        UnDirectedEdge(a, c),
        DirectedEdge(a, a),  # self-loop
        UnDirectedEdge(c, c),  # self-loop
        SubDirected(c, d),
        BothEdge(d, e),
        BothEdge(e, d),
        OddLink(e, f),
        OddLink(f, f),
        DirectedEdge(f, None),
        DirectedEdge(None, f),
        UnDirectedEdge(g, None),
        DirectedEdge(d, outsider),
        DirectedEdge(outsider, a),
        UnDirectedEdge(b, g, attributes={"w": 3}),
    ]
    # a directed link with a third vertex: g is attached, but is neither end
    third = DirectedEdge(a, d)
    g.add_to_link(third)
    links.append(third)
    # nested universe as a vertex
    uni.add_vertex(other_uni)
    links.append(DirectedEdge(g, other_uni))
    vs_all = vs + [outsider, other_uni]
    return vs_all, links, [uni, other_uni], uni


def random_world(rng):
    uni = Universe()
    n = rng.randint(1, 6)
    vs = [Vertex(universes=[uni], attributes={"i": i}) for i in range(n)]
    extra = [Vertex(attributes={"i": 100 + i}) for i in range(rng.randint(0, 2))]
    pool = vs + extra
    links = []
    for _ in range(rng.randint(0, 12)):
        cls = rng.choice(
            [DirectedEdge, UnDirectedEdge, SubDirected, OddLink, BothEdge]
        )
        x = rng.choice(pool + [None])
        y = rng.choice(pool + [None])
        links.append(cls(x, y))
    if links and rng.random() < 0.3:
        rng.choice(pool).add_to_link(rng.choice(links))
    return pool, links, [uni], uni


# ----------------------------------------------------------- fault injection


class Faulty:
    """a callback failing at its k-th invocation (k=None: never)"""

    def __init__(self, inner, k=None):
        self.inner = inner
        self.k = k
        self.calls = 0

    def __call__(self, *args):
        self.calls += 1
        if self.k is not None and self.calls == self.k:
            raise Boom()
        return self.inner(*args)


def fault_sweep(label, world, make_call, inner, compare):
    """make_call(cb) -> result.  Runs with a clean callback, then with a fault
    at each k; verifies the graph and the repeated call."""
    verts, links, unis, _ = world
    before = snapshot(verts, links, unis)
    clean = Faulty(inner)
    normal = attempt(make_call, clean)
    check(normal[0] == "ok", f"{label}: clean run failed: {normal}")
    check(snapshot(verts, links, unis) == before, f"{label}: clean run changed graph")
    for k in range(1, clean.calls + 2):
        cb = Faulty(inner, k)
        got = attempt(make_call, cb)
        if k <= clean.calls:
            check(got == ("exc", Boom), f"{label}: k={k} expected Boom, got {got}")
        else:
            check(compare(got, normal), f"{label}: k={k} past the end differs")
        check(
            snapshot(verts, links, unis) == before,
            f"{label}: k={k} graph changed after fault",
        )
        again = attempt(make_call, Faulty(inner))
        check(compare(again, normal), f"{label}: k={k} repeat differs from normal")
        check(
            snapshot(verts, links, unis) == before,
            f"{label}: k={k} graph changed after repeat",
        )


def cmp_generic(a, b):
    if a[0] != b[0]:
        return False
    if a[0] == "exc":
        return a[1] is b[1]
    x, y = a[1], b[1]
    if isinstance(x, list) and isinstance(y, list):
        return same_list(x, y)
    return type(x) is type(y) and x == y


# ------------------------------------------------------------------- checks


def check_against_oracle(world, tag):
    verts, links, unis, _ = world
    before = snapshot(verts, links, unis)
    directions = [FWD, ANY, BWD, True, False, 2.0, 7, None, "x"]
    unknowns = [U_NON, U_NB, U_ERR, 5, None]
    filters = [
        None,
        lambda e, v: v is not None and getattr(v, "i", 0) % 2 == 0,
        lambda e, v: isinstance(e, DirectedEdge),
        lambda e, v: 0,  # falsy, not False
        lambda e, v: "yes",  # truthy, not True
    ]
    for v in verts:
        for d, u, ff in itertools.product(directions, unknowns, filters):
            got = attempt(
                helpers.neighbors,
                v,
                direction_sensitive=d,
                unknown_handling=u,
                filterfunc=ff,
            )
            want = oracle_neighbors(v, d, u, ff)
            check(
                same_outcome(got, want),
                f"{tag}: neighbors(i={getattr(v, 'i', '?')}, d={d!r}, u={u!r}) "
                f"got {got} want {want}",
            )
            if got[0] == "ok":
                # the caller owns the answer
                got[1].append("junk")
                again = attempt(
                    helpers.neighbors,
                    v,
                    direction_sensitive=d,
                    unknown_handling=u,
                    filterfunc=ff,
                )
                check(same_outcome(again, want), f"{tag}: answer aliased")
    lfilters = [None, lambda e: hasattr(e, "w"), lambda e: [], lambda e: 1]
    for v1 in verts:
        for v2 in verts + [None]:
            for s, u, ff in itertools.product(
                [True, False, 0, 1, "", "x"], unknowns, lfilters
            ):
                got = attempt(
                    helpers.find_links,
                    v1,
                    v2,
                    direction_sensitive=s,
                    unknown_handling=u,
                    filterfunc=ff,
                )
                want = oracle_find_links(v1, v2, s, u, ff)
                check(
                    same_outcome(got, want),
                    f"{tag}: find_links s={s!r} u={u!r} got {got} want {want}",
                )
    check(snapshot(verts, links, unis) == before, f"{tag}: oracle pass changed graph")


def check_faults(world, tag):
    verts, links, unis, uni = world
    members = uni.vertices
    keep = lambda e, v: True  # noqa: E731
    some = lambda e, v: v is not None  # noqa: E731
    for v in verts:
        for d, u in itertools.product([FWD, ANY, BWD], [U_NON, U_NB]):
            fault_sweep(
                f"{tag}: neighbors",
                world,
                lambda cb, v=v, d=d, u=u: helpers.neighbors(
                    v, direction_sensitive=d, unknown_handling=u, filterfunc=cb
                ),
                keep,
                cmp_generic,
            )
        for w in verts[:4] + [None]:
            for s in (True, False):
                fault_sweep(
                    f"{tag}: find_links",
                    world,
                    lambda cb, v=v, w=w, s=s: helpers.find_links(
                        v,
                        w,
                        direction_sensitive=s,
                        unknown_handling=U_NB,
                        filterfunc=cb,
                    ),
                    lambda e: True,
                    cmp_generic,
                )
    travs = [
        breadthfirst.bft,
        lambda *a, **k: list(breadthfirst.ibft(*a, **k)),
        depthfirst.dft_recursive,
        depthfirst.dft_iterative,
        lambda *a, **k: list(depthfirst.idft_recursive(*a, **k)),
        lambda *a, **k: list(depthfirst.idft_iterative(*a, **k)),
    ]
    for start in members[:3]:
        for trav in travs:
            for d in (FWD, ANY, BWD):
                fault_sweep(
                    f"{tag}: trav ff_via",
                    world,
                    lambda cb, trav=trav, start=start, d=d: trav(
                        uni,
                        start,
                        direction_sensitive=d,
                        unknown_handling=U_NON,
                        ff_via=cb,
                    ),
                    some,
                    cmp_generic,
                )
                fault_sweep(
                    f"{tag}: trav ff_result",
                    world,
                    lambda cb, trav=trav, start=start, d=d: trav(
                        None,
                        start,
                        direction_sensitive=d,
                        unknown_handling=U_NB,
                        ff_via=some,
                        ff_result=cb,
                    ),
                    lambda v: v is not None and getattr(v, "i", 1) != 1,
                    cmp_generic,
                )


def check_render_and_search(tag):
    # a world the default neighbors() accepts (no unknown classes)
    uni = Universe()
    vs = [Vertex(universes=[uni], attributes={"i": i}) for i in range(6)]
    a, b, c, d, e, f = vs
    links = [
        DirectedEdge(a, b),
        DirectedEdge(a, b),
        UnDirectedEdge(b, c),
        DirectedEdge(c, a),
        DirectedEdge(d, d),
        UnDirectedEdge(c, d),
        SubDirected(d, e),
        BothEdge(f, e),
    ]
    del f["i"]
    world = (vs, links, [uni], uni)
    before = snapshot(vs, links, [uni])
    rf = lambda v: f"v{getattr(v, 'i', '-')}"  # noqa: E731
    sk = lambda v: -getattr(v, "i", 50)  # noqa: E731
    want = "v0 -> v1, v1\nv1 -> v2\nv2 -> v1, v0, v3\nv3 -> v3, v2, v4\nv4 -> v-\nv- -> v4"
    check(plaintext.basic_render(uni, rfunc=rf) == want, f"{tag}: basic_render text")
    want_sorted = "v- -> v4\nv4 -> v-\nv3 -> v4, v3, v2\nv2 -> v3, v1, v0\nv1 -> v2\nv0 -> v1, v1"
    check(
        plaintext.basic_render(uni, rfunc=rf, sort=sk) == want_sorted,
        f"{tag}: basic_render sorted text",
    )
    fault_sweep(
        f"{tag}: basic_render rfunc",
        world,
        lambda cb: plaintext.basic_render(uni, rfunc=cb, sort=sk),
        rf,
        cmp_generic,
    )
    fault_sweep(
        f"{tag}: basic_render sort",
        world,
        lambda cb: plaintext.basic_render(uni, rfunc=rf, sort=cb),
        sk,
        cmp_generic,
    )
    for search in (
        breadthfirst.bfs,
        depthfirst.dfs_recursive,
        depthfirst.dfs_iterative,
    ):
        check(search(uni, a, "i", 4) is e, f"{tag}: {search.__name__} finds e")
        check(search(uni, a, "i", 4.0) is e, f"{tag}: {search.__name__} uses ==")
        check(search(uni, a, "i", 77) is None, f"{tag}: {search.__name__} none")
        check(search(None, e, "i", 0) is None, f"{tag}: {search.__name__} sink")
    check(
        same_list(breadthfirst.bft(uni, a), [a, b, c, d, e, f]), f"{tag}: bft order"
    )
    check(
        same_list(depthfirst.dft_recursive(uni, a), [a, b, c, d, e, f]),
        f"{tag}: dft_recursive order",
    )
    check(
        same_list(depthfirst.dft_iterative(uni, a), [a, b, c, d, e, f]),
        f"{tag}: dft_iterative order",
    )
    check(
        same_list(
            breadthfirst.bft(uni, e, direction_sensitive=BWD), [e, d, f, c, b, a]
        ),
        f"{tag}: bft backward order",
    )
    check(snapshot(vs, links, [uni]) == before, f"{tag}: render/search changed graph")


def check_errors(tag):
    v = Vertex()
    # no links: nothing is looked at, not even a bad option
    check(helpers.neighbors(v, direction_sensitive="bogus") == [], f"{tag}: no links")
    w = Vertex()
    e = OddLink(v, w)
    for d in (FWD, BWD):
        got = attempt(helpers.neighbors, v, direction_sensitive=d)
        check(got == ("exc", NotImplementedError), f"{tag}: unknown class d={d}")
    check(
        same_list(helpers.neighbors(v, direction_sensitive=ANY), [w]),
        f"{tag}: any ignores class",
    )
    got = attempt(helpers.neighbors, v, direction_sensitive=3)
    check(got == ("exc", ValueError), f"{tag}: bad direction")
    got = attempt(helpers.find_links, v, w)
    check(got == ("exc", NotImplementedError), f"{tag}: find_links unknown class")
    check(helpers.find_links(v, w, direction_sensitive=False) == {e}, f"{tag}: fl any")
    # a directed edge that lost an end: other() fails first
    x, y = Vertex(), Vertex()
    de = DirectedEdge(x, y)
    de.unlink_from(x)
    for d in (FWD, ANY, BWD, "bogus"):
        got = attempt(helpers.neighbors, y, direction_sensitive=d)
        check(got == ("exc", IndexError), f"{tag}: one-ended edge d={d!r}: {got}")
    got = attempt(helpers.find_links, y, x)
    check(got == ("exc", IndexError), f"{tag}: find_links one-ended edge")


def run_all(tag):
    check_errors(tag)
    check_render_and_search(tag)
    world = handmade_world()
    check_against_oracle(world, tag + "/hand")
    check_faults(world, tag + "/hand")
    rng = random.Random(1313)
    for n in range(25):
        world = random_world(rng)
        check_against_oracle(world, f"{tag}/rnd{n}")
        if n < 8:
            check_faults(world, f"{tag}/rnd{n}")


def main():
    for caching in (False, True):
        Vertex.NEIGHBOR_CACHING = caching
        run_all("cache" if caching else "nocache")
    Vertex.NEIGHBOR_CACHING = False
    if FAILS:
        print(f"{len(FAILS)} check(s) failed")
        return 1
    print("equiv r1: all checks passed")
    return 0


if __name__ == "__main__":
    sys.exit(main())
