#!/usr/bin/env python3
"""
equiv.py for C12 / rewrite 1 (neighbor-cache storage in Vertex).

Exercises neighbors() with caching on and off: results are detached lists,
mutating them never changes a later answer, cache statistics text, cache
invalidation, toggling the cache, pickling vertices with filled caches.

Exit status 0 = everything as expected.
"""

import pickle
import sys

from edgegraph.structure import (
    Vertex,
    Universe,
    DirectedEdge,
    UnDirectedEdge,
)
from edgegraph.traversal import helpers, breadthfirst, depthfirst
from edgegraph.builder import explicit
from edgegraph.output import nrpickler

FAILS = []


def check(cond, msg):
    if not cond:
        FAILS.append(msg)
        print("FAIL:", msg)


def same(a, b):
    """Same length, pairwise identical."""
    return len(a) == len(b) and all(x is y for x, y in zip(a, b))


def reset(caching):
    Vertex.NEIGHBOR_CACHING = caching
    Vertex._CACHE_STATS = {}


def world():
    """
    a -> b, a -> b (parallel), a -- c, a -> a (self loop), d -> a,
    e: DirectedEdge(a, None)
    """
    a, b, c, d = (Vertex(attributes={"name": n}) for n in "abcd")
    uni = Universe(vertices=[a, b, c, d])
    l1 = explicit.link_directed(a, b)
    l2 = explicit.link_directed(a, b)
    l3 = explicit.link_undirected(a, c)
    l4 = explicit.link_directed(a, a)
    l5 = explicit.link_directed(d, a)
    l6 = DirectedEdge(a, None)
    return uni, (a, b, c, d), (l1, l2, l3, l4, l5, l6)


def mutate(lst):
    """Every kind of mutation on a handed-out list."""
    lst.append("junk")
    lst.sort(key=id)
    lst.reverse()
    if lst:
        lst[0] = None
        lst.remove(lst[-1])
    lst.clear()


def scenario(caching):
    tag = f"[caching={caching}] "
    reset(caching)
    uni, (a, b, c, d), links = world()

    fwd_expect = [b, b, c, a, None]
    any_expect = [b, b, c, a, d, None]
    bwd_expect = [c, a, d]

    def only_b(edge, v2):
        return v2 is b

    for rnd in range(3):
        got = helpers.neighbors(a)
        check(type(got) is list, tag + "neighbors() must return a list")
        check(same(got, fwd_expect), tag + f"forward neighbors round {rnd}")
        got2 = helpers.neighbors(a)
        check(got is not got2, tag + "two calls must hand out two lists")
        mutate(got)
        check(same(got2, fwd_expect), tag + "sibling result changed")
        mutate(got2)

        got = helpers.neighbors(a, direction_sensitive=helpers.DIR_SENS_ANY)
        check(same(got, any_expect), tag + f"any neighbors round {rnd}")
        mutate(got)

        got = helpers.neighbors(
            a, direction_sensitive=helpers.DIR_SENS_BACKWARD
        )
        check(same(got, bwd_expect), tag + f"backward neighbors round {rnd}")
        mutate(got)

        got = helpers.neighbors(a, filterfunc=only_b)
        check(same(got, [b, b]), tag + f"filtered neighbors round {rnd}")
        mutate(got)

        # positional and keyword spelling are the same question
        got = helpers.neighbors(
            a, helpers.DIR_SENS_FORWARD, helpers.LNK_UNKNOWN_ERROR, None
        )
        check(same(got, fwd_expect), tag + "positional spelling")
        mutate(got)

    # traversal results are detached as well
    order = breadthfirst.bft(uni, a)
    check(same(order, [a, b, c]), tag + "bft order")
    mutate(order)
    check(same(breadthfirst.bft(uni, a), [a, b, c]), tag + "bft after mutation")
    order = depthfirst.dft_recursive(uni, d)
    check(same(order, [d, a, b, c]), tag + "dft order")
    mutate(order)
    check(
        same(depthfirst.dft_iterative(uni, d), [d, a, c, b]),
        tag + "dft_iterative order",
    )

    # statistics text
    text = Vertex.total_cache_stats()
    check(type(text) is str, tag + "stats must be a string")
    if caching:
        lines = text.split("\n")
        check(lines[0] == "=== CACHE STATISTICS OVERALL ===", tag + "header")
        check(
            [l.split(":")[0] for l in lines[1:]]
            == ["Size", "Hits", "Misses", "Invalidations", "Insertions"],
            tag + "stat labels",
        )
        nums = [int(l.split(":")[1]) for l in lines[1:]]
        # 4 plain vertices + 1 universe
        check(nums[0] == 5, tag + f"stats size {nums[0]}")
        check(nums[1] > 0 and nums[2] > 0, tag + "hits and misses counted")
        check(nums[2] == nums[4], tag + "every miss was inserted")
        check(text == Vertex.total_cache_stats(), tag + "stats text is stable")
    else:
        check(text == "Neighbor caching is DISABLED", tag + "disabled text")

    # a structural change is seen by the next call, mutated lists or not
    stale = helpers.neighbors(a)
    e = Vertex(attributes={"name": "e"})
    l7 = explicit.link_directed(a, e)
    check(same(stale, fwd_expect), tag + "old result must not grow")
    check(
        same(helpers.neighbors(a), fwd_expect + [e]),
        tag + "new link must be seen",
    )
    l7.v2 = c
    check(
        same(helpers.neighbors(a), fwd_expect + [c]),
        tag + "re-pointed link must be seen",
    )
    check(
        same(helpers.neighbors(c, direction_sensitive=helpers.DIR_SENS_ANY), [a, a]),
        tag + "other end sees it too",
    )
    explicit.unlink(a, c)
    check(
        same(helpers.neighbors(a), [b, b, a, None]),
        tag + "unlink must be seen",
    )
    check(same(helpers.neighbors(c), []), tag + "c is isolated now")

    # a vertex built with links= answers correctly, too
    f = Vertex()
    g = Vertex()
    lfg = UnDirectedEdge(f, g)
    h = Vertex(links=[lfg, lfg])
    check(same(h.links, (lfg,)), tag + "links= deduplicates by identity")
    check(same(lfg.vertices, (f, g, h)), tag + "links= extends the link")
    check(same(helpers.neighbors(f), [g]), tag + "f neighbors")

    # unhashable filter: TypeError only if the cache is consulted
    class Unhashable:
        __hash__ = None

        def __call__(self, edge, v2):
            return True

    try:
        res = helpers.neighbors(a, filterfunc=Unhashable())
        check(not caching, tag + "unhashable filter must fail with caching")
        check(same(res, [b, b, a, None]), tag + "unhashable filter result")
    except TypeError:
        check(caching, tag + "unhashable filter must work without caching")

    # invalid direction on an isolated vertex is (oddly) accepted
    check(helpers.neighbors(c, direction_sensitive=17) == [], tag + "dir 17")
    try:
        helpers.neighbors(a, direction_sensitive=17)
        check(False, tag + "dir 17 with links must raise")
    except ValueError:
        pass

    # pickling vertices with whatever the cache holds
    for dumper in (nrpickler.dumps, pickle.dumps):
        helpers.neighbors(a)
        helpers.neighbors(b, direction_sensitive=helpers.DIR_SENS_ANY)
        uni2 = pickle.loads(dumper(uni))
        names = [v.name for v in uni2.vertices]
        check(names == ["a", "b", "c", "d"], tag + "unpickled vertices")
        a2, b2 = uni2.vertices[0], uni2.vertices[1]
        got = helpers.neighbors(a2)
        check(
            [getattr(v, "name", None) for v in got] == ["b", "b", "a", None],
            tag + "unpickled neighbors",
        )
        check(got[0] is b2 and got[2] is a2, tag + "unpickled identity")
        mutate(got)
        check(
            [getattr(v, "name", None) for v in helpers.neighbors(a2)]
            == ["b", "b", "a", None],
            tag + "unpickled neighbors after mutation",
        )
        check(
            same(
                helpers.neighbors(
                    b2, direction_sensitive=helpers.DIR_SENS_ANY
                ),
                [a2, a2],
            ),
            tag + "unpickled backward neighbors",
        )


def toggling():
    """Answers stored while caching was on never come back stale."""
    reset(True)
    a, b, c = Vertex(), Vertex(), Vertex()
    explicit.link_directed(a, b)
    first = helpers.neighbors(a)
    check(same(first, [b]), "toggle: first answer")
    first.append(c)
    check(same(helpers.neighbors(a), [b]), "toggle: cached answer intact")
    Vertex.NEIGHBOR_CACHING = False
    explicit.link_directed(a, c)
    check(same(helpers.neighbors(a), [b, c]), "toggle: uncached answer")
    Vertex.NEIGHBOR_CACHING = True
    got = helpers.neighbors(a)
    check(same(got, [b, c]), "toggle: no stale answer after re-enabling")
    got.clear()
    check(same(helpers.neighbors(a), [b, c]), "toggle: still intact")
    check(
        Vertex.total_cache_stats().startswith("=== CACHE STATISTICS"),
        "toggle: stats on",
    )
    Vertex.NEIGHBOR_CACHING = False
    check(
        Vertex.total_cache_stats() == "Neighbor caching is DISABLED",
        "toggle: stats off",
    )


def exact_stats():
    """Exact counters for a tiny, fully determined session."""
    reset(True)
    check(
        Vertex.total_cache_stats()
        == "=== CACHE STATISTICS OVERALL ===\n"
        "Size:          0\nHits:          0\nMisses:        0\n"
        "Invalidations: 0\nInsertions:    0",
        "exact: empty table",
    )
    a, b = Vertex(), Vertex()
    explicit.link_directed(a, b)
    helpers.neighbors(a)
    helpers.neighbors(a).append(1)
    helpers.neighbors(a)
    helpers.neighbors(b)
    lines = Vertex.total_cache_stats().split("\n")
    check(lines[1] == "Size:          2", "exact: size " + lines[1])
    check(lines[2] == "Hits:          2", "exact: hits " + lines[2])
    check(lines[3] == "Misses:        2", "exact: misses " + lines[3])
    check(lines[5] == "Insertions:    2", "exact: insertions " + lines[5])


def main():
    before = Vertex.NEIGHBOR_CACHING
    try:
        scenario(False)
        scenario(True)
        toggling()
        exact_stats()
    finally:
        Vertex.NEIGHBOR_CACHING = before
        Vertex._CACHE_STATS = {}
    if FAILS:
        print(f"{len(FAILS)} check(s) failed")
        return 1
    print("all checks passed")
    return 0


if __name__ == "__main__":
    sys.exit(main())
