#!/usr/bin/env python3
# -*- coding: utf-8 -*-

"""
Equivalence / conformance check for property C08:

    bfs, dfs_recursive and dfs_iterative return the first vertex, in the order
    in which bft, dft_recursive and dft_iterative respectively list vertices
    from the same start in the same universe, that has the named attribute with
    a value equal (==) to the one sought, and None when no listed vertex
    matches.  The start vertex itself is eligible, a vertex outside the
    universe or lacking the attribute is never returned, and the answer does
    not depend on any property of the vertex objects other than that attribute
    (in particular not on their truth value).

Only the public API of edgegraph is used.  Three layers of checking:

1. scripted corner cases (empty universe, start outside the universe, start
   matches, self-loops, parallel edges, falsy vertices, None-ended edges,
   non-string attribute names, unhashable starts, pickling, ...);
2. a seeded random differential test against an oracle that is written from
   the property statement and works on a *model* of the graph (plain lists and
   dicts; it never calls into edgegraph);
3. a seeded random "trace" differential test: instrumented vertices, edges,
   attribute values, sought values and universes record every call the library
   makes into user code (hash / eq / attribute reads / ``other`` /
   ``vertices``).  The trace, the result, the exception raised when a callback
   blows up after k events (for every k), and the neighbor-cache statistics
   are compared between the library and a straight transcription of the
   documented algorithms, run on a twin copy of the same graph.

Exit status 0 means everything agreed.
"""

import collections
import pickle
import random
import re
import sys

from edgegraph.structure import (
    Vertex,
    Universe,
    DirectedEdge,
    UnDirectedEdge,
    TwoEndedLink,
)
from edgegraph.traversal import breadthfirst, depthfirst, helpers
from edgegraph.output import nrpickler

FAILURES = []
CHECKS = [0]


def check(cond, msg):
    """Record a failed expectation (keep going, report all at the end)."""
    CHECKS[0] += 1
    if not cond:
        FAILURES.append(msg)
        if len(FAILURES) < 40:
            print("FAIL:", msg)


SEARCHES = {
    "bfs": breadthfirst.bfs,
    "dfs_recursive": depthfirst.dfs_recursive,
    "dfs_iterative": depthfirst.dfs_iterative,
}
TRAVERSALS = {
    "bfs": breadthfirst.bft,
    "dfs_recursive": depthfirst.dft_recursive,
    "dfs_iterative": depthfirst.dft_iterative,
}


###############################################################################
# model + oracle (never touches edgegraph)
###############################################################################

MISSING = object()


class Spec:
    """
    Plain-data description of a graph.

    n        -- number of vertices
    edges    -- list of (kind, a, b); kind "U" (undirected) or "D" (a --> b)
    member   -- member[i] tells whether vertex i is in the searched universe
    attrs    -- attrs[i] is the value of the searched attribute or MISSING
    falsy    -- falsy[i]: vertex i is an instance of a class whose truth value
                is False
    """

    def __init__(self, n, edges, member, attrs, falsy):
        self.n = n
        self.edges = edges
        self.member = member
        self.attrs = attrs
        self.falsy = falsy

    def neighbors(self, i):
        """Forward neighbours of i, in the order its links were attached."""
        out = []
        for kind, a, b in self.edges:
            if i not in (a, b):
                continue
            if kind == "U":
                out.append(b if i == a else a)
            elif a == i:
                out.append(b)
        return out


def model_bft(spec, start, bounded):
    inside = (lambda i: spec.member[i]) if bounded else (lambda i: True)
    order = [start]
    seen = {start}
    queue = collections.deque([start])
    while queue:
        u = queue.popleft()
        for v in spec.neighbors(u):
            if inside(v) and v not in seen:
                seen.add(v)
                order.append(v)
                queue.append(v)
    return order


def model_dft_recursive(spec, start, bounded):
    inside = (lambda i: spec.member[i]) if bounded else (lambda i: True)
    order = []
    seen = set()

    def go(v):
        seen.add(v)
        order.append(v)
        for w in spec.neighbors(v):
            if inside(w) and w not in seen:
                go(w)

    go(start)
    return order


def model_dft_iterative(spec, start, bounded):
    inside = (lambda i: spec.member[i]) if bounded else (lambda i: True)
    order = []
    stack = [start]
    while stack:
        v = stack.pop()
        if v in order or not inside(v):
            continue
        order.append(v)
        stack.extend(spec.neighbors(v))
    return order


MODEL_ORDER = {
    "bfs": model_bft,
    "dfs_recursive": model_dft_recursive,
    "dfs_iterative": model_dft_iterative,
}


def oracle(spec, which, start, bounded, target):
    """First vertex of the corresponding traversal order that matches."""
    for i in MODEL_ORDER[which](spec, start, bounded):
        if spec.attrs[i] is not MISSING and spec.attrs[i] == target:
            return i
    return None


###############################################################################
# plain realisation of a Spec with stock edgegraph classes
###############################################################################


class FalsyVertex(Vertex):
    """A vertex that is False in a boolean context."""

    def __bool__(self):
        return False


class EmptyLookingVertex(Vertex):
    """A vertex that is falsy because it has a zero length."""

    def __len__(self):
        return 0


def realise(spec, rng, attrib="tag", with_universe=True):
    """Build real objects for ``spec``; returns (uni, verts, other_uni)."""
    uni = Universe() if with_universe else None
    other = Universe()
    verts = []
    for i in range(spec.n):
        cls = Vertex
        if spec.falsy[i]:
            cls = rng.choice([FalsyVertex, EmptyLookingVertex])
        attributes = {"idx": i}
        if spec.attrs[i] is not MISSING:
            attributes[attrib] = spec.attrs[i]
        v = cls(attributes=attributes)
        verts.append(v)
        if with_universe and spec.member[i]:
            # exercise both ways of joining a universe
            if rng.random() < 0.5:
                uni.add_vertex(v)
            else:
                v.add_to_universe(uni)
        if rng.random() < 0.4:
            other.add_vertex(v)
    for kind, a, b in spec.edges:
        if kind == "U":
            UnDirectedEdge(verts[a], verts[b])
        else:
            DirectedEdge(verts[a], verts[b])
    return uni, verts, other


def random_spec(rng, nmax=9):
    n = rng.randint(1, nmax)
    nedges = rng.randint(0, 2 * n + 2)
    edges = []
    for _ in range(nedges):
        kind = rng.choice("UDD")
        a = rng.randrange(n)
        b = rng.randrange(n) if rng.random() < 0.9 else a
        edges.append((kind, a, b))
        if rng.random() < 0.15:
            # parallel / anti-parallel duplicate
            edges.append((rng.choice("UD"), b, a) if rng.random() < 0.5 else (kind, a, b))
    member = [rng.random() < 0.75 for _ in range(n)]
    attrs = []
    for _ in range(n):
        r = rng.random()
        if r < 0.25:
            attrs.append(MISSING)
        else:
            # few distinct values => many duplicates; include falsy values,
            # values equal across types (1 == 1.0 == True), None, strings
            attrs.append(rng.choice([0, 1, 2, 3, 1.0, True, None, "", "x", (1, 2)]))
    falsy = [rng.random() < 0.3 for _ in range(n)]
    return Spec(n, edges, member, attrs, falsy)


###############################################################################
# 1. scripted corner cases
###############################################################################


def expect_raises(exc, fn, *args, label=""):
    try:
        fn(*args)
    except exc as caught:  # pylint: disable=broad-except
        check(type(caught) is exc, f"{label}: raised {type(caught)} not exactly {exc}")
        return caught
    except BaseException as other:  # pylint: disable=broad-except
        check(False, f"{label}: raised {type(other).__name__}({other}) instead of {exc.__name__}")
        return None
    check(False, f"{label}: did not raise {exc.__name__}")
    return None


def scripted():
    # -- empty universe -------------------------------------------------------
    empty = Universe()
    lone = Vertex(attributes={"tag": 1})
    check(breadthfirst.bfs(empty, lone, "tag", 1) is None, "bfs on empty universe must be None")
    check(breadthfirst.bfs(empty, None, "tag", 1) is None, "bfs on empty universe with start None must be None")
    check(breadthfirst.bft(empty, lone) == [], "bft on empty universe must be []")
    for name in ("dfs_recursive", "dfs_iterative"):
        err = expect_raises(ValueError, SEARCHES[name], empty, lone, "tag", 1, label=f"{name} empty universe")
        check(err is not None and "empty" in str(err).lower(), f"{name} empty universe message: {err}")
        expect_raises(ValueError, TRAVERSALS[name], empty, lone, label=f"{name} traversal empty universe")

    # -- start outside of a non-empty universe ------------------------------
    uni = Universe()
    inside = Vertex(attributes={"tag": 1}, universes=[uni])
    outside = Vertex(attributes={"tag": 1})
    DirectedEdge(outside, inside)
    for name, fn in SEARCHES.items():
        err = expect_raises(ValueError, fn, uni, outside, "tag", 1, label=f"{name} start outside")
        check(err is not None and "not in" in str(err), f"{name} start-outside message: {err}")
        # even when the start would match
        expect_raises(ValueError, TRAVERSALS[name], uni, outside, label=f"{name} traversal start outside")
        expect_raises(ValueError, fn, uni, None, "tag", 1, label=f"{name} start None in universe")
        # the same search without universe limits finds the start itself
        check(fn(None, outside, "tag", 1) is outside, f"{name} unbounded: start itself should match")
        check(fn(None, outside, "tag", 2) is None, f"{name} unbounded: nothing matches")

    # -- the start is eligible, and is preferred over later vertices --------
    uni = Universe()
    a = Vertex(attributes={"tag": 5}, universes=[uni])
    b = Vertex(attributes={"tag": 5}, universes=[uni])
    c = Vertex(attributes={"tag": 6}, universes=[uni])
    DirectedEdge(a, b)
    DirectedEdge(b, c)
    DirectedEdge(c, a)
    for name, fn in SEARCHES.items():
        check(fn(uni, a, "tag", 5) is a, f"{name}: start vertex must be returned when it matches")
        check(fn(uni, b, "tag", 5) is b, f"{name}: start vertex b must be returned when it matches")
        check(fn(uni, c, "tag", 5) is a, f"{name}: c -> a is the first match from c")
        check(fn(uni, a, "tag", 6) is c, f"{name}: a -> b -> c")
        check(fn(uni, a, "tag", 7) is None, f"{name}: no match => None")
        check(fn(uni, a, "nope", 5) is None, f"{name}: missing attribute => None")
        check(fn(uni, a, "tag", 5.0) is a, f"{name}: == comparison, not identity (5 == 5.0)")

    # -- a lone vertex with a self loop -------------------------------------
    for edgecls in (DirectedEdge, UnDirectedEdge):
        uni = Universe()
        s = Vertex(attributes={"tag": 0}, universes=[uni])
        edgecls(s, s)
        for name, fn in SEARCHES.items():
            check(fn(uni, s, "tag", 0) is s, f"{name}: self-loop start match ({edgecls.__name__})")
            check(fn(uni, s, "tag", 1) is None, f"{name}: self-loop no match ({edgecls.__name__})")
            check(fn(None, s, "tag", 1) is None, f"{name}: self-loop no match, unbounded")
            check(TRAVERSALS[name](uni, s) == [s], f"{name}: self-loop traversal")

    # -- a vertex outside of the universe is never returned nor crossed -----
    uni = Universe()
    a = Vertex(attributes={"tag": 0}, universes=[uni])
    x = Vertex(attributes={"tag": 9})  # not in uni
    d = Vertex(attributes={"tag": 9}, universes=[uni])  # only behind x
    e = Vertex(attributes={"tag": 9}, universes=[uni])  # reachable inside
    f = Vertex(attributes={"tag": 1}, universes=[uni])
    DirectedEdge(a, x)
    DirectedEdge(x, d)
    DirectedEdge(a, f)
    DirectedEdge(f, e)
    for name, fn in SEARCHES.items():
        check(fn(uni, a, "tag", 9) is e, f"{name}: must skip the outsider and what is only behind it")
        # unbounded: bfs / dfs_recursive list x before e; dfs_iterative takes
        # the last edge of a first (a f e x d)
        first = e if name == "dfs_iterative" else x
        check(fn(None, a, "tag", 9) is first, f"{name}: unbounded search, first 9 of its own order")
    uni.remove_vertex(e)
    for name, fn in SEARCHES.items():
        check(fn(uni, a, "tag", 9) is None, f"{name}: after removal nothing is reachable inside")
    # universe membership is per-universe
    uni2 = Universe(vertices=[a, x, d])
    for name, fn in SEARCHES.items():
        check(fn(uni2, a, "tag", 9) is x, f"{name}: other universe has other members")
        check(fn(uni2, a, "tag", 1) is None, f"{name}: f is not in the second universe")

    # -- order sensitivity: three shapes where the three orders differ ------
    #        r
    #      / | \
    #     p  q  s        p -> t(tag 7);  s -> u(tag 7); q(tag 7)? no: q tag 8
    uni = Universe()
    r = Vertex(attributes={"tag": 0, "n": "r"}, universes=[uni])
    p = Vertex(attributes={"tag": 1, "n": "p"}, universes=[uni])
    q = Vertex(attributes={"tag": 8, "n": "q"}, universes=[uni])
    s = Vertex(attributes={"tag": 8, "n": "s"}, universes=[uni])
    t = Vertex(attributes={"tag": 8, "n": "t"}, universes=[uni])
    DirectedEdge(r, p)
    DirectedEdge(r, q)
    DirectedEdge(r, s)
    DirectedEdge(p, t)
    check(breadthfirst.bfs(uni, r, "tag", 8) is q, "bfs: q is the first 8 in breadth-first order")
    check(depthfirst.dfs_recursive(uni, r, "tag", 8) is t, "dfs_recursive: t is the first 8 (r p t q s)")
    check(depthfirst.dfs_iterative(uni, r, "tag", 8) is s, "dfs_iterative: s is the first 8 (r s q p t)")
    check([v.n for v in breadthfirst.bft(uni, r)] == list("rpqst"), "bft order")
    check([v.n for v in depthfirst.dft_recursive(uni, r)] == list("rptqs"), "dft_recursive order")
    check([v.n for v in depthfirst.dft_iterative(uni, r)] == list("rsqpt"), "dft_iterative order")

    # -- truth value of vertices is irrelevant -------------------------------
    for cls in (FalsyVertex, EmptyLookingVertex):
        uni = Universe()
        chain = [cls(attributes={"tag": i}, universes=[uni]) for i in range(5)]
        for x1, x2 in zip(chain, chain[1:]):
            DirectedEdge(x1, x2)
        check(not chain[0], "test vertex class must be falsy")
        for name, fn in SEARCHES.items():
            for i in range(5):
                check(fn(uni, chain[0], "tag", i) is chain[i], f"{name}: falsy vertex {i} at the end of a chain ({cls.__name__})")
                check(fn(None, chain[0], "tag", i) is chain[i], f"{name}: falsy vertex {i}, unbounded ({cls.__name__})")
            check(fn(uni, chain[0], "tag", 5) is None, f"{name}: falsy chain, no match")
            check(fn(uni, chain[2], "tag", 1) is None, f"{name}: directed edges are not followed backwards")

    # -- undirected edges are followed both ways; parallel edges -------------
    uni = Universe()
    a = Vertex(attributes={"tag": "a"}, universes=[uni])
    b = Vertex(attributes={"tag": "b"}, universes=[uni])
    c = Vertex(attributes={"tag": "c"}, universes=[uni])
    UnDirectedEdge(a, b)
    UnDirectedEdge(a, b)
    DirectedEdge(c, b)
    UnDirectedEdge(b, c)
    for name, fn in SEARCHES.items():
        check(fn(uni, b, "tag", "a") is a, f"{name}: undirected edge backwards")
        check(fn(uni, a, "tag", "c") is c, f"{name}: a - b - c")
        check(fn(uni, c, "tag", "a") is a, f"{name}: c - b - a")

    # -- attribute that exists on every object / on no object ----------------
    for name, fn in SEARCHES.items():
        check(fn(uni, a, "uid", b.uid) is b, f"{name}: search by a property of the class (uid)")
        check(fn(uni, a, "uid", -1) is None, f"{name}: uid that does not exist")
        check(fn(uni, a, "links", a.links) is a, f"{name}: search by links tuple")
        # attribute names must be strings; hasattr() says so
        expect_raises(TypeError, fn, uni, a, 7, 7, label=f"{name}: non-string attribute name")

    # -- a universe is a vertex too ------------------------------------------
    outer = Universe()
    inner1 = Universe(attributes={"tag": 1})
    inner2 = Universe(attributes={"tag": 2})
    outer.add_vertex(inner1)
    outer.add_vertex(inner2)
    DirectedEdge(inner1, inner2)
    for name, fn in SEARCHES.items():
        check(fn(outer, inner1, "tag", 2) is inner2, f"{name}: universes as vertices")
        check(fn(inner1, inner1, "tag", 1) is None if name == "bfs" else True, f"{name}: empty inner universe")

    # -- edges with a dangling (None) end ------------------------------------
    uni = Universe()
    a = Vertex(attributes={"tag": 1}, universes=[uni])
    b = Vertex(attributes={"tag": 2}, universes=[uni])
    DirectedEdge(a, None)
    DirectedEdge(a, b)
    for name, fn in SEARCHES.items():
        # inside a universe, None is just "not a member"
        check(fn(uni, a, "tag", 2) is b, f"{name}: None neighbour is skipped inside a universe")
        check(fn(uni, a, "tag", 3) is None, f"{name}: None neighbour is skipped inside a universe (no match)")
        check(TRAVERSALS[name](uni, a) == [a, b], f"{name}: traversal skips None")
    # without a universe the three behave differently, as their traversals do:
    # bfs tests b before it tries to expand None; the DFS flavours reach None
    # at different times
    check(breadthfirst.bfs(None, a, "tag", 2) is b, "bfs: b found before None is expanded")
    expect_raises(AttributeError, breadthfirst.bfs, None, a, "tag", 3, label="bfs: expanding None")
    expect_raises(AttributeError, breadthfirst.bft, None, a, label="bft: expanding None")
    expect_raises(AttributeError, depthfirst.dfs_recursive, None, a, "tag", 2, label="dfs_recursive: None comes first")
    expect_raises(AttributeError, depthfirst.dft_recursive, None, a, label="dft_recursive: None comes first")
    check(depthfirst.dfs_iterative(None, a, "tag", 2) is b, "dfs_iterative: b is popped before None")
    expect_raises(AttributeError, depthfirst.dfs_iterative, None, a, "tag", 3, label="dfs_iterative: expanding None")
    expect_raises(AttributeError, depthfirst.dft_iterative, None, a, label="dft_iterative: expanding None")

    # -- unknown link classes: searches use the default handling (error) -----
    uni = Universe()
    a = Vertex(attributes={"tag": 1}, universes=[uni])
    b = Vertex(attributes={"tag": 2}, universes=[uni])
    TwoEndedLink(a, b)
    for name, fn in SEARCHES.items():
        check(fn(uni, a, "tag", 1) is a, f"{name}: start matches before links are looked at")
        expect_raises(NotImplementedError, fn, uni, a, "tag", 2, label=f"{name}: unknown link class")

    # -- start that is not a vertex at all, unbounded ------------------------
    for name, fn in SEARCHES.items():
        # bfs and dfs_recursive keep their bookkeeping in hashed containers,
        # dfs_iterative in a list (so it gets as far as asking for neighbours)
        expect_raises(AttributeError if name == "dfs_iterative" else TypeError, fn, None, [], "tag", 2,
                      label=f"{name}: unhashable non-vertex start")
        expect_raises(AttributeError, fn, None, 12, "tag", 2, label=f"{name}: int start")
        # ... but the start is tested before anything else happens to it
        expect_raises(TypeError, fn, None, 12, "real", 12, label=f"{name}: int start is not subscriptable")

    # -- sought value whose == is unusual ------------------------------------
    class Anything:
        def __eq__(self, other):
            return True

        __hash__ = None

    class NothingAtAll:
        def __eq__(self, other):
            return False

        __hash__ = None

    class Sulky:
        """== gives an object whose truth value is the answer."""

        class Verdict:
            def __init__(self, yes):
                self.yes = yes

            def __bool__(self):
                return self.yes

        def __init__(self, want):
            self.want = want

        def __eq__(self, other):
            return Sulky.Verdict(other == self.want)

        __hash__ = None

    uni = Universe()
    a = Vertex(attributes={"other": 1}, universes=[uni])
    b = Vertex(attributes={"tag": object()}, universes=[uni])
    c = Vertex(attributes={"tag": 3}, universes=[uni])
    DirectedEdge(a, b)
    DirectedEdge(b, c)
    for name, fn in SEARCHES.items():
        check(fn(uni, a, "tag", Anything()) is b, f"{name}: first vertex that HAS the attribute")
        check(fn(uni, a, "tag", NothingAtAll()) is None, f"{name}: never-equal value")
        check(fn(uni, a, "tag", Sulky(3)) is c, f"{name}: truthiness of the == result decides")
        check(fn(uni, a, "tag", float("nan")) is None, f"{name}: nan is equal to nothing")

    # -- searches do not modify anything -------------------------------------
    rng = random.Random(4)
    spec = random_spec(rng)
    uni, verts, _ = realise(spec, rng)
    before = snapshot(uni, verts)
    for name, fn in SEARCHES.items():
        for start in verts:
            for target in (0, 1, 2, "x", None):
                try:
                    fn(uni, start, "tag", target)
                except ValueError:
                    pass
    check(snapshot(uni, verts) == before, "searching changed the graph")

    # -- pickling round trip ---------------------------------------------------
    rng = random.Random(99)
    for _ in range(10):
        spec = random_spec(rng)
        spec.falsy = [False] * spec.n  # stock classes only
        uni, verts, _ = realise(spec, rng)
        if not uni.vertices:
            continue
        for dumps in (pickle.dumps, nrpickler.dumps):
            uni2 = pickle.loads(dumps(uni))
            byidx = {v.idx: v for v in uni2.vertices}
            for name, fn in SEARCHES.items():
                for start in uni.vertices:
                    for target in (0, 1, 2, 3, "x", None, ""):
                        r1 = fn(uni, start, "tag", target)
                        r2 = fn(uni2, byidx[start.idx], "tag", target)
                        check((r1 is None) == (r2 is None) and (r1 is None or r1.idx == r2.idx),
                              f"{name}: result differs after pickling round trip")
                        check(r2 is None or r2 is byidx[r2.idx], f"{name}: result after unpickling is not a member object")


def snapshot(uni, verts):
    """Everything observable about a small graph, by index."""
    idx = {id(v): i for i, v in enumerate(verts)}
    out = []
    for v in verts:
        pub = {k: val for k, val in vars(v).items() if not k.startswith("_")}
        out.append((
            sorted(pub.items(), key=repr),
            [(type(l).__name__, [idx.get(id(x)) for x in l.vertices]) for l in v.links],
            [id(u) for u in v.universes],
        ))
    if uni is not None:
        out.append([idx[id(v)] for v in uni.vertices])
    return repr(out)


###############################################################################
# 2. random differential against the model oracle
###############################################################################


def random_vs_oracle(seed, rounds):
    rng = random.Random(seed)
    targets = [0, 1, 2, 3, 1.0, True, False, None, "", "x", (1, 2), 4]
    for rnd in range(rounds):
        spec = random_spec(rng)
        for bounded in (True, False):
            uni, verts, _ = realise(spec, rng, with_universe=bounded)
            index = {id(v): i for i, v in enumerate(verts)}
            for start in range(spec.n):
                if bounded and not spec.member[start]:
                    # documented: ValueError (or None from bfs when empty)
                    for name, fn in SEARCHES.items():
                        if name == "bfs" and not any(spec.member):
                            check(fn(uni, verts[start], "tag", 1) is None, "bfs empty universe")
                        else:
                            expect_raises(ValueError, fn, uni, verts[start], "tag", spec.attrs[start], label=f"{name} start outside (random)")
                    continue
                for name, fn in SEARCHES.items():
                    want_order = MODEL_ORDER[name](spec, start, bounded)
                    got_order = [index[id(v)] for v in TRAVERSALS[name](uni, verts[start])]
                    check(got_order == want_order, f"seed {seed} round {rnd}: {name} traversal order {got_order} != model {want_order}")
                    for target in targets:
                        want = oracle(spec, name, start, bounded, target)
                        got = fn(uni, verts[start], "tag", target)
                        ok = (got is None and want is None) or (got is not None and want is not None and got is verts[want])
                        check(ok, f"seed {seed} round {rnd}: {name}(start={start}, target={target!r}, bounded={bounded}) -> "
                                  f"{None if got is None else index.get(id(got))}, oracle {want}")
                        # the statement, literally: first match of the library's own listing
                        lit = None
                        for v in TRAVERSALS[name](uni, verts[start]):
                            if hasattr(v, "tag") and v["tag"] == target:
                                lit = v
                                break
                        check(got is lit, f"seed {seed} round {rnd}: {name} differs from first match of its traversal")
                        if got is not None:
                            check(bounded is False or got in uni.vertices, f"{name}: returned a vertex outside the universe")
                            check(hasattr(got, "tag") and got.tag == target, f"{name}: returned a vertex that does not match")
                    # an attribute nobody has
                    check(fn(uni, verts[start], "no_such_attribute", 1) is None, f"{name}: attribute nobody has")
                    # an attribute everybody has, unique value
                    for j in want_order:
                        check(fn(uni, verts[start], "idx", j) is verts[j], f"{name}: every listed vertex can be found by idx")
                    for j in set(range(spec.n)) - set(want_order):
                        check(fn(uni, verts[start], "idx", j) is None, f"{name}: unlisted vertex {j} must not be found")


###############################################################################
# 3. trace differential: every call into user code, in order
###############################################################################


class Boom(Exception):
    """Raised by an instrumented object when the fuse runs out."""


class Recorder:
    def __init__(self):
        self.events = []
        self.armed = False
        self.fuse = None

    def note(self, *event):
        if not self.armed:
            return
        self.events.append(event)
        if self.fuse is not None:
            self.fuse -= 1
            if self.fuse <= 0:
                self.fuse = None
                raise Boom(event)


REC = Recorder()


class TVerdict:
    """Result of TValue.__eq__; its truth value is read by the library."""

    def __init__(self, label, yes):
        self.label = label
        self.yes = yes

    def __bool__(self):
        REC.note("bool", self.label)
        return self.yes


class TValue:
    """Attribute value / sought value with a recorded ==."""

    def __init__(self, label, payload):
        self.label = label
        self.payload = payload

    def __eq__(self, other):
        olabel = other.label if isinstance(other, TValue) else repr(other)
        REC.note("val==", self.label, olabel)
        opay = other.payload if isinstance(other, TValue) else other
        return TVerdict((self.label, olabel), self.payload == opay)

    __hash__ = None


class TVertex(Vertex):
    """Vertex recording hash / eq / item access / attribute reads."""

    HASH_BUCKETS = None  # None: distinct hashes; k: idx % k (forces collisions)

    def __hash__(self):
        REC.note("hash", self.idx)
        if TVertex.HASH_BUCKETS:
            return self.idx % TVertex.HASH_BUCKETS
        return self.idx

    def __eq__(self, other):
        REC.note("eq", self.idx, getattr(other, "idx", repr(other)))
        return self is other

    def __getitem__(self, name):
        REC.note("getitem", self.idx, name)
        return super().__getitem__(name)

    def __bool__(self):
        REC.note("truth", self.idx)
        return False

    @property
    def tag(self):
        """The searched attribute: recorded, and absent for some vertices."""
        REC.note("tag", self.idx)
        if self._tagval is MISSING:
            raise AttributeError("tag")
        return self._tagval

    @property
    def links(self):
        REC.note("links", self.idx)
        return super().links


class TDirected(DirectedEdge):
    def other(self, end):
        REC.note("other", self.eidx, getattr(end, "idx", None))
        return super().other(end)


class TUndirected(UnDirectedEdge):
    def other(self, end):
        REC.note("other", self.eidx, getattr(end, "idx", None))
        return super().other(end)


class TUniverse(Universe):
    @property
    def vertices(self):
        REC.note("vertices")
        return super().vertices


def realise_traced(spec, bounded):
    uni = TUniverse() if bounded else None
    verts = []
    for i in range(spec.n):
        v = TVertex(attributes={"idx": i, "_tagval": MISSING})
        if spec.attrs[i] is not MISSING:
            v._tagval = TValue(f"a{i}", spec.attrs[i])  # pylint: disable=protected-access
        verts.append(v)
        if bounded and spec.member[i]:
            uni.add_vertex(v)
    for k, (kind, a, b) in enumerate(spec.edges):
        cls = TUndirected if kind == "U" else TDirected
        cls(verts[a], verts[b], attributes={"eidx": k})
    return uni, verts


# --- straight transcription of the documented algorithms --------------------
# ([CLRS09] fig. 22.3 / 22.4 and [KlTa05] alg. 3.12 with the early exits the
# docstrings describe), expressed with the public API only.


def ref_bfs(uni, start, attrib, val):
    if (uni is not None) and (len(uni.vertices) == 0):
        return None
    if (uni is not None) and (start not in uni.vertices):
        raise ValueError("Start vertex not in specified universe!")
    if hasattr(start, attrib):
        if start[attrib] == val:
            return start
    visited = set()
    queue = collections.deque([start])
    visited.add(start)
    while queue:
        u = queue.popleft()
        for v in helpers.neighbors(u):
            if (uni is not None) and (v not in uni.vertices):
                continue
            if hasattr(v, attrib):
                if v[attrib] == val:
                    return v
            if v not in visited:
                visited.add(v)
                queue.append(v)
    return None


def ref_preflight(uni, start):
    if (uni is not None) and (len(uni.vertices) == 0):
        raise ValueError("Universe is empty; cannot perform this operation!")
    if (uni is not None) and (start not in uni.vertices):
        raise ValueError("Start vertex not in specified universe!")


def ref_dfs_recur(uni, v, visited, attrib, val):
    visited[v] = None
    for w in helpers.neighbors(v):
        if (uni is not None) and (w not in uni.vertices):
            continue
        if w not in visited:
            if hasattr(w, attrib):
                if w[attrib] == val:
                    return w
            ret = ref_dfs_recur(uni, w, visited, attrib, val)
            if ret is not None:
                return ret
    return None


def ref_dfs_recursive(uni, start, attrib, val):
    ref_preflight(uni, start)
    if hasattr(start, attrib):
        if start[attrib] == val:
            return start
    visited = {}
    return ref_dfs_recur(uni, start, visited, attrib, val)


def ref_dfs_iterative(uni, start, attrib, val):
    ref_preflight(uni, start)
    stack = [start]
    discovered = []
    while len(stack) != 0:
        v = stack.pop()
        if (uni is not None) and (v not in uni.vertices):
            continue
        if v not in discovered:
            if hasattr(v, attrib):
                if v[attrib] == val:
                    return v
            discovered.append(v)
            for w in helpers.neighbors(v):
                stack.append(w)
    return None


REFERENCE = {
    "bfs": ref_bfs,
    "dfs_recursive": ref_dfs_recursive,
    "dfs_iterative": ref_dfs_iterative,
}


def cache_stats():
    """Totals of the neighbor cache, through the public summary."""
    text = Vertex.total_cache_stats()
    nums = re.findall(r"^(Hits|Misses|Invalidations|Insertions):\s+(\d+)$", text, re.M)
    return tuple(int(n) for _, n in nums)


def run_traced(fn, uni, start, attrib, val, fuse, stats=True):
    """Run fn with recording on; returns (outcome, events, cache delta)."""
    REC.events = []
    REC.fuse = fuse
    if not stats:
        cache_stats_ = lambda: ()
    else:
        cache_stats_ = cache_stats
    before = cache_stats_()
    REC.armed = True
    try:
        try:
            res = fn(uni, start, attrib, val)
            outcome = ("ret", None if res is None else res.idx)
        except Boom as exc:
            outcome = ("boom", exc.args)
        except Exception as exc:  # pylint: disable=broad-except
            outcome = ("exc", type(exc).__name__, str(exc))
    finally:
        REC.armed = False
        REC.fuse = None
    after = cache_stats_()
    delta = tuple(a - b for a, b in zip(after, before))
    return outcome, REC.events, delta


def trace_differential(seed, rounds, caching):
    rng = random.Random(seed)
    Vertex.NEIGHBOR_CACHING = caching
    try:
        for rnd in range(rounds):
            spec = random_spec(rng, nmax=6)
            TVertex.HASH_BUCKETS = rng.choice([None, None, 1, 2, 3])
            bounded = rng.random() < 0.7
            start = rng.randrange(spec.n)
            payload = rng.choice([0, 1, 2, 3, "x", None, 17])
            for name in SEARCHES:
                # full runs first, on twin graphs, repeated so that the second
                # pass runs against a warm neighbor cache
                uni_a, verts_a = realise_traced(spec, bounded)
                uni_b, verts_b = realise_traced(spec, bounded)
                length = 0
                for rep in range(2):
                    want = run_traced(REFERENCE[name], uni_a, verts_a[start], "tag", TValue("sought", payload), None)
                    got = run_traced(SEARCHES[name], uni_b, verts_b[start], "tag", TValue("sought", payload), None)
                    check(got == want, f"trace seed {seed} round {rnd} {name} caching={caching} rep={rep}: "
                                       f"library {got[0]} / {len(got[1])} events, reference {want[0]} / {len(want[1])} events"
                                       + first_difference(got[1], want[1]))
                    length = max(length, len(want[1]))
                    # the oracle must agree too (the trace machinery must not
                    # change the answer)
                    if want[0][0] == "ret" and (not bounded or spec.member[start]):
                        check(want[0][1] == oracle(spec, name, start, bounded, payload),
                              f"trace seed {seed} round {rnd} {name}: reference {want[0]} disagrees with oracle "
                              f"{oracle(spec, name, start, bounded, payload)}; n={spec.n} edges={spec.edges} "
                              f"member={spec.member} attrs={spec.attrs} bounded={bounded} start={start} payload={payload!r}")
                # now blow up after k callbacks, for every k (fresh twins so
                # that cache contents are comparable)
                ks = list(range(1, length + 1))
                if len(ks) > 20:
                    ks = sorted(rng.sample(ks, 20))
                # reading the cache statistics through the public summary
                # walks over every vertex ever created; do it for a few k only
                with_stats = set(rng.sample(ks, min(4, len(ks))))
                for k in ks:
                    stats = k in with_stats
                    uni_a, verts_a = realise_traced(spec, bounded)
                    uni_b, verts_b = realise_traced(spec, bounded)
                    want = run_traced(REFERENCE[name], uni_a, verts_a[start], "tag", TValue("sought", payload), k, stats)
                    got = run_traced(SEARCHES[name], uni_b, verts_b[start], "tag", TValue("sought", payload), k, stats)
                    check(got == want, f"trace seed {seed} round {rnd} {name} caching={caching} fuse={k}: "
                                       f"library {got[0]}, reference {want[0]}" + first_difference(got[1], want[1]))
                    # and the state left behind: a follow-up search behaves
                    # the same on both twins (warm caches included)
                    want2 = run_traced(REFERENCE[name], uni_a, verts_a[start], "tag", TValue("sought", payload), None, stats)
                    got2 = run_traced(REFERENCE[name], uni_b, verts_b[start], "tag", TValue("sought", payload), None, stats)
                    check(got2 == want2, f"trace seed {seed} round {rnd} {name} caching={caching} fuse={k}: state after the failure differs")
    finally:
        Vertex.NEIGHBOR_CACHING = False
        TVertex.HASH_BUCKETS = None


def first_difference(got, want):
    for i, (g, w) in enumerate(zip(got, want)):
        if g != w:
            return f"; first difference at event {i}: library {g}, reference {w}"
    if len(got) != len(want):
        i = min(len(got), len(want))
        extra = got[i] if len(got) > len(want) else want[i]
        return f"; one trace is a prefix of the other, next event {extra}"
    return ""


###############################################################################
# 4. deep graphs: the recursion limit is hit (or not) as documented
###############################################################################


def deep_chain():
    uni = Universe()
    n = 3000
    chain = [Vertex(attributes={"tag": i}, universes=[uni]) for i in range(n)]
    for x1, x2 in zip(chain, chain[1:]):
        DirectedEdge(x1, x2)
    check(breadthfirst.bfs(uni, chain[0], "tag", n - 1) is chain[-1], "bfs on a deep chain")
    check(depthfirst.dfs_iterative(uni, chain[0], "tag", n - 1) is chain[-1], "dfs_iterative on a deep chain")
    check(depthfirst.dfs_recursive(uni, chain[0], "tag", 100) is chain[100], "dfs_recursive, shallow target on a deep chain")
    old = sys.getrecursionlimit()
    sys.setrecursionlimit(1000)
    try:
        # one frame per vertex: this is a recursive implementation
        expect_raises(RecursionError, depthfirst.dfs_recursive, uni, chain[0], "tag", n - 1, label="dfs_recursive deep chain")
        expect_raises(RecursionError, depthfirst.dft_recursive, uni, chain[0], label="dft_recursive deep chain")
        sys.setrecursionlimit(4 * n)
        check(depthfirst.dfs_recursive(uni, chain[0], "tag", n - 1) is chain[-1], "dfs_recursive with a raised recursion limit")
    finally:
        sys.setrecursionlimit(old)


def recursion_threshold(fn, uni, chain):
    """Index of the first chain vertex that fn cannot reach any more."""
    for i, vert in enumerate(chain):
        try:
            res = fn(uni, chain[0], "tag", TValue("sought", i))
        except RecursionError:
            return i
        if res is not vert:
            return ("wrong answer", i)
    return len(chain)


def recursion_boundary():
    """
    dfs_recursive is documented as a recursive implementation: one level of
    recursion per vertex on the path.  Where exactly the interpreter gives up
    must be the same for the library and for the transcription of the
    algorithm (both called from this very frame).
    """
    old = sys.getrecursionlimit()
    try:
        for caching in (False, True):
            Vertex.NEIGHBOR_CACHING = caching
            for bounded in (True, False):
                spec = Spec(150, [("D", i, i + 1) for i in range(149)], [True] * 150, list(range(150)), [False] * 150)
                uni, chain = realise_traced(spec, bounded)
                for limit in (60, 61, 62, 63, 100):
                    sys.setrecursionlimit(limit)
                    want = recursion_threshold(ref_dfs_recursive, uni, chain)
                    got = recursion_threshold(depthfirst.dfs_recursive, uni, chain)
                    sys.setrecursionlimit(old)
                    check(isinstance(want, int) and 10 < want < 150, f"recursion boundary: reference threshold {want} is not informative")
                    check(got == want, f"recursion boundary (limit {limit}, caching {caching}, bounded {bounded}): library {got}, reference {want}")
                    # the iterative flavours do not care
                    sys.setrecursionlimit(limit)
                    r1 = breadthfirst.bfs(uni, chain[0], "tag", TValue("sought", 149))
                    r2 = depthfirst.dfs_iterative(uni, chain[0], "tag", TValue("sought", 149))
                    sys.setrecursionlimit(old)
                    check(r1 is chain[149] and r2 is chain[149], "iterative searches must not depend on the recursion limit")
    finally:
        sys.setrecursionlimit(old)
        Vertex.NEIGHBOR_CACHING = False


def lifetimes():
    """
    A search keeps nothing alive once it has returned (or raised): vertices
    that are otherwise unreferenced go away at once, without the help of the
    cycle collector.
    """
    import gc
    import weakref

    class Explosive(Vertex):
        @property
        def tag(self):
            raise Boom("tag")

    enabled = gc.isenabled()
    gc.disable()
    try:
        for name, fn in SEARCHES.items():
            for cls in (Vertex, Explosive):
                for uni in (None, Universe()):
                    v = cls(attributes={"other": 3})
                    if uni is not None:
                        # a universe that does not hold on to v
                        Vertex(universes=[uni])
                    try:
                        res = fn(uni, v, "tag", 3)
                        check(res is None, f"{name}: lone vertex without the attribute")
                    except (Boom, ValueError):
                        pass
                    ref = weakref.ref(v)
                    del v
                    check(ref() is None, f"{name}: vertex kept alive after the search ({cls.__name__}, {'bounded' if uni else 'unbounded'})")
    finally:
        if enabled:
            gc.enable()


def main():
    scripted()
    lifetimes()
    recursion_boundary()
    # caching on first: the statistics summary gets slower with every vertex
    # this process creates
    for caching in (True, False):
        trace_differential(seed=777 + caching, rounds=60, caching=caching)
    for caching in (False, True):
        Vertex.NEIGHBOR_CACHING = caching
        try:
            scripted()
            random_vs_oracle(seed=20240608 + caching, rounds=60)
        finally:
            Vertex.NEIGHBOR_CACHING = False
    deep_chain()

    print(f"{CHECKS[0]} checks, {len(FAILURES)} failures")
    return 1 if FAILURES else 0


if __name__ == "__main__":
    sys.exit(main())
