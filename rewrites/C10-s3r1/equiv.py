#!/usr/bin/env python3
# -*- coding: utf-8 -*-
"""
equiv.py -- C10: "nrpickler round-trips any graph to an isomorphic, usable,
detached copy".

Standalone checker that only uses the public API of edgegraph
(``nrpickler.dumps`` / ``nrpickler.dump``, the structure classes, the
traversals) plus the standard library and dill.  It must exit 0 on the
unchanged library and on any behaviour-preserving rewrite of
``edgegraph/output/nrpickler.py``.

Oracles (all independent of the code under test):

* ``canon``       -- a canonical form of everything reachable from an object,
                     written from the property statement (classes, uids,
                     attributes, ordered links / ends / members, sharing);
                     original and copy must have the same canonical form;
* ``queries``     -- every structural query / traversal must answer the same
                     (in uids) on the copy as on the original, caching on/off;
* the recursive reference picklers (``dill.dumps``): for graphs small enough
  for them, the non-recursive pickler has to emit the very same opcode stream
  (modulo FRAME opcodes, which it never emits);
* ``stream_ok``   -- a pickle-stream linter built on ``pickletools``: every GET
                     refers to an earlier PUT/MEMOIZE, the stream ends with one
                     STOP, the stack is balanced;
* a fresh interpreter that loads the bytes and reports a digest.

Run as:  PYTHONPATH=<worktree> python equiv.py
"""

import collections
import copy
import dataclasses
import functools
import io
import itertools
import json
import os
import pickle
import pickletools
import random
import subprocess
import sys
import tempfile
import threading
import types
import warnings

import dill

from edgegraph.structure import (
    BaseObject,
    Vertex,
    Universe,
    Link,
    DirectedEdge,
    UnDirectedEdge,
    singleton,
)
from edgegraph.structure.universe import UniverseLaws
from edgegraph.traversal import helpers, breadthfirst, depthfirst
from edgegraph.builder import explicit, randgraph
from edgegraph.output import nrpickler

FAILS = []
CHECKS = [0]


def check(cond, msg):
    CHECKS[0] += 1
    if not cond:
        FAILS.append(msg)
        print("FAIL:", msg)
        if len(FAILS) > 40:
            finish()


def finish():
    print(f"{CHECKS[0]} checks, {len(FAILS)} failures")
    sys.exit(1 if FAILS else 0)


PROTOCOLS = list(range(0, pickle.HIGHEST_PROTOCOL + 1))
UID = itertools.count(1000)
RECURSIVE_TUPLES = []
CALLS = []  # log of user callbacks (module level: not captured by closures)


def nuid():
    return next(UID)


# --------------------------------------------------------------------------
# oracle 1: canonical form of an object graph
# --------------------------------------------------------------------------

ATOMS = (type(None), bool, int, float, complex, str, bytes, type(Ellipsis))


def qualname(cls):
    return cls.__qualname__


def is_local(thing):
    return "<locals>" in thing.__qualname__ or thing.__module__ == "__main__"


def canon(root):
    """
    Canonical, identity-free description of everything reachable from
    ``root``: identity-bearing objects are numbered in first-visit order of a
    deterministic walk, so two object graphs have equal canonical forms iff
    they are isomorphic *including which references are shared*.
    Iterative: graphs here are far deeper than the recursion limit.
    """
    numbers = {}
    keep = []
    queue = collections.deque()

    def ref(o):
        if type(o) in ATOMS:
            return ("atom", type(o).__name__, repr(o))
        n = numbers.get(id(o))
        if n is None:
            n = numbers[id(o)] = len(numbers)
            keep.append(o)
            queue.append(o)
        return ("ref", n)

    def attrs(o):
        out = []
        d = getattr(o, "__dict__", None)
        if d is not None:
            for name in sorted(d):
                if isinstance(o, BaseObject) and name.startswith("_"):
                    # private state of the library: seen through the public
                    # properties instead
                    continue
                out.append((name, ref(d[name])))
        for klass in type(o).__mro__:
            slots = klass.__dict__.get("__slots__", ())
            if isinstance(slots, str):
                slots = (slots,)
            for name in slots:
                if name in ("__dict__", "__weakref__"):
                    continue
                if hasattr(o, name):
                    out.append(("slot:" + name, ref(getattr(o, name))))
        return out

    def describe(o):
        if isinstance(o, BaseObject):
            rec = ["graphobj", ref(type(o)), o.uid]
            if isinstance(o, Vertex):
                rec.append(("links", [ref(x) for x in o.links]))
            if isinstance(o, Link):
                rec.append(("ends", [ref(x) for x in o.vertices]))
            if isinstance(o, Universe):
                rec.append(("members", [ref(x) for x in o.vertices]))
                rec.append(("laws", ref(o.laws)))
            if isinstance(o, UniverseLaws):
                rec.append(
                    (
                        "laws",
                        ref(o.edge_whitelist),
                        o.mixed_links,
                        o.cycles,
                        o.multipath,
                        o.multiverse,
                        ref(o.applies_to),
                    )
                )
            rec.append(("universes", [ref(x) for x in o.universes]))
            rec.append(("attrs", attrs(o)))
            return rec
        if isinstance(o, type):
            if is_local(o):
                fns = sorted(
                    k
                    for k, v in vars(o).items()
                    if isinstance(v, types.FunctionType)
                )
                return [
                    "class",
                    o.__name__,
                    o.__qualname__,
                    [ref(b) for b in o.__bases__],
                    [(k, ref(vars(o)[k])) for k in fns],
                    repr(vars(o).get("__slots__")),
                ]
            return ["class-byref", o.__module__, o.__qualname__]
        if isinstance(o, types.FunctionType):
            if not is_local(o):
                return ["function-byref", o.__module__, o.__qualname__]
            cells = []
            for c in o.__closure__ or ():
                try:
                    cells.append(ref(c.cell_contents))
                except ValueError:
                    cells.append("empty-cell")
            return [
                "function",
                o.__qualname__,
                o.__code__.co_code.hex(),
                repr(o.__code__.co_names),
                ref(o.__defaults__),
                cells,
            ]
        if isinstance(o, types.MethodType):
            return ["method", ref(o.__self__), ref(o.__func__)]
        if isinstance(o, types.BuiltinFunctionType):
            return ["builtin", o.__name__]
        if isinstance(o, functools.partial):
            return ["partial", ref(o.func), ref(o.args), ref(o.keywords)]
        if isinstance(o, tuple):
            return ["tuple", ref(type(o)), [ref(x) for x in o]]
        if isinstance(o, (list, collections.deque)):
            return [type(o).__name__, ref(type(o)), [ref(x) for x in o]] + (
                [attrs(o)] if type(o) not in (list, collections.deque) else []
            )
        if isinstance(o, dict):
            rec = [
                "dict",
                ref(type(o)),
                [(ref(k), ref(v)) for k, v in o.items()],
            ]
            if isinstance(o, collections.defaultdict):
                rec.append(ref(o.default_factory))
            return rec
        if isinstance(o, (set, frozenset)):
            return [type(o).__name__, sorted(repr(ref(x)) for x in o)]
        if isinstance(o, bytearray):
            return ["bytearray", bytes(o).hex()]
        if isinstance(o, (range, slice)):
            return [type(o).__name__, repr(o)]
        if isinstance(o, io.BytesIO):
            return ["BytesIO", o.getvalue().hex(), o.tell()]
        if isinstance(o, type(threading.Lock())):
            return ["lock", o.locked()]
        # any other instance
        return ["instance", ref(type(o)), attrs(o)]

    records = [ref(root)]
    while queue:
        o = queue.popleft()
        records.append(describe(o))
    return records


def reachable_graph_objects(root):
    """All BaseObjects reachable from root (iteratively), first-visit order."""
    seen = {}
    out = []
    stack = [root]
    while stack:
        o = stack.pop()
        if id(o) in seen or type(o) in ATOMS:
            continue
        seen[id(o)] = o
        if isinstance(o, BaseObject):
            out.append(o)
            kids = list(o.universes)
            if isinstance(o, Vertex):
                kids += list(o.links)
            if isinstance(o, Link):
                kids += list(o.vertices)
            if isinstance(o, Universe):
                kids += list(o.vertices) + [o.laws]
            kids += [v for k, v in vars(o).items() if not k.startswith("_")]
            stack.extend(reversed(kids))
        elif isinstance(o, (list, tuple)):
            stack.extend(reversed(o))
        elif isinstance(o, dict):
            stack.extend(reversed(list(o.values())))
    return out


# --------------------------------------------------------------------------
# oracle 2: structural queries and traversals
# --------------------------------------------------------------------------


def uid_of(x):
    return None if x is None else x.uid


def attempt(fn):
    try:
        return ("ok", fn())
    except Exception as exc:  # pylint: disable=broad-except
        return ("exc", type(exc).__name__)


def queries(root, limit=40, starts=6):
    """
    Answers (expressed in uids) of the public queries on everything reachable
    from ``root``.
    """
    objs = reachable_graph_objects(root)
    verts = [o for o in objs if isinstance(o, Vertex)]
    unis = [o for o in objs if isinstance(o, Universe)]
    out = []
    sample = verts[:limit]

    def odd(e, v2):
        return v2 is not None and (v2.uid % 2 == 1)

    for v in sample:
        for direction in (
            helpers.DIR_SENS_FORWARD,
            helpers.DIR_SENS_ANY,
            helpers.DIR_SENS_BACKWARD,
        ):
            for ff in (None, odd):
                out.append(
                    attempt(
                        lambda: [
                            uid_of(n)
                            for n in helpers.neighbors(
                                v,
                                direction_sensitive=direction,
                                unknown_handling=helpers.LNK_UNKNOWN_NONNEIGHBOR,
                                filterfunc=ff,
                            )
                        ]
                    )
                )
        # ask again: a cached answer (if caching is on) has to be the same
        out.append(attempt(lambda: [uid_of(n) for n in helpers.neighbors(v)]))
        out.append(("links", [l.uid for l in v.links]))
        out.append(("unis", [u.uid for u in v.universes]))
    for a, b in zip(sample, sample[1:] + sample[:1]):
        out.append(
            attempt(
                lambda: sorted(
                    l.uid
                    for l in helpers.find_links(
                        a, b, unknown_handling=helpers.LNK_UNKNOWN_NONNEIGHBOR
                    )
                )
            )
        )
    for u in unis[:4]:
        members = u.vertices
        out.append(("members", [m.uid for m in members]))
        for start in members[:starts]:
            for direction in (helpers.DIR_SENS_FORWARD, helpers.DIR_SENS_ANY):
                kw = dict(
                    direction_sensitive=direction,
                    unknown_handling=helpers.LNK_UNKNOWN_NONNEIGHBOR,
                )
                out.append(
                    attempt(
                        lambda: [
                            uid_of(x)
                            for x in breadthfirst.bft(u, start, **kw) or []
                        ]
                    )
                )
                out.append(
                    attempt(
                        lambda: [
                            uid_of(x)
                            for x in depthfirst.dft_iterative(u, start, **kw)
                            or []
                        ]
                    )
                )
                out.append(
                    attempt(
                        lambda: [
                            uid_of(x)
                            for x in breadthfirst.ibft(u, start, **kw)
                        ]
                    )
                )
                out.append(
                    attempt(
                        lambda: [
                            uid_of(x)
                            for x in depthfirst.idft_iterative(u, start, **kw)
                        ]
                    )
                )
            out.append(
                attempt(lambda: uid_of(breadthfirst.bfs(u, start, "i", 3)))
            )
            out.append(
                attempt(
                    lambda: uid_of(depthfirst.dfs_iterative(u, start, "i", 2))
                )
            )
    return out


# --------------------------------------------------------------------------
# oracle 3: the pickle stream itself
# --------------------------------------------------------------------------


def strip_frames(data):
    """Remove FRAME opcodes (the non-recursive pickler never frames)."""
    out = bytearray()
    ops = list(pickletools.genops(data))
    for (op, arg, pos), nxt in zip(ops, ops[1:] + [(None, None, len(data))]):
        if op.name != "FRAME":
            out += data[pos : nxt[2]]
    return bytes(out)


def stream_ok(data, full=False):
    """
    Lint a pickle stream: GETs only of memo slots already PUT, MEMOIZE slots
    consecutive, exactly one STOP at the very end.  With ``full`` the symbolic
    stack check of pickletools.dis is run as well.
    """
    defined = set()
    last = None
    end = 0
    for op, arg, pos in pickletools.genops(data):
        name = op.name
        if last == "STOP":
            return "opcode after STOP"
        if name in ("PUT", "BINPUT", "LONG_BINPUT"):
            if arg in defined:
                return f"memo slot {arg} written twice"
            if arg != len(defined):
                return f"memo slot {arg} out of sequence"
            defined.add(arg)
        elif name == "MEMOIZE":
            defined.add(len(defined))
        elif name in ("GET", "BINGET", "LONG_BINGET"):
            if arg not in defined:
                return f"GET of memo slot {arg} before it is defined"
        last = name
    if last != "STOP":
        return "no STOP"
    if not data.endswith(b"."):
        return "trailing bytes"
    if full:
        try:
            pickletools.dis(data, out=io.StringIO())
        except Exception as exc:  # pylint: disable=broad-except
            return f"pickletools.dis: {exc}"
    return None


# --------------------------------------------------------------------------
# graph builders
# --------------------------------------------------------------------------

SHARED = [
    [1, 2],
    {"k": (1, 2, 3)},
    ("a", "b", "c", "d"),
    "a shared string",
    b"shared bytes",
    (1,),
    bytearray(b"xyz"),
]


def rand_value(rng, pool, depth=0):
    k = rng.randrange(23 if depth < 3 else 12)
    if k == 0:
        return None
    if k == 1:
        return rng.random() < 0.5
    if k == 2:
        return rng.randrange(-5, 300)
    if k == 3:
        return rng.randrange(-(2**70), 2**70)
    if k == 4:
        return rng.choice([float("nan"), float("inf"), -0.0, rng.random()])
    if k == 5:
        return "s%d" % rng.randrange(5)
    if k == 6:
        return bytes(rng.randrange(256) for _ in range(rng.randrange(4)))
    if k == 7:
        return rng.choice(pool) if pool else None
    if k == 8:
        return complex(rng.random(), 1)
    if k == 9:
        return bytearray(b"ab")
    if k == 10:
        return "x" * rng.choice([0, 1, 255, 256, 70000])
    if k == 11:
        return rng.choice(SHARED)
    if k == 12:
        return [
            rand_value(rng, pool, depth + 1) for _ in range(rng.randrange(4))
        ]
    if k == 13:
        return tuple(
            rand_value(rng, pool, depth + 1) for _ in range(rng.randrange(5))
        )
    if k == 14:
        return {
            rng.randrange(4): rand_value(rng, pool, depth + 1)
            for _ in range(rng.randrange(4))
        }
    if k == 15:
        return frozenset(rng.randrange(3) for _ in range(rng.randrange(3)))
    if k == 16:
        return {rng.randrange(3) for _ in range(rng.randrange(3))}
    if k == 17:
        lst = [rand_value(rng, pool, depth + 1)]
        lst.append(lst)
        return lst
    if k == 18:
        # a tuple that contains itself (through a list); the recursive
        # picklers build such a tuple twice, in another order
        RECURSIVE_TUPLES.append(1)
        lst = []
        tup = (lst, rand_value(rng, pool, depth + 1))
        lst.append(tup)
        return tup
    if k == 19:
        return range(rng.randrange(5))
    if k == 20:
        return slice(1, rng.randrange(5))
    if k == 21:
        return b"z" * rng.choice([255, 256, 65536, 70000])
    if k == 22:
        dct = {"self": None, "v": rng.choice(pool) if pool else 1}
        dct["self"] = dct
        return dct
    return 0


class Tagged(Vertex):
    """A module level (``__main__``) subclass: dill pickles it by value."""

    def describe(self):
        return ("Tagged", self.uid, len(self.links))


class Slotted(Vertex):
    """A subclass adding ``__slots__``."""

    __slots__ = ("extra", "other")


def rand_graph(rng, n, m, unis=1, attrs=True, classes=(Vertex,)):
    us = [Universe(uid=nuid()) for _ in range(unis)]
    vs = []
    for i in range(n):
        cls = rng.choice(classes)
        mine = [u for u in us if rng.random() < 0.7]
        v = cls(uid=nuid(), universes=mine or None)
        v.i = i % 5
        vs.append(v)
    es = []
    for _ in range(m):
        a = rng.choice(vs)
        b = rng.choice(vs + [None]) if rng.random() < 0.1 else rng.choice(vs)
        if rng.random() < 0.1:
            b = a  # self loop
        cls = rng.choice([DirectedEdge, UnDirectedEdge])
        es.append(cls(a, b, uid=nuid()))
    if attrs:
        pool = vs + es + us
        for o in rng.sample(pool, max(1, len(pool) // 2)):
            for _ in range(rng.randrange(3)):
                setattr(o, "a%d" % rng.randrange(4), rand_value(rng, pool))
        for v in vs:
            if isinstance(v, Slotted) and rng.random() < 0.7:
                v.extra = rng.choice(pool)
    return us, vs, es


A_GLOBAL = 17


def helper_global(x):
    return x * 2 + A_GLOBAL


def uses_globals(x):
    """Needs two globals: with ``recurse`` dill ships exactly those."""
    return helper_global(x) + A_GLOBAL


def line_graph(n):
    u = Universe(uid=nuid())
    vs = [Vertex(uid=nuid(), universes=[u]) for _ in range(n)]
    for i, v in enumerate(vs):
        v.i = i
    for a, b in zip(vs, vs[1:]):
        DirectedEdge(a, b, uid=nuid())
    return u, vs


def star_graph(n):
    u = Universe(uid=nuid())
    hub = Vertex(uid=nuid(), universes=[u])
    hub.i = 0
    leaves = [Vertex(uid=nuid(), universes=[u]) for _ in range(n)]
    for i, leaf in enumerate(leaves):
        leaf.i = i
        (DirectedEdge if i % 2 else UnDirectedEdge)(hub, leaf, uid=nuid())
    return u, hub, leaves


# --------------------------------------------------------------------------
# the central check
# --------------------------------------------------------------------------


def mutate(root, rng_seed):
    """
    A scripted series of mutations through the public API, addressed by
    position so that it can be replayed on an isomorphic copy.  Returns the
    log of what each step did (an exception is an outcome like any other).
    """
    rng = random.Random(rng_seed)
    objs = reachable_graph_objects(root)
    verts = [o for o in objs if isinstance(o, Vertex)]
    unis = [o for o in objs if isinstance(o, Universe)]
    links = [o for o in objs if isinstance(o, Link)]
    log = []
    if not verts:
        return log
    base = 10**9 + rng_seed * 1000

    def step_once(step):
        k = rng.randrange(8)
        a = rng.choice(verts)
        b = rng.choice(verts)
        lnk = rng.choice(links) if links else None
        u = rng.choice(unis) if unis else None
        if k == 0:
            new = Vertex(uid=base + step, universes=unis[:1] or None)
            new.i = 3
            verts.append(new)
            links.append(DirectedEdge(a, new, uid=base + 100 + step))
        elif k == 1:
            links.append(UnDirectedEdge(a, b, uid=base + 200 + step))
        elif k == 2 and lnk is not None:
            ends = lnk.vertices
            if ends and ends[0] is not None:
                lnk.unlink_from(ends[0])
        elif k == 3 and u is not None:
            if a in u.vertices:
                u.remove_vertex(a)
            else:
                u.add_vertex(a)
        elif k == 4 and lnk is not None:
            lnk.v2 = b
        elif k == 5:
            a.note = ("mutated", step)
            a["other"] = b
        elif k == 6 and lnk is not None:
            lnk.v1 = b
        elif k == 7:
            gone = explicit.unlink(a, b)
            return (k, None if gone is None else sorted(x.uid for x in gone))
        return (k,)

    for step in range(6):
        try:
            log.append(step_once(step))
        except Exception as exc:  # pylint: disable=broad-except
            log.append(("exc", type(exc).__name__, str(exc)))
    return log


# (``ignore=True``: otherwise dill re-points the class of the *root* object to
# the class of the same name in ``__main__``, which for by-value classes is
# the original class)
LOADERS = (
    ("pickle", pickle.loads),
    ("dill", functools.partial(dill.loads, ignore=True)),
)


def roundtrip_check(label, root, protocols=PROTOCOLS, *, oracle=True,
                    do_queries=True, do_mutate=True, seed=0, **kw):
    """
    dumps -> loads; canonical forms, queries, reference stream, linter,
    detachedness and usability after further mutation.
    """
    want = canon(root)
    # asked of the original with caching off (so that nothing is stored in
    # the original): the answers do not depend on caching
    want_q = queries(root) if do_queries else None
    results = {}
    for proto in protocols:
        data = nrpickler.dumps(root, protocol=proto, **kw)
        check(isinstance(data, bytes), f"{label}/p{proto}: dumps gave bytes")
        results[proto] = data
        problem = stream_ok(data, full=len(data) < 200_000)
        check(problem is None, f"{label}/p{proto}: stream lint: {problem}")

        # the original is untouched by being pickled
        check(canon(root) == want, f"{label}/p{proto}: dumps changed the graph")

        if oracle:
            try:
                ref = dill.dumps(root, protocol=proto, **kw)
            except RecursionError:
                ref = None
            if ref is not None:
                check(
                    strip_frames(ref) == data,
                    f"{label}/p{proto}: stream differs from the recursive "
                    f"reference pickler",
                )

        for lname, loads in LOADERS:
            back = loads(data)
            tag = f"{label}/p{proto}/{lname}"
            check(canon(back) == want, f"{tag}: copy is not isomorphic")
            ours = reachable_graph_objects(root)
            theirs = reachable_graph_objects(back)
            check(
                not ({id(o) for o in ours} & {id(o) for o in theirs}),
                f"{tag}: copy shares graph objects with the original",
            )
            if do_queries:
                for caching in (False, True):
                    Vertex.NEIGHBOR_CACHING = caching
                    try:
                        got = queries(back)
                        # twice: the second time answers come from the cache
                        got2 = queries(back)
                    finally:
                        Vertex.NEIGHBOR_CACHING = False
                    check(
                        got == want_q,
                        f"{tag}: queries differ (caching={caching})",
                    )
                    check(got2 == got, f"{tag}: cached queries differ")
                    check(
                        isinstance(Vertex.total_cache_stats(), str),
                        f"{tag}: cache statistics unavailable",
                    )
            if do_mutate and lname == "pickle":
                # detached: mutating the copy leaves the original alone ...
                for caching in (False, True):
                    Vertex.NEIGHBOR_CACHING = caching
                    try:
                        back2 = loads(data)
                        queries(back2, limit=5)  # warm caches
                        log_copy = mutate(back2, seed)
                        check(
                            canon(root) == want,
                            f"{tag}: mutating the copy changed the original",
                        )
                        # ... and usable: the same mutations on a deep copy of
                        # the original (the stdlib's own copier is recursive,
                        # so only where that is feasible) give the same graph
                        try:
                            twin = copy.deepcopy(root)
                        except RecursionError:
                            twin = None
                        if twin is not None:
                            check(
                                canon(twin) == want,
                                f"{tag}: deepcopy oracle is broken",
                            )
                            check(
                                mutate(twin, seed) == log_copy,
                                f"{tag}: mutations went differently on the "
                                f"copy (caching={caching})",
                            )
                            check(
                                canon(back2) == canon(twin),
                                f"{tag}: copy behaves differently under "
                                f"mutation (caching={caching})",
                            )
                            check(
                                queries(back2) == queries(twin),
                                f"{tag}: queries after mutation differ "
                                f"(caching={caching})",
                            )
                        # pickling the mutated copy again works as well
                        again = pickle.loads(
                            nrpickler.dumps(back2, protocol=proto)
                        )
                        check(
                            canon(again) == canon(back2),
                            f"{tag}: second generation copy differs",
                        )
                    finally:
                        Vertex.NEIGHBOR_CACHING = False
    return results


# --------------------------------------------------------------------------
# scripted corner cases
# --------------------------------------------------------------------------


def scripted():
    rng = random.Random(99)

    # -- trivial roots -----------------------------------------------------
    for i, root in enumerate(
        [None, 0, "", (), [], {}, (1, 2, 3), [[[]]], {"a": {"b": {}}},
         float("nan"), b"", (None,), [(), ()], ((), ((),))]
    ):
        roundtrip_check(f"trivial{i}", root, do_queries=False, do_mutate=False)

    # -- single objects ----------------------------------------------------
    v = Vertex(uid=nuid())
    roundtrip_check("lonely-vertex", v)
    u = Universe(uid=nuid())
    roundtrip_check("empty-universe", u)
    roundtrip_check("laws", u.laws)
    e = DirectedEdge(uid=nuid())
    roundtrip_check("edge-none-none", e)
    v = Vertex(uid=nuid())
    e = UnDirectedEdge(v, v, uid=nuid())
    roundtrip_check("self-loop", v)
    roundtrip_check("self-loop-from-edge", e)
    roundtrip_check("same-object-twice", [v, v, e, e, (v, e), {"v": v}])

    # -- runtime attributes, self references, NaN --------------------------
    v1 = Vertex(uid=nuid(), attributes={"i": 7, "j": float("nan")})
    v2 = Vertex(uid=nuid())
    v2.other_one = v1
    v2.this_one = v2
    v2.words = "words"
    v2._private_looking = [v1, v2]
    v2.__dict__["odd name"] = 1
    setattr(v2, "links_", (v1,))
    roundtrip_check("runtime-attrs", [v1, v2])

    # -- attributes sharing containers between objects ----------------------
    box = [1, [2, [3]]]
    v1.box = box
    v2.box = box
    v2.boxes = (box, box, {"b": box})
    roundtrip_check("shared-containers", (v1, v2))

    # -- objects reached again while their own parts are being written -------
    lst = []
    tup = (lst, "payload")
    lst.append(tup)
    lst.append(lst)
    rv = Vertex(uid=nuid())
    rv.tup = tup
    rv.again = (tup, lst, (tup,))
    ring = {}
    ring["t"] = (ring, (ring, [ring]))
    rv.ring = ring
    fz = (frozenset([1, 2]), tup)
    rv.fz = [fz, fz]
    roundtrip_check("self-containing-tuples", rv, oracle=False)
    for proto in PROTOCOLS:
        back = pickle.loads(nrpickler.dumps(rv, protocol=proto))
        check(back.tup[0][0] is back.tup and back.tup[0][1] is back.tup[0],
              f"self-containing tuple identity p{proto}")
        check(back.again[0] is back.tup and back.again[2][0] is back.tup,
              f"self-containing tuple shared p{proto}")
        check(back.ring["t"][0] is back.ring and back.ring["t"][1][1][0] is back.ring,
              f"dict ring p{proto}")

    # -- multi universe, laws, universe inside universe ----------------------
    ua = Universe(uid=nuid())
    ub = Universe(uid=nuid(), laws=UniverseLaws(cycles=False, multiverse=True))
    vs = [Vertex(uid=nuid(), universes=[ua, ub]) for _ in range(4)]
    for i, x in enumerate(vs):
        x.i = i
    ua.add_vertex(ub)  # a universe is a vertex
    DirectedEdge(vs[0], vs[1], uid=nuid())
    DirectedEdge(vs[1], vs[0], uid=nuid())
    UnDirectedEdge(vs[2], ub, uid=nuid())
    DirectedEdge(vs[3], None, uid=nuid())
    roundtrip_check("multiverse", ua)
    roundtrip_check("multiverse-b", (ub, ua))
    roundtrip_check("multiverse-from-vertex", vs[3])

    # -- parallel / duplicate links, removed things --------------------------
    a = Vertex(uid=nuid())
    b = Vertex(uid=nuid())
    l1 = DirectedEdge(a, b, uid=nuid())
    l2 = DirectedEdge(a, b, uid=nuid())
    l3 = UnDirectedEdge(b, a, uid=nuid())
    l2.unlink_from(b)
    a.remove_from_link(l3)
    roundtrip_check("parallel-and-dangling", [a, b, l1, l2, l3])

    # -- subclasses ----------------------------------------------------------
    t1 = Tagged(uid=nuid())
    t2 = Tagged(uid=nuid())
    DirectedEdge(t1, t2, uid=nuid())
    s = Slotted(uid=nuid())
    s.extra = t1
    s.free = "dict attribute next to slots"
    UnDirectedEdge(s, t2, uid=nuid())
    # (classes pickled by value: the recursive reference picklers lay them
    # out differently, so no stream oracle here)
    roundtrip_check("main-subclasses", [t1, t2, s], oracle=False,
                    protocols=[2, 3, 4, 5])
    back = pickle.loads(nrpickler.dumps([t1, t2, s]))
    check(back[0].describe() == ("Tagged", t1.uid, 1), "method of by-value class")
    check(type(back[0]) is type(back[1]), "by-value class is shared")

    class Local(Vertex):
        def __init__(self, *a, **k):
            super().__init__(*a, **k)
            self.z = 1

        def hello(self):
            return ("Local", super().__repr__() != "")

    class Local2(Local):
        def hello(self):
            return ("Local2",) + super().hello()

    la = Local(uid=nuid())
    lb = Local2(uid=nuid())
    la.peer = lb
    lb.cls = Local
    DirectedEdge(la, lb, uid=nuid())
    for proto in (2, 3, 4, 5):
        for recurse in (None, True):
            back = pickle.loads(
                nrpickler.dumps([la, lb], protocol=proto, recurse=recurse)
            )
            check(back[1].hello() == ("Local2", "Local", True),
                  f"super() in by-value classes p{proto} recurse={recurse}")
            check(type(back[1]).__mro__[1] is type(back[0]),
                  f"by-value class hierarchy shared p{proto}")
            check(back[1].cls is type(back[0]), f"class attr shared p{proto}")
            check(canon(back) == canon([la, lb]),
                  f"local classes canon p{proto} recurse={recurse}")
    roundtrip_check("local-subclasses", [la, lb], oracle=False,
                    protocols=[2, 4])

    # -- functions: closures, recursion, globals ------------------------------
    def make():
        k = 3

        def fact(n):
            return 1 if n <= 0 else n * fact(n - 1) + k

        return fact

    fv = Vertex(uid=nuid())
    fv.fn = make()
    fv.lam = lambda x: x + 1
    fv.ref = len
    fv.top = line_graph  # lives in __main__: pickled by value
    fv.glob = uses_globals
    for proto in (2, 3, 4, 5):
        back = pickle.loads(nrpickler.dumps(fv, protocol=proto))
        check(back.fn(4) == fv.fn(4), f"recursive closure p{proto}")
        check(back.lam(1) == 2, f"lambda p{proto}")
        check(back.ref is len, f"builtin by reference p{proto}")
        check(back.fn is not fv.fn, f"closure copied p{proto}")
        check(back.top.__code__.co_code == line_graph.__code__.co_code,
              f"__main__ function by value p{proto}")
        for recurse in (None, True):
            glob = pickle.loads(
                nrpickler.dumps([uses_globals, fv.lam, uses_globals],
                                protocol=proto, recurse=recurse)
            )
            check(glob[0] is glob[2], f"function shared p{proto} recurse={recurse}")
            check(glob[0](4) == uses_globals(4),
                  f"function with its globals p{proto} recurse={recurse}")
        cell = back.fn.__closure__[0].cell_contents
        cell2 = back.fn.__closure__[1].cell_contents
        check(back.fn in (cell, cell2), f"closure cell points at the copy p{proto}")

    def f1(x):
        return f2(x) + 1

    def f2(x):
        return x if x < 0 else f1(x - 5)

    for proto in (2, 4):
        b1, b2, b3 = pickle.loads(nrpickler.dumps([f1, f2, f1], protocol=proto))
        check(b1 is b3, "function shared")
        check(b1(12) == f1(12), "mutually recursive closures")
        cells = [c.cell_contents for c in b1.__closure__]
        check(b2 in cells, "mutual closure shares the copy")

    # -- closure cells waiting for classes / functions still being written ----
    def make_k():
        class K(Vertex):
            def a(self):
                return ("a", super().__repr__() != "")  # the __class__ cell

            def b(self):
                return K  # another cell pointing at the same class

            @classmethod
            def c(cls):
                return (cls is K, K.__name__)

            @staticmethod
            def s():
                return K

        return K

    def make_q():
        def helper(x):
            return (Q, x)

        class Q(Vertex):
            def m(self):
                return helper(super().__repr__() != "")

        return Q, helper

    def make_r():
        class R(Vertex):
            def a(self):
                return ("a", super().__repr__() != "")

            def b(self):
                return R

        # reached again from its own body while cells are waiting for it
        R.again = [R]
        return R

    def make_f():
        def f(n):
            return f.me is f, n

        f.me = f
        f.box = [f]
        return f

    R = make_r()
    selfish = make_f()
    K = make_k()
    Q, helper = make_q()
    kv = K(uid=nuid())
    qv = Q(uid=nuid())
    DirectedEdge(kv, qv, uid=nuid())
    cases = (
        # the root itself is a class / a function
        ("K-root", K,
         lambda B: (B(uid=1).a(), B(uid=1).b() is B, B.c(), B.s() is B),
         (("a", True), True, (True, "K"), True)),
        ("K-list", [K, kv, K],
         lambda b: (b[0] is b[2], type(b[1]) is b[0], b[1].a(), b[1].b() is b[0]),
         (True, True, ("a", True), True)),
        ("K-instance", kv,
         lambda b: (b.a(), b.b() is type(b), type(b).s() is type(b), type(b).c()),
         (("a", True), True, True, (True, "K"))),
        ("Q-and-helper", [qv, helper],
         lambda b: (b[0].m()[0] is type(b[0]), b[0].m()[1], b[1](1)[0] is type(b[0])),
         (True, True, True)),
        ("helper-root", helper, lambda h: (h(2)[0].__name__, h(2)[1]), ("Q", 2)),
        ("class-in-own-body", R,
         lambda B: (B(uid=1).a(), B(uid=1).b() is B, B.again[0] is B),
         (("a", True), True, True)),
        ("instance-of-class-in-own-body", [R(uid=nuid()), R],
         lambda b: (b[0].a(), b[0].b() is b[1], type(b[0]).again[0] is b[1]),
         (("a", True), True, True)),
        ("both-through-graph", kv,
         lambda b: (helpers.neighbors(b)[0].m()[0] is type(helpers.neighbors(b)[0]),
                    b.links[0].v1 is b),
         (True, True)),
    )
    for name, root, probe, expect in cases:
        for proto in (2, 3, 4, 5):
            for recurse in (None, True):
                data = nrpickler.dumps(root, protocol=proto, recurse=recurse)
                check(stream_ok(data, full=True) is None,
                      f"{name} p{proto} recurse={recurse}: lint "
                      f"{stream_ok(data, full=True)}")
                for lname, loads in LOADERS:
                    back = loads(data)
                    check(probe(back) == expect,
                          f"{name} p{proto} recurse={recurse} {lname}: behaves differently")
                    check(canon(back) == canon(root),
                          f"{name} p{proto} recurse={recurse} {lname}: canon")
    for proto in (2, 3, 4, 5):
        back = pickle.loads(nrpickler.dumps([selfish, selfish], protocol=proto))
        check(back[0] is back[1] and back[0](1) == ((True, 1)) and
              back[0].box[0] is back[0],
              f"function holding itself in its attributes p{proto}")
    roundtrip_check("cells-graph", [kv, qv, K, helper], oracle=False,
                    protocols=[2, 3, 4, 5])

    def make_w():
        class Meta(type):
            pass

        class W(Vertex, metaclass=Meta):
            pass

        return W

    # (a by-value class with a by-value metaclass is beyond dill: whatever
    # happens must happen for every protocol alike and leave no trace)
    wv = make_w()(uid=nuid())
    outcomes = set()
    for proto in (2, 3, 4, 5):
        try:
            nrpickler.dumps(wv, protocol=proto)
            outcomes.add("ok")
        except pickle.PicklingError:
            outcomes.add("PicklingError")
    check(len(outcomes) == 1, f"local metaclass: {outcomes}")
    check(pickle.loads(nrpickler.dumps(kv)).a() == ("a", True), "works after that")

    # -- reduce protocol in all its variety -----------------------------------
    order = CALLS

    class Red:
        def __init__(self, n):
            self.n = n
            self.items = []
            self.d = {}

        def __reduce__(self):
            CALLS.append(("reduce", self.n))
            return (
                Red,
                (self.n,),
                {"n": self.n, "items": self.items, "d": self.d},
            )

    class GS:
        def __init__(self, n):
            self.n = n
            self.kids = []
            self.me = self

        def __getstate__(self):
            CALLS.append(("getstate", self.n))
            return {"n": self.n, "kids": self.kids, "me": self.me}

        def __setstate__(self, st):
            self.__dict__.update(st)

    r = Red(1)
    g = GS(2)
    g2 = GS(3)
    g.kids = [g2, r, g2, g]
    g2.kids = [Red(4), g]
    r.items = [g, g2]
    hv = Vertex(uid=nuid())
    hv.payload = [r, g, (g2, r)]
    for proto in PROTOCOLS:
        del order[:]
        data = nrpickler.dumps(hv, protocol=proto)
        mine = list(order)
        del order[:]
        ref = dill.dumps(hv, protocol=proto)
        theirs = list(order)
        check(mine == theirs,
              f"callbacks p{proto}: order/number differs from the recursive "
              f"pickler: {mine} vs {theirs}")
        check(len(mine) == len(set(mine)) == 4, f"each object reduced once p{proto}")
        back = pickle.loads(data)
        check(canon(back) == canon(hv), f"reduce objects canon p{proto}")
        bg = back.payload[1]
        check(bg.me is bg and bg.kids[3] is bg and bg.kids[0] is bg.kids[2],
              f"sharing inside reduce objects p{proto}")

    # -- stdlib odds and ends ---------------------------------------------------
    Pt = collections.namedtuple("Pt", "x y")

    @dataclasses.dataclass
    class DC:
        p: int = 3
        q: list = dataclasses.field(default_factory=list)

    ov = Vertex(uid=nuid())
    ov.stuff = [
        collections.OrderedDict(a=1, b=[2]),
        collections.defaultdict(list, a=[1]),
        collections.deque([1, ov]),
        functools.partial(max, 1),
        types.SimpleNamespace(a=1, me=ov),
        io.BytesIO(b"abc"),
        threading.Lock(),
        Pt(1, [2]),
        DC(4, [DC()]),
        int,
        type(None),
        Ellipsis,
    ]
    for proto in (2, 3, 4, 5):
        back = pickle.loads(nrpickler.dumps(ov, protocol=proto))
        check(canon(back) == canon(ov), f"stdlib objects p{proto}")
        check(back.stuff[2][1] is back, f"deque member shared p{proto}")
        check(back.stuff[4].me is back, f"namespace member shared p{proto}")
        check(back.stuff[7].x == 1 and type(back.stuff[7]).__name__ == "Pt",
              f"namedtuple p{proto}")

    # -- singletons ---------------------------------------------------------------
    st1 = SingleTex(1)
    st2 = SingleTex(2)
    for proto in PROTOCOLS:
        back = pickle.loads(nrpickler.dumps([st1, st2], protocol=proto))
        check(back[0] is back[1] and back[0].i == 1 and back[0] is not st1,
              f"singleton p{proto}")

    # -- depth and width far beyond the recursion limit ----------------------------
    deep = []
    cur = deep
    for _ in range(5000):
        nxt = []
        cur.append(nxt)
        cur = nxt
    tup = ()
    for _ in range(5000):
        tup = (tup,)
    dct = {}
    cur = dct
    for _ in range(5000):
        cur["n"] = {}
        cur = cur["n"]
    dv = Vertex(uid=nuid())
    dv.deep = deep
    dv.tup = tup
    dv.dct = dct
    dv.wide = [list(range(3000)), {i: str(i) for i in range(2500)},
               set(range(2100)), tuple(range(1500))]
    for proto in PROTOCOLS:
        data = nrpickler.dumps(dv, protocol=proto)
        check(stream_ok(data) is None, f"deep containers lint p{proto}")
        back = pickle.loads(data)
        check(canon(back) == canon(dv), f"deep containers p{proto}")

    old = sys.getrecursionlimit()
    u, vs = line_graph(3000)
    su, hub, leaves = star_graph(3000)
    ru, rvs, res = rand_graph(rng, 400, 1600, unis=2)
    want = {"line": canon(u), "star": canon(hub), "rand": canon(ru)}
    wq = queries(u, limit=8, starts=1)
    outputs = {}

    def big_ones(where):
        sys.setrecursionlimit(120)
        try:
            for name, root in (("line", u), ("star", hub), ("rand", ru)):
                for proto in PROTOCOLS:
                    try:
                        data = nrpickler.dumps(root, protocol=proto)
                    except RecursionError:
                        check(False, f"{where}: RecursionError {name} p{proto}")
                        continue
                    outputs[(where, name, proto)] = data
        finally:
            sys.setrecursionlimit(old)

    big_ones("main")
    th = threading.Thread(target=big_ones, args=("thread",))
    th.start()
    th.join()
    for (where, name, proto), data in sorted(outputs.items()):
        check(stream_ok(data) is None, f"{where}/{name}/p{proto}: lint")
        if where == "thread":
            check(data == outputs[("main", name, proto)],
                  f"thread and main thread disagree {name} p{proto}")
            continue
        for lname, loads in LOADERS:
            back = loads(data)
            check(canon(back) == want[name],
                  f"big {name} p{proto} {lname}: not isomorphic")
        if name == "line":
            check(queries(back, limit=8, starts=1) == wq, f"big line p{proto}: queries")
            check(len(back.vertices) == 3000, "line: all members")
            # usable: extend the chain on the copy
            tail = back.vertices[-1]
            new = Vertex(uid=nuid(), universes=[back])
            DirectedEdge(tail, new, uid=nuid())
            check(breadthfirst.bft(back, back.vertices[0])[-1] is new,
                  f"big line p{proto}: copy can be extended")
    check(len(outputs) == 2 * 3 * len(PROTOCOLS), "all big dumps happened")

    # -- dump() to files ---------------------------------------------------------------
    us, vs2, es = rand_graph(rng, 12, 30, unis=2)
    root = (us, vs2)

    class Writer:
        def __init__(self):
            self.chunks = []

        def write(self, chunk):
            self.chunks.append(bytes(chunk))

    for proto in PROTOCOLS + [None, -1]:
        kw = {} if proto is None else {"protocol": proto}
        want_bytes = nrpickler.dumps(
            root, **({"protocol": pickle.HIGHEST_PROTOCOL} if proto == -1 else kw)
        )
        if proto is None:
            # dump() defaults to protocol None == pickle's default, like dumps()
            check(want_bytes == nrpickler.dumps(root, protocol=pickle.DEFAULT_PROTOCOL),
                  "default protocol")
        bio = io.BytesIO()
        check(nrpickler.dump(root, bio, **kw) is None, "dump returns None")
        check(bio.getvalue() == want_bytes, f"dump(BytesIO) p{proto}")
        w = Writer()
        nrpickler.dump(root, w, **kw)
        check(b"".join(w.chunks) == want_bytes, f"dump(writer) p{proto}")
        with tempfile.TemporaryFile() as fp:
            nrpickler.dump(root, fp, **kw)
            fp.seek(0)
            back = pickle.load(fp)
            check(canon(back) == canon(root), f"dump(file) p{proto}")
        check(nrpickler.dumps(root, **kw) == nrpickler.dumps(root, **kw),
              f"dumps is deterministic p{proto}")

    # -- failures -------------------------------------------------------------------------
    class Boom(BaseException):
        pass

    class Bad:
        def __init__(self, exc):
            self.exc = exc

        def __reduce__(self):
            raise self.exc

    def gen():
        yield 1

    us, vs3, es = rand_graph(rng, 6, 10)
    target = vs3[2]
    before = None
    for name, poison, exc_type in (
        ("BaseException", Bad(Boom("x")), Boom),
        ("KeyboardInterrupt", Bad(KeyboardInterrupt()), KeyboardInterrupt),
        ("ValueError", Bad(ValueError("v")), ValueError),
        ("generator", gen(), TypeError),
    ):
        target.poison = [1, "two", poison, 3]
        before = canon(us[0])
        for proto in PROTOCOLS:
            w = Writer()
            try:
                nrpickler.dump(us[0], w, protocol=proto)
                check(False, f"{name} p{proto}: no exception")
            except BaseException as exc:  # pylint: disable=broad-except
                check(type(exc) is exc_type or (exc_type is TypeError and
                      isinstance(exc, (TypeError, pickle.PicklingError))),
                      f"{name} p{proto}: raised {type(exc)}")
            check(canon(us[0]) == before, f"{name} p{proto}: graph changed by failed dump")
            try:
                nrpickler.dumps(us[0], protocol=proto)
                check(False, f"{name} p{proto}: dumps: no exception")
            except BaseException:  # pylint: disable=broad-except
                pass
    del target.poison
    check(canon(pickle.loads(nrpickler.dumps(us[0]))) == canon(us[0]),
          "works again after failures")

    class FailingWriter:
        def __init__(self, at, exc):
            self.n = 0
            self.at = at
            self.exc = exc
            self.chunks = []

        def write(self, chunk):
            if self.n == self.at:
                raise self.exc
            self.n += 1
            self.chunks.append(bytes(chunk))

    full = nrpickler.dumps(us[0], protocol=4)
    for at in (0, 1, 5, 50, 200):
        for exc in (OSError("disk full"), KeyboardInterrupt(), Boom()):
            w = FailingWriter(at, exc)
            try:
                nrpickler.dump(us[0], w, protocol=4)
                check(False, f"failing writer at {at}: no exception")
            except BaseException as got:  # pylint: disable=broad-except
                check(got is exc, f"failing writer at {at}: {got!r}")
            check(len(w.chunks) == at, f"failing writer at {at}: writes after the failure")
            check(full.startswith(b"".join(w.chunks)),
                  f"failing writer at {at}: what was written is not a prefix")
    check(nrpickler.dumps(us[0], protocol=4) == full, "same bytes after failing writers")

    try:
        nrpickler.dump(us[0], object())
        check(False, "dump to a non-file: no exception")
    except TypeError:
        pass
    try:
        nrpickler.dumps(us[0], protocol=99)
        check(False, "bad protocol: no exception")
    except ValueError:
        pass

    # -- warnings as errors -----------------------------------------------------------------
    with warnings.catch_warnings():
        warnings.simplefilter("error")
        for proto in PROTOCOLS:
            back = pickle.loads(nrpickler.dumps((us, vs3, la, fv), protocol=proto)) \
                if proto >= 2 else pickle.loads(nrpickler.dumps((us, vs3), protocol=proto))
            check(back[0][0].uid == us[0].uid, f"warnings=error p{proto}")

    # -- threads ----------------------------------------------------------------------------------
    graphs = [rand_graph(random.Random(s), 30, 80, unis=2) for s in range(6)]
    expected = [nrpickler.dumps(g[0], protocol=4) for g in graphs]
    got = {}
    errors = []

    def worker(idx):
        try:
            for rep in range(3):
                got[(idx, rep)] = nrpickler.dumps(graphs[idx % 6][0], protocol=4)
        except BaseException as exc:  # pylint: disable=broad-except
            errors.append(exc)

    threads = [threading.Thread(target=worker, args=(i,)) for i in range(12)]
    for t in threads:
        t.start()
    for t in threads:
        t.join()
    check(not errors, f"threads: {errors[:1]}")
    for (idx, rep), data in got.items():
        check(data == expected[idx % 6], f"thread {idx} rep {rep}: bytes differ")

    # -- library builders -----------------------------------------------------------------------------
    for seed in range(3):
        random.seed(seed)
        g = randgraph.randgraph(count=40)
        back = pickle.loads(nrpickler.dumps(g))
        check(canon(back) == canon(g), f"randgraph {seed}")
        check(queries(back) == queries(g), f"randgraph {seed} queries")


class SingleTex(Vertex, metaclass=singleton.TrueSingleton):
    def __init__(self, i, *args, **kwargs):
        super().__init__(*args, **kwargs)
        self.i = i


# --------------------------------------------------------------------------
# fresh interpreter
# --------------------------------------------------------------------------

DIGEST_SRC = r'''
def digest(root):
    from edgegraph.traversal import helpers, breadthfirst, depthfirst
    from edgegraph.structure import Vertex, DirectedEdge
    uni, verts = root
    out = {"members": [v.uid for v in uni.vertices], "per": []}
    for v in verts:
        out["per"].append([
            type(v).__qualname__,
            v.uid,
            [l.uid for l in v.links],
            [[None if e is None else e.uid for e in l.vertices] for l in v.links],
            [u.uid for u in v.universes],
            sorted((k, repr(x) if not hasattr(x, "uid") else ["uid", x.uid])
                   for k, x in vars(v).items() if not k.startswith("_")),
            [None if n is None else n.uid for n in helpers.neighbors(v)],
            [None if n is None else n.uid for n in helpers.neighbors(
                v, direction_sensitive=helpers.DIR_SENS_ANY)],
            [None if n is None else n.uid for n in helpers.neighbors(v)],
            v.describe() if hasattr(v, "describe") else None,
        ])
    start = uni.vertices[0]
    out["bft"] = [v.uid for v in breadthfirst.bft(
        uni, start, direction_sensitive=helpers.DIR_SENS_ANY)]
    out["dft"] = [v.uid for v in depthfirst.dft_iterative(
        uni, start, direction_sensitive=helpers.DIR_SENS_ANY)]
    # usable: mutate and ask again
    new = Vertex(uid=77, universes=[uni])
    DirectedEdge(start, new, uid=78)
    verts[-1].remove_from_universe(uni)
    out["after"] = [
        [v.uid for v in uni.vertices],
        [n.uid for n in helpers.neighbors(start) if n is not None],
        [v.uid for v in breadthfirst.bft(uni, start)],
        Vertex.total_cache_stats().splitlines()[0],
    ]
    return out
'''

CHILD_SRC = DIGEST_SRC + r'''
import sys, json, pickle, dill
from edgegraph.structure import Vertex
loader, caching, path = sys.argv[1:4]
Vertex.NEIGHBOR_CACHING = caching == "1"
with open(path, "rb") as fp:
    root = (pickle if loader == "pickle" else dill).load(fp)
print(json.dumps(digest(root)))
'''


def fresh_interpreter():
    namespace = {}
    exec(DIGEST_SRC, namespace)  # pylint: disable=exec-used
    digest = namespace["digest"]
    rng = random.Random(4242)
    with tempfile.TemporaryDirectory() as tmp:
        child = os.path.join(tmp, "child.py")
        with open(child, "w", encoding="utf-8") as fp:
            fp.write(CHILD_SRC)
        jobs = []
        for idx, proto in enumerate(PROTOCOLS):
            classes = (Vertex,) if proto < 2 else (Vertex, Tagged, Slotted)
            us, vs, es = rand_graph(rng, 14, 30, classes=classes, attrs=False)
            uni = us[0]
            for v in vs:
                uni.add_vertex(v)
                v.f = float("nan")
                v.friend = rng.choice(vs)
            root = (uni, vs)
            path = os.path.join(tmp, f"g{proto}.pkl")
            with open(path, "wb") as fp:
                nrpickler.dump(root, fp, protocol=proto)
            for loader in ("pickle", "dill"):
                for caching in ("0", "1"):
                    if (idx + (loader == "dill") + (caching == "1")) % 2 and proto not in (0, 4):
                        continue  # keep the number of subprocesses modest
                    proc = subprocess.Popen(
                        [sys.executable, child, loader, caching, path],
                        stdout=subprocess.PIPE,
                        stderr=subprocess.PIPE,
                        env=dict(os.environ),
                    )
                    jobs.append((proto, loader, caching, proc, root))
        for proto, loader, caching, proc, root in jobs:
            out, err = proc.communicate()
            tag = f"fresh interpreter p{proto} {loader} caching={caching}"
            check(proc.returncode == 0, f"{tag}: child failed: {err.decode()[-400:]}")
            if proc.returncode != 0:
                continue
            got = json.loads(out.decode())
            Vertex.NEIGHBOR_CACHING = caching == "1"
            try:
                # the digest mutates: run it on a stdlib deep copy of the original
                want = json.loads(json.dumps(digest(copy.deepcopy(root))))
            finally:
                Vertex.NEIGHBOR_CACHING = False
            check(got == want, f"{tag}: digest differs")


# --------------------------------------------------------------------------
# seeded random differential part
# --------------------------------------------------------------------------


def randomised(rounds=70):
    rng = random.Random(20240930)
    for rnd in range(rounds):
        n = rng.randrange(1, 16)
        m = rng.randrange(0, 30)
        byvalue = rng.random() < 0.3
        classes = (Vertex, Tagged, Slotted) if byvalue else (Vertex,)
        del RECURSIVE_TUPLES[:]
        us, vs, es = rand_graph(rng, n, m, unis=rng.randrange(1, 3), classes=classes)
        root = rng.choice(
            [us[0], (us, vs), vs[0], es[0] if es else vs, [vs, es, us, vs],
             {"u": us, "e": es[::-1]}]
        )
        protos = rng.sample(PROTOCOLS[2:] if byvalue else PROTOCOLS, 2)
        roundtrip_check(
            f"random{rnd}",
            root,
            protocols=protos,
            # by-value classes and self-containing tuples: the recursive
            # picklers lay those out differently, no stream oracle then
            oracle=not byvalue and not RECURSIVE_TUPLES,
            seed=rnd,
        )


def main():
    import time

    rounds = int(os.environ.get("EQUIV_ROUNDS", "70"))
    for phase in (scripted, fresh_interpreter, functools.partial(randomised, rounds)):
        t0 = time.time()
        phase()
        name = getattr(phase, "__name__", "randomised")  # (partial: no name)
        print(f"phase {name}: {time.time() - t0:.1f}s, "
              f"{CHECKS[0]} checks so far, {len(FAILS)} failures")
    finish()


if __name__ == "__main__":
    main()
