#!/usr/bin/env python3
"""
equiv.py for rewrite 2 (UniverseLaws side: applies_to setter, whitelist copy).

Exercises property C19 through the public API only; must pass (exit 0) on the
unchanged code and with the rewrite applied.
"""

import copy
import pickle
import random
import sys

from edgegraph.structure import universe, vertex
from edgegraph.structure.universe import Universe, UniverseLaws
from edgegraph.output import nrpickler

FAILS = []


def check(cond, msg):
    if not cond:
        FAILS.append(msg)
        print("FAIL:", msg)


def consistent(unis, laws, where):
    """u.laws is L  <=>  L.applies_to is u, over the whole pool."""
    for u in unis:
        for l in laws:
            check(
                (u.laws is l) == (l.applies_to is u),
                f"{where}: mismatch u={unis.index(u)} l={laws.index(l)}",
            )
    for u in unis:
        if u.laws is not None and u.laws in laws:
            check(u.laws.applies_to is u, f"{where}: u keeps moved laws")
    for l in laws:
        if l.applies_to is not None and l.applies_to in unis:
            check(l.applies_to.laws is l, f"{where}: l bound to stale universe")
    bound = [id(u.laws) for u in unis if u.laws is not None]
    check(len(bound) == len(set(bound)), f"{where}: one law set, two universes")


# --------------------------------------------------------------------------
# 1. model-based random sequences
# --------------------------------------------------------------------------
def model_run(seed, steps=120):
    rnd = random.Random(seed)
    unis, laws = [], []
    m_u2l = {}  # index of universe -> index of law set (model)

    def m_bind(ui, li):
        # detach what the universe had, detach the law set from elsewhere
        m_u2l.pop(ui, None)
        for k in [k for k, v in m_u2l.items() if v == li]:
            del m_u2l[k]
        if li is not None:
            m_u2l[ui] = li

    def new_laws():
        laws.append(
            UniverseLaws(
                cycles=rnd.random() < 0.5, multipath=rnd.random() < 0.5
            )
        )
        return len(laws) - 1

    for _ in range(3):
        new_laws()

    for step in range(steps):
        op = rnd.randrange(6)
        where = f"seed {seed} step {step} op {op}"
        if op == 0 or not unis:
            # construction without laws: gets a private fresh law set
            u = Universe()
            unis.append(u)
            check(type(u.laws) is UniverseLaws, f"{where}: no default laws")
            check(u.laws.applies_to is u, f"{where}: default laws not bound")
            laws.append(u.laws)
            m_u2l[len(unis) - 1] = len(laws) - 1
        elif op == 1:
            # construction with laws, possibly already used elsewhere
            li = rnd.randrange(len(laws))
            u = Universe(laws=laws[li])
            unis.append(u)
            m_bind(len(unis) - 1, li)
        elif op in (2, 3):
            ui = rnd.randrange(len(unis))
            li = rnd.choice([None] + list(range(len(laws))))
            new = None if li is None else laws[li]
            unis[ui].laws = new
            check(unis[ui].laws is new, f"{where}: u.laws assignment lost")
            m_bind(ui, li)
        else:
            li = rnd.randrange(len(laws))
            ui = rnd.choice([None] + list(range(len(unis))))
            new = None if ui is None else unis[ui]
            laws[li].applies_to = new
            check(laws[li].applies_to is new, f"{where}: applies_to lost")
            if ui is None:
                for k in [k for k, v in m_u2l.items() if v == li]:
                    del m_u2l[k]
            else:
                m_bind(ui, li)

        consistent(unis, laws, where)
        for ui, u in enumerate(unis):
            want = m_u2l.get(ui)
            check(
                u.laws is (None if want is None else laws[want]),
                f"{where}: universe {ui} disagrees with the model",
            )
        for li, l in enumerate(laws):
            owners = [k for k, v in m_u2l.items() if v == li]
            want = unis[owners[0]] if owners else None
            check(
                l.applies_to is want,
                f"{where}: law set {li} disagrees with the model",
            )


for seed in range(40):
    model_run(seed)

# --------------------------------------------------------------------------
# 2. hand-written scenarios
# --------------------------------------------------------------------------
l1, l2 = UniverseLaws(cycles=True), UniverseLaws(cycles=False)
u1 = Universe(laws=l1)
u2 = Universe(laws=l1)  # steals l1
check(u2.laws is l1 and l1.applies_to is u2, "ctor: laws not moved")
check(u1.laws is None, "ctor: old universe keeps moved laws")
u1.laws = l2  # laws after None
check(u1.laws is l2 and l2.applies_to is u1, "laws after None")
u1.laws = l2  # idempotent
check(u1.laws is l2 and l2.applies_to is u1, "idempotent re-assign")
u1.laws = l1  # swap: steals from u2, drops l2
check(u1.laws is l1 and l1.applies_to is u1, "swap: new")
check(u2.laws is None and l2.applies_to is None, "swap: old sides")
u1.laws = None
u1.laws = None
check(u1.laws is None and l1.applies_to is None, "double None")
l1.applies_to = None
check(l1.applies_to is None, "None on detached laws")
l1.applies_to = u1
l2.applies_to = u1  # replaces l1 from the law side
check(u1.laws is l2 and l1.applies_to is None, "replace from law side")
l2.applies_to = u2  # move from the law side
check(u1.laws is None and u2.laws is l2 and l2.applies_to is u2, "move")

# keyword-only / defaults of the constructor, other state untouched
v1, v2 = vertex.Vertex(), vertex.Vertex()
u3 = Universe(vertices=[v1, v2, v1], laws=l1, uid=77, attributes={"tag": "x"})
check(u3.vertices == [v1, v2], "vertices order")
check(u3.uid == 77 and u3.tag == "x" and u3["tag"] == "x", "uid/attributes")
check(u3.laws is l1 and l1.applies_to is u3, "ctor laws with other args")
check(u3 in v1.universes and u3 in v2.universes, "vertex back-reference")
try:
    Universe(None)
    check(False, "positional argument accepted")
except TypeError:
    pass

# a universe nested inside another; laws binding unaffected by membership
outer = Universe(laws=UniverseLaws(multiverse=True))
outer.add_vertex(u3)
check(u3.laws is l1 and outer.laws.multiverse is True, "nested universe")
check(outer.laws.applies_to is outer, "nested universe binding")

# a public attribute called "laws" given through `attributes` is applied by
# the base class before the universe is ready: AttributeError both ways
try:
    Universe(attributes={"laws": UniverseLaws()})
    check(False, "attributes={'laws': ...} did not raise")
except AttributeError:
    pass

# something that cannot hold laws / be governed
l3 = UniverseLaws()
sentinel = object()
try:
    l3.applies_to = sentinel
    check(False, "object() accepted as universe")
except AttributeError:
    pass
check(l3.applies_to is sentinel, "state after the failed assignment")
u4 = Universe()
own = u4.laws
try:
    u4.laws = sentinel
    check(False, "object() accepted as laws")
except AttributeError:
    pass
check(u4.laws is sentinel, "universe state after failed assignment")
check(own.applies_to is None, "old laws were detached before the failure")
try:
    u4.laws = own  # the stale non-laws object cannot be asked to let go
    check(False, "replacing a non-laws object did not raise")
except AttributeError:
    pass
check(u4.laws is own and own.applies_to is None, "state after 2nd failure")
own.applies_to = u4
check(u4.laws is own and own.applies_to is u4, "recovery after failure")


# subclasses: overriding the public property still sees every step
class LoggingLaws(UniverseLaws):
    log = []

    @property
    def applies_to(self):
        type(self).log.append("get")
        return UniverseLaws.applies_to.fget(self)

    @applies_to.setter
    def applies_to(self, new):
        type(self).log.append(("set", new))
        UniverseLaws.applies_to.fset(self, new)


class SubUniverse(Universe):
    pass


ll = LoggingLaws()
su = SubUniverse(laws=ll)
su2 = SubUniverse()
LoggingLaws.log.clear()
su2.laws = ll
check(su2.laws is ll and su.laws is None, "subclass move")
check(
    LoggingLaws.log == [("set", su2), "get"],
    f"subclass saw a different call sequence: {LoggingLaws.log}",
)
LoggingLaws.log.clear()
su2.laws = None
check(LoggingLaws.log == ["get", ("set", None)], f"detach log {LoggingLaws.log}")


# laws with unusual truthiness / equality must be handled by identity
class FalsyLaws(UniverseLaws):
    def __bool__(self):
        return False

    def __eq__(self, other):
        return isinstance(other, FalsyLaws)

    __hash__ = None


f1, f2 = FalsyLaws(), FalsyLaws()
uf = Universe(laws=f1)
check(uf.laws is f1 and f1.applies_to is uf, "falsy laws in ctor")
uf.laws = f2
check(uf.laws is f2 and f2.applies_to is uf, "equal-but-not-identical laws")
check(f1.applies_to is None, "falsy old laws detached")

# --------------------------------------------------------------------------
# 3. rule attributes
# --------------------------------------------------------------------------
wl = {int: {str: float}, str: {}}
lw = UniverseLaws(
    edge_whitelist=wl, mixed_links=1, cycles=[], multipath="", multiverse=None
)
check(lw.mixed_links == 1 and type(lw.mixed_links) is int, "mixed_links")
check(lw.cycles == [] and lw.multipath == "" and lw.multiverse is None, "rules")
check(lw.edge_whitelist == wl, "whitelist readback")
wl[int][bytes] = int
wl[float] = {}
check(lw.edge_whitelist == {int: {str: float}, str: {}}, "whitelist aliasing")
for name in (
    "edge_whitelist",
    "mixed_links",
    "cycles",
    "multipath",
    "multiverse",
):
    try:
        setattr(lw, name, getattr(lw, name))
        check(False, f"{name} writable")
    except AttributeError:
        pass
ub = Universe(laws=lw)
ub.laws = None
ub.laws = lw
check(lw.edge_whitelist == {int: {str: float}, str: {}}, "rules after moves")
check(lw.mixed_links == 1 and lw.cycles == [], "rules after moves (2)")
d = UniverseLaws()
check(
    (d.edge_whitelist, d.mixed_links, d.cycles, d.multipath, d.multiverse)
    == (None, False, True, True, False),
    "defaults",
)
check(d.applies_to is None and d.universes == [], "default binding")

# --------------------------------------------------------------------------
# 4. copies and pickles keep the pairing
# --------------------------------------------------------------------------
pu = Universe(laws=UniverseLaws(cycles=False, edge_whitelist={int: {int: int}}))
pu.add_vertex(vertex.Vertex(attributes={"n": 1}))
spare = UniverseLaws(multipath=False)
for dumper in (pickle.dumps, nrpickler.dumps):
    qu, qs = pickle.loads(dumper((pu, spare)))
    check(qu is not pu and qu.laws is not pu.laws, "pickle gave same objects")
    check(qu.laws.applies_to is qu, "pickle lost the pairing")
    check(qu.laws.cycles is False, "pickle lost the rules")
    check(qu.laws.edge_whitelist == {int: {int: int}}, "pickle lost whitelist")
    check(qu.uid == pu.uid and len(qu.vertices) == 1, "pickle lost state")
    old = qu.laws
    qu.laws = qs
    check(qu.laws is qs and qs.applies_to is qu, "unpickled: assign")
    check(old.applies_to is None, "unpickled: old not detached")
    qu.laws = None
    qs.applies_to = qu
    check(qu.laws is qs, "unpickled: laws after None")
du = copy.deepcopy(pu)
check(du.laws.applies_to is du and du.laws is not pu.laws, "deepcopy pairing")
check(pu.laws.applies_to is pu, "deepcopy disturbed the original")

# --------------------------------------------------------------------------
# 5. edge whitelist: copying, freezing, validation
# --------------------------------------------------------------------------
import types


class Rows:
    """Not a dict, but has .items(); may yield a key twice."""

    def __init__(self, pairs):
        self.pairs = pairs
        self.calls = 0

    def items(self):
        self.calls += 1
        return iter(self.pairs)


class A(vertex.Vertex):
    pass


class B(vertex.Vertex):
    pass


inner_a = Rows([(B, int), (A, str), (B, float)])
outer_rows = Rows([(A, inner_a), (B, {}), (A, {A: bytes})])
lr = UniverseLaws(edge_whitelist=outer_rows)
check(outer_rows.calls == 1 and inner_a.calls == 1, "whitelist read once")
w1, w2 = lr.edge_whitelist, lr.edge_whitelist
check(outer_rows.calls == 1 and inner_a.calls == 1, "whitelist re-read later")
check(w1 is not w2 and w1 == w2, "each read gives a fresh, equal view")
check(type(w1) is types.MappingProxyType, "outer view type")
check(all(type(v) is types.MappingProxyType for v in w1.values()), "inner type")
check(list(w1) == [A, B], "outer key order (first occurrence wins position)")
check(dict(w1[A]) == {A: bytes} and dict(w1[B]) == {}, "last duplicate wins")
lr2 = UniverseLaws(edge_whitelist={A: inner_a})
check(list(lr2.edge_whitelist[A].items()) == [(B, float), (A, str)], "inner order")
for bad_write in (
    lambda: w1.__setitem__(A, {}),
    lambda: w1[A].__setitem__(A, int),
    lambda: w1.__delitem__(A),
):
    try:
        bad_write()
        check(False, "whitelist view is writable")
    except TypeError:
        pass
    except AttributeError:
        pass
check(dict(lr.edge_whitelist[A]) == {A: bytes}, "view writes leaked")
empty = UniverseLaws(edge_whitelist={})
check(empty.edge_whitelist == {} and empty.edge_whitelist is not None, "empty")

# wrong structures: ValueError chained to the original problem
for wrong, cause in (
    ({"cat": "dog"}, AttributeError),
    ([1, 2, 3], AttributeError),
    ({"cat": [1, 2]}, AttributeError),
    (7, AttributeError),
    ("", AttributeError),
    ({A: Rows([(1,)])}, ValueError),
    ({A: Rows(["abc"])}, ValueError),
):
    try:
        UniverseLaws(edge_whitelist=wrong)
        check(False, f"bad whitelist {wrong!r} accepted")
    except ValueError as exc:
        check(type(exc) is ValueError, "exact class of the re-raise")
        check(type(exc.__cause__) is cause, f"cause for {wrong!r}")
# ... anything else propagates untouched
for wrong, exc_class in (
    ({A: Rows([([], int)])}, TypeError),  # unhashable key
    (Rows([([], {})]), TypeError),
    ({A: Rows([5])}, TypeError),  # cannot unpack
    (Rows([(A, {}, 3)]), ValueError),  # too many values: ValueError, rewrapped
):
    try:
        UniverseLaws(edge_whitelist=wrong)
        check(False, f"bad whitelist {wrong!r} accepted")
    except exc_class:
        pass


class Boom(Exception):
    pass


class Exploding:
    def items(self):
        raise Boom()


for wrong in (Exploding(), {A: Exploding()}):
    try:
        UniverseLaws(edge_whitelist=wrong)
        check(False, "exploding whitelist accepted")
    except Boom:
        pass

# law sets made with applies_to= are stored as given (no handshake)
pre_u = Universe()
pre = UniverseLaws(applies_to=pre_u)
check(pre.applies_to is pre_u and pre_u.laws is not pre, "applies_to= in ctor")
pre.applies_to = pre_u  # already recorded: nothing happens
check(pre_u.laws is not pre, "no-op assignment did something")
pre.applies_to = None
check(pre.applies_to is None and pre_u.laws.applies_to is pre_u, "ctor detach")
pre.applies_to = pre_u
check(pre_u.laws is pre and pre.applies_to is pre_u, "ctor then real attach")


# a universe subclass that logs its laws property
class LoggingUniverse(Universe):
    log = []

    @property
    def laws(self):
        type(self).log.append("get")
        return Universe.laws.fget(self)

    @laws.setter
    def laws(self, new):
        type(self).log.append(("set", new))
        Universe.laws.fset(self, new)


lu1, lu2 = LoggingUniverse(), LoggingUniverse()
mover = lu1.laws
LoggingUniverse.log.clear()
mover.applies_to = lu2
check(lu2.laws is mover and lu1.laws is None, "law-side move, subclass")
check(
    LoggingUniverse.log[:3] == ["get", ("set", None), ("set", mover)],
    f"law-side move saw a different call sequence: {LoggingUniverse.log}",
)

if FAILS:
    print(f"{len(FAILS)} failure(s)")
    sys.exit(1)
print("equiv.py: all checks passed")
sys.exit(0)
