#!/usr/bin/python3
# -*- coding: utf-8 -*-
"""
Equivalence / property check for C11, focused on load_adj_dict and
explicit.link_from_to (rewrite 2).

Exit status 0 = every observation is as expected.  Must pass both on the
unchanged tree and with the rewrite applied.
"""

import sys
import types
import inspect
import collections

from edgegraph.structure import (
    Vertex,
    Universe,
    DirectedEdge,
    UnDirectedEdge,
    TwoEndedLink,
    Link,
)
from edgegraph.builder import adjlist, adjmatrix, explicit, randgraph
from edgegraph.traversal import helpers

FAILS = []


def check(cond, what):
    if not cond:
        FAILS.append(what)
        print("FAIL:", what)


def same_seq(a, b):
    """Identity-wise equality of two sequences."""
    a, b = list(a), list(b)
    return len(a) == len(b) and all(x is y for x, y in zip(a, b))


EVENTS = []


class LoggedDirected(DirectedEdge):
    def __init__(self, v1=None, v2=None, **kw):
        EVENTS.append(("link", "D", v1, v2))
        super().__init__(v1, v2, **kw)


class LoggedUndirected(UnDirectedEdge):
    def __init__(self, v1=None, v2=None, **kw):
        EVENTS.append(("link", "U", v1, v2))
        super().__init__(v1, v2, **kw)


class LoggedPlain(TwoEndedLink):
    def __init__(self, v1=None, v2=None, **kw):
        EVENTS.append(("link", "T", v1, v2))
        super().__init__(v1, v2, **kw)


class SubVertex(Vertex):
    """Vertex subclass that records add_to_universe calls."""

    def add_to_universe(self, universe):
        EVENTS.append(("join", self, universe))
        super().add_to_universe(universe)


class Boom(Exception):
    pass


def snapshot(verts):
    return [(tuple(v.links), tuple(v.universes)) for v in verts]


def first_mention(adj):
    order = []
    for k, vals in adj:
        for v in [k] + list(vals):
            if not any(v is o for o in order):
                order.append(v)
    return order


def run_dict_case(name, nverts, shape, linktype, tag, rowtype=list, vcls=Vertex,
                  dicttype=dict):
    """
    ``shape`` is a list of (origin index, [target indexes]) in insertion order.
    """
    verts = [vcls(attributes={"i": i}) for i in range(nverts)]
    olduni = Universe()
    verts[0].add_to_universe(olduni)
    oldlink = DirectedEdge(verts[0], verts[-1])
    before = snapshot(verts)

    adj = dicttype()
    for o, ts in shape:
        adj[verts[o]] = rowtype(verts[t] for t in ts)
    pairs = [(o, t) for o, ts in shape for t in ts]
    items = [(verts[o], [verts[t] for t in ts]) for o, ts in shape]

    del EVENTS[:]
    uni = adjlist.load_adj_dict(adj, linktype)

    check(type(uni) is Universe and uni is not olduni, f"{name}: new Universe")
    check(
        same_seq(uni.vertices, first_mention(items)),
        f"{name}: members in first-mention order",
    )
    links = [e for e in EVENTS if e[0] == "link"]
    check(
        links == [("link", tag, verts[o], verts[t]) for o, t in pairs],
        f"{name}: one link per listed pair, key -> value, in input order",
    )
    if vcls is SubVertex:
        # exact interleaving: origin joins, then per target: link, target joins
        exp = []
        for o, ts in shape:
            exp.append(("join", verts[o], uni))
            for t in ts:
                exp.append(("link", tag, verts[o], verts[t]))
                exp.append(("join", verts[t], uni))
        check(EVENTS == exp, f"{name}: exact interleaving of joins and links")

    mentioned = {o for o, _ in shape} | {t for _, ts in shape for t in ts}
    for idx, v in enumerate(verts):
        oldlinks, oldunis = before[idx]
        check(
            same_seq(v.links[: len(oldlinks)], oldlinks),
            f"{name}: v{idx} keeps prior links first",
        )
        expunis = list(oldunis) + ([uni] if idx in mentioned else [])
        check(same_seq(v.universes, expunis), f"{name}: v{idx} universes")
        new = v.links[len(oldlinks) :]
        exp = [(o, t) for (o, t) in pairs if idx in (o, t)]
        check(len(new) == len(exp), f"{name}: v{idx} number of new links")
        for lnk, (o, t) in zip(new, exp):
            check(type(lnk) is linktype, f"{name}: link class")
            check(
                same_seq(lnk.vertices, (verts[o], verts[t])),
                f"{name}: v{idx} link ends ({o},{t})",
            )
            check(lnk.universes == [], f"{name}: link is in no universe")
    check(same_seq(oldlink.vertices, (verts[0], verts[-1])), f"{name}: old link")
    check(same_seq(olduni.vertices, [verts[0]]), f"{name}: old universe")

    directed = issubclass(linktype, DirectedEdge)
    undirected = issubclass(linktype, UnDirectedEdge)
    if directed or undirected:
        for idx, v in enumerate(verts):
            exp = [verts[-1]] if idx == 0 else []
            for o, t in pairs:
                if o == idx:
                    exp.append(verts[t])
                elif undirected and t == idx:
                    exp.append(verts[o])
            check(same_seq(helpers.neighbors(v), exp), f"{name}: neighbors(v{idx})")
        for a in range(nverts):
            for b in range(nverts):
                found = helpers.find_links(verts[a], verts[b]) - {oldlink}
                if directed:
                    n = sum(1 for p in pairs if p == (a, b))
                else:
                    n = sum(1 for p in pairs if p in ((a, b), (b, a)))
                check(len(found) == n, f"{name}: find_links(v{a}, v{b})")
    return uni, verts


def main():
    doc = [(0, [1, 2, 3]), (1, [2, 3, 4]), (2, [3, 4, 5]), (3, [3]), (5, [])]
    run_dict_case("doc/undirected", 6, doc, LoggedUndirected, "U")
    run_dict_case("doc/directed", 6, doc, LoggedDirected, "D")
    run_dict_case("doc/plain", 6, doc, LoggedPlain, "T")
    run_dict_case("doc/tuples", 6, doc, LoggedDirected, "D", rowtype=tuple)
    run_dict_case("doc/iterators", 6, doc, LoggedDirected, "D", rowtype=iter)
    run_dict_case(
        "doc/deques", 6, doc, LoggedUndirected, "U", rowtype=collections.deque
    )
    run_dict_case("doc/subvertex", 6, doc, LoggedUndirected, "U", vcls=SubVertex)
    run_dict_case(
        "doc/ordereddict", 6, doc, LoggedDirected, "D",
        dicttype=collections.OrderedDict,
    )

    # repeated entries, self entries, both directions, unmentioned vertex 4,
    # keys that first appear as values, later keys out of index order
    messy = [(3, [3, 3, 1]), (1, [3, 1, 0, 0]), (0, []), (2, [0, 2])]
    run_dict_case("messy/undirected", 5, messy, LoggedUndirected, "U")
    run_dict_case("messy/directed", 5, messy, LoggedDirected, "D")
    run_dict_case("messy/subvertex", 5, messy, LoggedDirected, "D", vcls=SubVertex)
    run_dict_case("only empty rows", 3, [(2, []), (0, [])], LoggedDirected, "D")
    run_dict_case("single loop", 1, [(0, [0])], LoggedUndirected, "U")

    # empty dict -> empty universe; link type is never called
    uni = adjlist.load_adj_dict({}, None)
    check(type(uni) is Universe and uni.vertices == [], "empty dict")
    check(uni.universes == [] and uni.links == (), "empty dict: fresh universe")

    # anything with .items() will do (read-only proxy, generator rows)
    a, b, c = Vertex(), Vertex(), Vertex()
    proxy = types.MappingProxyType({a: (x for x in (b, c)), c: iter([a])})
    uni = adjlist.load_adj_dict(proxy, DirectedEdge)
    check(same_seq(uni.vertices, [a, b, c]), "mapping proxy: members")
    check(same_seq(helpers.neighbors(a), [b, c]), "mapping proxy: a ->")
    check(same_seq(helpers.neighbors(c), [a]), "mapping proxy: c ->")

    class Pairs:
        """Not a mapping at all; just has items()."""

        def __init__(self, pairs):
            self.pairs = pairs

        def items(self):
            return iter(self.pairs)

        def __iter__(self):
            raise Boom("must not be iterated")

        def __getitem__(self, key):
            raise Boom("must not be indexed")

    a, b = Vertex(), Vertex()
    uni = adjlist.load_adj_dict(Pairs([(a, [b]), (a, [b, a])]), UnDirectedEdge)
    check(same_seq(uni.vertices, [a, b]), "items()-only object: members")
    check(len(a.links) == 3 and len(b.links) == 2, "items()-only object: links")

    # nested universe as a vertex
    inner = Universe()
    plain = Vertex()
    uni = adjlist.load_adj_dict({inner: [plain, inner]})
    check(same_seq(uni.vertices, [inner, plain]), "nested universe: members")
    check(inner.vertices == [] and same_seq(inner.universes, [uni]), "nested: inner")
    check(type(plain.links[0]) is UnDirectedEdge, "default link type is undirected")
    check(same_seq(helpers.neighbors(inner), [plain, inner]), "nested: neighbors")

    # ------------------------------------------------------------------
    # failures half-way
    # ------------------------------------------------------------------
    calls = []

    def third_fails(v1, v2):
        calls.append((v1, v2))
        if len(calls) == 3:
            raise Boom("third")
        return DirectedEdge(v1, v2)

    vs = [Vertex() for _ in range(4)]
    try:
        adjlist.load_adj_dict({vs[0]: [vs[1], vs[2]], vs[3]: [vs[2], vs[1]]}, third_fails)
    except Boom:
        pass
    else:
        check(False, "failing link type must propagate")
    check(calls == [(vs[0], vs[1]), (vs[0], vs[2]), (vs[3], vs[2])], "calls so far")
    check([len(v.links) for v in vs] == [2, 1, 1, 0], "failing link type: links")
    # v3 joined before its first link was attempted, v2 joined earlier
    check([len(v.universes) for v in vs] == [1, 1, 1, 1], "failing link type: unis")
    lost = vs[0].universes[0]
    check(same_seq(lost.vertices, [vs[0], vs[1], vs[2], vs[3]]), "lost universe")

    # abstract Link as link type: TypeError on the first pair; key had joined
    a, b = Vertex(), Vertex()
    try:
        adjlist.load_adj_dict({a: [b]}, Link)
    except TypeError:
        pass
    else:
        check(False, "Link as link type must be a TypeError")
    check(len(a.universes) == 1 and b.universes == [], "Link type: partial state")
    check(a.links == () and b.links == (), "Link type: no links")

    # a None value: the link to None IS made, then None cannot join
    a = Vertex()
    try:
        adjlist.load_adj_dict({a: [None]}, DirectedEdge)
    except AttributeError:
        pass
    else:
        check(False, "None target must be an AttributeError")
    check(len(a.links) == 1 and a.links[0].vertices == (a, None), "None target: link")

    # a non-vertex value: TypeError from the link class, nothing linked
    a = Vertex()
    try:
        adjlist.load_adj_dict({a: [7]}, DirectedEdge)
    except TypeError:
        pass
    else:
        check(False, "non-vertex target must be a TypeError")
    check(a.links == () and len(a.universes) == 1, "non-vertex target: state")

    # a non-iterable row: key has joined, TypeError
    a = Vertex()
    try:
        adjlist.load_adj_dict({a: 5})
    except TypeError:
        pass
    else:
        check(False, "non-iterable row must be a TypeError")
    check(len(a.universes) == 1, "non-iterable row: key joined")

    # rows that raise while being iterated
    def gen(vs, exc):
        yield vs[1]
        raise exc

    for exc in (Boom("g"), KeyError("g")):
        vs = [Vertex(), Vertex()]
        try:
            adjlist.load_adj_dict({vs[0]: gen(vs, exc)})
        except Exception as e:  # pylint: disable=broad-except
            check(e is exc, "row exception propagates unchanged")
        else:
            check(False, "row exception must propagate")
        check(len(vs[0].links) == 1 and len(vs[1].universes) == 1, "row exc: state")

    # ------------------------------------------------------------------
    # explicit.link_from_to -- the "exactly one new link" primitive
    # ------------------------------------------------------------------
    p, q, r = Vertex(), Vertex(), Vertex()
    l1 = explicit.link_from_to(p, DirectedEdge, q)
    check(type(l1) is DirectedEdge and l1.vertices == (p, q), "link_from_to basic")
    l2 = explicit.link_from_to(p, UnDirectedEdge, q)
    check(l2 is not l1 and type(l2) is UnDirectedEdge, "duplicates by default")
    check(same_seq(p.links, [l1, l2]) and same_seq(q.links, [l1, l2]), "both ends")
    # dontdup: oldest existing link between the two, of any type / direction
    check(explicit.link_from_to(p, UnDirectedEdge, q, dontdup=True) is l1, "dontdup 1")
    check(explicit.link_from_to(q, DirectedEdge, p, True) is l1, "dontdup reverse")
    check(explicit.link_from_to(p, None, q, dontdup=1) is l1, "dontdup truthy int")
    l3 = explicit.link_from_to(p, DirectedEdge, r, dontdup=True)
    check(l3.vertices == (p, r) and same_seq(p.links, [l1, l2, l3]), "dontdup new")
    l4 = explicit.link_from_to(r, LoggedUndirected, r, dontdup=True)
    check(l4.vertices == (r, r) and same_seq(r.links, [l3, l4]), "dontdup loop new")
    check(explicit.link_from_to(r, DirectedEdge, r, dontdup=True) is l4, "loop found")
    check(explicit.link_from_to(r, DirectedEdge, r, dontdup=0).vertices == (r, r),
          "falsy dontdup creates")
    check(len(r.links) == 3, "falsy dontdup created one link")
    # None as far end: a link whose other end is None counts as existing
    ln = explicit.link_from_to(p, DirectedEdge, None)
    check(ln.vertices == (p, None), "None end allowed")
    check(explicit.link_from_to(p, UnDirectedEdge, None, dontdup=True) is ln,
          "dontdup finds the None-ended link")
    # falsy link object is still returned
    class FalsyEdge(UnDirectedEdge):
        def __bool__(self):
            return False

        def __len__(self):
            return 0

    s, t = Vertex(), Vertex()
    lf = explicit.link_from_to(s, FalsyEdge, t)
    check(explicit.link_from_to(s, DirectedEdge, t, dontdup=True) is lf, "falsy link")
    check(len(s.links) == 1, "falsy link: nothing new")
    # positional call of the link type, whatever its parameter names
    got = []
    explicit.link_from_to(s, lambda x, y: got.append((x, y)) or "made", t)
    check(got == [(s, t)], "link type called positionally")
    check(explicit.link_from_to(s, lambda x, y: "made", t) == "made", "result passed")
    check(explicit.link_from_to(s, lambda x, y: None, t) is None, "None result")
    check(explicit.link_from_to(s, lambda x, y: None, Vertex(), dontdup=True) is None,
          "None result with dontdup")
    # a dontdup flag whose truth value raises
    class BadFlag:
        def __bool__(self):
            raise Boom("flag")

    try:
        explicit.link_from_to(s, DirectedEdge, t, dontdup=BadFlag())
    except Boom:
        pass
    else:
        check(False, "bad flag must propagate")
    check(len(s.links) == 1, "bad flag: nothing created")
    # an `other` that raises StopIteration propagates as such
    class Stopper(UnDirectedEdge):
        def other(self, end):
            raise StopIteration("x")

    u, w = Vertex(), Vertex()
    Stopper(u, w)
    try:
        explicit.link_from_to(u, DirectedEdge, w, dontdup=True)
    except StopIteration:
        pass
    except BaseException as e:  # pylint: disable=broad-except
        check(False, f"StopIteration from other() became {type(e)}")
    else:
        check(False, "StopIteration from other() swallowed")
    check(len(u.links) == 1, "stopper: nothing created")
    m, n = Vertex(), Vertex()
    check(explicit.link_directed(m, n).vertices == (m, n), "link_directed")
    check(type(explicit.link_undirected(n, m)) is UnDirectedEdge, "link_undirected")
    check(explicit.link_directed(n, m, dontdup=True) is m.links[0], "wrappers dontdup")
    check(explicit.link_undirected(m, n, dontdup=True) is m.links[0], "wrappers dd 2")
    check(len(m.links) == 2 and len(n.links) == 2, "wrappers: link count")

    # ------------------------------------------------------------------
    # signatures and module surface
    # ------------------------------------------------------------------
    sig = inspect.signature(adjlist.load_adj_dict)
    check(list(sig.parameters) == ["adjdict", "linktype"], "load_adj_dict signature")
    check(sig.parameters["linktype"].default is UnDirectedEdge, "default link type")
    sig = inspect.signature(explicit.link_from_to)
    check(list(sig.parameters) == ["v1", "lnktype", "v2", "dontdup"], "lft signature")
    check(sig.parameters["dontdup"].default is False, "dontdup default")
    public = sorted(n for n in vars(adjlist) if not n.startswith("_"))
    check(
        public
        == sorted(["UnDirectedEdge", "Universe", "annotations", "explicit",
                   "load_adj_dict"]),
        f"public names of adjlist: {public}",
    )
    public = sorted(n for n in vars(explicit) if not n.startswith("_"))
    check(
        public
        == sorted(["DirectedEdge", "TYPE_CHECKING", "TwoEndedLink", "UnDirectedEdge",
                   "Vertex", "annotations", "helpers", "link_directed",
                   "link_from_to", "link_undirected", "unlink"]),
        f"public names of explicit: {public}",
    )

    # ------------------------------------------------------------------
    # users of load_adj_dict / the sibling builder still agree
    # ------------------------------------------------------------------
    g = randgraph.randgraph(count=8)
    check(len(g.vertices) == 8, "randgraph size")
    check(
        all(type(l) is DirectedEdge for v in g.vertices for l in v.links),
        "randgraph edge type",
    )
    vs = [Vertex() for _ in range(3)]
    ws = [Vertex() for _ in range(3)]
    adjlist.load_adj_dict({vs[0]: [vs[1], vs[2]], vs[1]: [], vs[2]: [vs[2], vs[0]]},
                          DirectedEdge)
    adjmatrix.load_adj_matrix([[0, 1, 1], [0, 0, 0], [1, 0, 1]], ws, DirectedEdge)
    for v, w in zip(vs, ws):
        check(
            sorted(vs.index(n) for n in helpers.neighbors(v))
            == sorted(ws.index(n) for n in helpers.neighbors(w)),
            "dict and matrix builders agree",
        )

    if FAILS:
        print(f"{len(FAILS)} check(s) failed")
        return 1
    print("all checks passed")
    return 0


if __name__ == "__main__":
    sys.exit(main())
