#!/usr/bin/env python3
"""
equiv.py -- C01: vertex-link association is symmetric and duplicate-free.

Self-contained check program.  It

1. replays several pseudo-random (fixed seed) histories of the public
   construction / mutation calls (edge constructors, v1/v2 assignment,
   explicit.link_* / unlink, Vertex.add_to_link / remove_from_link,
   Link.add_vertex / unlink_from) over a small pool of vertices with heavy
   aliasing (same vertex at both ends, None ends, re-assigning the same end),
   checks the property after EVERY call (also after calls that raised) and
   records everything a user can observe (links / vertices by pool index,
   exception classes, return values, the cache statistics text);
2. runs a few hand written corner cases (self loops, a link that names one
   vertex three times, an edge that lost an end, equal-but-not-identical
   vertices, falsy vertices, wrong types, subclasses, pickling);
3. compares a digest of the recorded observations with the digest obtained on
   the unchanged library.

Exit status 0 = everything as expected.
"""

import hashlib
import pickle
import random
import sys

from edgegraph.structure import (
    Vertex,
    Link,
    TwoEndedLink,
    DirectedEdge,
    UnDirectedEdge,
    Universe,
)
from edgegraph.builder import explicit
from edgegraph.output import nrpickler

# digest of all observations, obtained with the unchanged library
EXPECTED = "f8c45020a123b6f98e9d3d95cad7b52245f838b3fe81838023164bb5e613eae8"

FAILURES = []
TRACE = []


def fail(msg):
    FAILURES.append(msg)
    print("FAIL:", msg)


def rec(*items):
    TRACE.append(repr(items))


def ident_index(seq, obj):
    for i, x in enumerate(seq):
        if x is obj:
            return i
    return -1


def ident_count(seq, obj):
    return sum(1 for x in seq if x is obj)


def check_property(verts, links, where):
    """The C01 property over the given pools (identity based)."""
    for vi, v in enumerate(verts):
        vl = v.links
        if not isinstance(vl, tuple):
            fail(f"{where}: v{vi}.links is not a tuple")
        for lk in vl:
            if ident_count(vl, lk) != 1:
                fail(f"{where}: v{vi} lists a link {ident_count(vl, lk)} times")
            if ident_index(links, lk) < 0:
                fail(f"{where}: v{vi} lists a link outside the pool")
            elif ident_count(lk.vertices, v) < 1:
                fail(f"{where}: v{vi} lists a link that does not list it")
    for li, lk in enumerate(links):
        lv = lk.vertices
        if not isinstance(lv, tuple):
            fail(f"{where}: l{li}.vertices is not a tuple")
        for v in lv:
            if v is None:
                continue
            if ident_index(verts, v) < 0:
                fail(f"{where}: l{li} lists a vertex outside the pool")
            elif ident_count(v.links, lk) != 1:
                fail(f"{where}: l{li} lists a vertex that does not list it once")


def snapshot(verts, links):
    vs = tuple(
        tuple(ident_index(links, lk) for lk in v.links) for v in verts
    )
    ls = tuple(
        tuple(-9 if v is None else ident_index(verts, v) for v in lk.vertices)
        for lk in links
    )
    return vs, ls


class Hyper(Link):
    """A plain n-ary link (Link itself must not be instantiated)."""


class MyVertex(Vertex):
    """A user subclass."""


def run_history(seed, nsteps, caching, with_hyper):
    Vertex.NEIGHBOR_CACHING = caching
    rng = random.Random(seed)
    verts = [Vertex() for _ in range(3)] + [MyVertex()]
    links = []

    def pick_v(allow_none=True):
        r = rng.randrange(len(verts) + (2 if allow_none else 0))
        return verts[r] if r < len(verts) else None

    def pick_l():
        return links[rng.randrange(len(links))] if links else None

    def name(obj):
        if obj is None:
            return None
        i = ident_index(verts, obj)
        if i >= 0:
            return f"v{i}"
        i = ident_index(links, obj)
        if i >= 0:
            return f"l{i}"
        return type(obj).__name__

    for step in range(nsteps):
        op = rng.randrange(14)
        outcome = None
        desc = None
        try:
            if op == 0:
                cls = rng.choice([DirectedEdge, UnDirectedEdge, TwoEndedLink])
                a, b = pick_v(), pick_v()
                desc = ("ctor", cls.__name__, name(a), name(b))
                new = cls(a, b)
                links.append(new)
                outcome = name(new)
            elif op == 1:
                a = pick_v(False)
                b = a if rng.random() < 0.4 else pick_v(False)
                dd = rng.random() < 0.5
                fn = rng.choice(
                    [explicit.link_directed, explicit.link_undirected]
                )
                desc = (fn.__name__, name(a), name(b), dd)
                got = fn(a, b, dontdup=dd)
                if ident_index(links, got) < 0:
                    links.append(got)
                outcome = (name(got), type(got).__name__)
            elif op == 2:
                a, b = pick_v(False), pick_v(False)
                dd = rng.random() < 0.5
                desc = ("link_from_to", name(a), name(b), dd)
                got = explicit.link_from_to(a, TwoEndedLink, b, dontdup=dd)
                if ident_index(links, got) < 0:
                    links.append(got)
                outcome = (name(got), type(got).__name__)
            elif op in (3, 4):
                lk = pick_l()
                new = pick_v()
                which = "v1" if op == 3 else "v2"
                if lk is not None and rng.random() < 0.25:
                    # new end equal to old / other end
                    cur = lk.vertices
                    if cur:
                        new = cur[rng.randrange(len(cur))]
                desc = ("set", which, name(lk), name(new))
                if lk is not None and isinstance(lk, TwoEndedLink):
                    setattr(lk, which, new)
            elif op == 5:
                a, b = pick_v(False), pick_v(False)
                destroy = rng.random() < 0.5
                desc = ("unlink", name(a), name(b), destroy)
                got = explicit.unlink(a, b, destroy=destroy)
                if got is None:
                    outcome = None
                else:
                    outcome = (
                        type(got).__name__,
                        sorted(ident_index(links, x) for x in got),
                    )
            elif op == 6:
                v, lk = pick_v(False), pick_l()
                desc = ("add_to_link", name(v), name(lk))
                if lk is not None:
                    outcome = v.add_to_link(lk)
            elif op == 7:
                v, lk = pick_v(False), pick_l()
                desc = ("remove_from_link", name(v), name(lk))
                if lk is not None:
                    outcome = v.remove_from_link(lk)
            elif op == 8:
                v, lk = pick_v(), pick_l()
                desc = ("add_vertex", name(lk), name(v))
                if lk is not None:
                    outcome = lk.add_vertex(v)
            elif op in (9, 10):
                v, lk = pick_v(), pick_l()
                desc = ("unlink_from", name(lk), name(v))
                if lk is not None:
                    outcome = lk.unlink_from(v)
            elif op == 11 and with_hyper:
                n = rng.randrange(4)
                members = [pick_v() for _ in range(n)]
                desc = ("Hyper", [name(m) for m in members])
                new = Hyper(vertices=members)
                links.append(new)
                outcome = name(new)
            elif op == 12:
                lk = pick_l()
                v = pick_v()
                desc = ("other", name(lk), name(v))
                if lk is not None and isinstance(lk, TwoEndedLink):
                    outcome = name(lk.other(v))
            elif op == 13:
                existing = [lk for lk in links if rng.random() < 0.3]
                desc = ("Vertex(links=)", [name(x) for x in existing])
                new = Vertex(links=existing)
                verts.append(new)
                outcome = name(new)
        except Exception as exc:  # pylint: disable=broad-except
            outcome = ("raised", type(exc).__name__)
        where = f"seed {seed} step {step} {desc}"
        check_property(verts, links, where)
        rec(step, desc, outcome, snapshot(verts, links))

    rec("stats", Vertex.total_cache_stats())
    return verts, links


def expect_raises(exc_class, func, what):
    try:
        func()
    except exc_class as exc:
        if type(exc) is not exc_class:
            fail(f"{what}: raised {type(exc).__name__}, not {exc_class.__name__}")
        return
    except Exception as exc:  # pylint: disable=broad-except
        fail(f"{what}: raised {type(exc).__name__}, not {exc_class.__name__}")
        return
    fail(f"{what}: did not raise")


def corner_cases(caching):
    Vertex.NEIGHBOR_CACHING = caching

    # --- self loop, end re-assignment with aliasing -----------------------
    a, b, c = Vertex(), Vertex(), Vertex()
    verts = [a, b, c]
    loop = DirectedEdge(a, a)
    links = [loop]
    check_property(verts, links, "loop")
    rec("loop", snapshot(verts, links))
    loop.v1 = b  # a stays listed (other end)
    check_property(verts, links, "loop v1=b")
    rec("loop v1=b", snapshot(verts, links))
    loop.v2 = b  # a gone, b at both ends, listed once on b
    check_property(verts, links, "loop v2=b")
    rec("loop v2=b", snapshot(verts, links))
    if a.links != () or ident_count(b.links, loop) != 1:
        fail("loop re-assignment left wrong association")
    loop.v1 = loop.v1  # same end again
    loop.v2 = None
    loop.v1 = None
    check_property(verts, links, "loop None None")
    rec("loop None None", snapshot(verts, links))
    if b.links != () or loop.vertices != (None, None):
        fail("edge with both ends cleared still attached")
    loop.v2 = c
    loop.v1 = c
    check_property(verts, links, "loop c c")
    rec("loop c c", snapshot(verts, links))

    # --- parallel edges, dontdup, unlink -----------------------------------
    e1 = explicit.link_directed(a, b)
    e2 = explicit.link_undirected(b, a)
    e3 = explicit.link_directed(a, b, dontdup=True)
    e4 = explicit.link_from_to(a, TwoEndedLink, b)
    e5 = explicit.link_from_to(b, DirectedEdge, a, dontdup=True)
    links += [e1, e2, e4]
    if e3 is not e1 or e5 is not e1:
        fail("dontdup did not return the first existing link")
    if type(e1) is not DirectedEdge or type(e2) is not UnDirectedEdge:
        fail("wrong edge classes from explicit.link_*")
    if type(e4) is not TwoEndedLink:
        fail("wrong edge class from link_from_to")
    check_property(verts, links, "parallel")
    rec("parallel", snapshot(verts, links))
    got = explicit.unlink(a, b, destroy=False)
    if type(got) is not set or len(got) != 3:
        fail(f"unlink(destroy=False) returned {got!r}")
    if not all(ident_index([e1, e2, e4], x) >= 0 for x in got):
        fail("unlink(destroy=False) returned foreign links")
    check_property(verts, links, "unlinked")
    rec("unlinked", snapshot(verts, links))
    if a.links != () or b.links != ():
        fail("unlink left links behind")
    if e1.vertices != () or e2.vertices != () or e4.vertices != ():
        fail("unlink left vertices behind")
    if explicit.unlink(a, b) is not None:
        fail("unlink(destroy=True) must return None")
    if explicit.unlink(a, b, destroy=False) != set():
        fail("unlink of unconnected vertices must give an empty set")

    # --- an edge that lost an end: assignment raises, state stays consistent
    lost = UnDirectedEdge(a, b)
    links.append(lost)
    lost.unlink_from(b)
    before = snapshot(verts, links)
    expect_raises(IndexError, lambda: setattr(lost, "v1", c), "lost.v1 = c")
    expect_raises(IndexError, lambda: setattr(lost, "v2", c), "lost.v2 = c")
    expect_raises(IndexError, lambda: lost.v2, "lost.v2")
    if snapshot(verts, links) != before:
        fail("failed end assignment changed the association")
    check_property(verts, links, "lost end")
    rec("lost", snapshot(verts, links))
    lost.add_vertex(c)  # two ends again -> assignable again
    lost.v1 = c
    check_property(verts, links, "lost refilled")
    rec("lost refilled", snapshot(verts, links))
    if a.links != () or ident_count(c.links, lost) != 1:
        fail("refilled edge wrongly attached")

    # --- a link naming one vertex several times -----------------------------
    hy = Hyper(vertices=[a, None, a, b, a, None])
    links.append(hy)
    check_property(verts, links, "hyper")
    rec("hyper", snapshot(verts, links))
    hy.unlink_from(None)  # only the first None goes
    if hy.vertices != (a, a, b, a, None):
        fail("unlink_from(None) must drop exactly the first None")
    hy.unlink_from(a)  # every occurrence goes
    if hy.vertices != (b, None) or ident_count(a.links, hy) != 0:
        fail("unlink_from(a) must drop every occurrence of a")
    hy.unlink_from(a)  # not listed: no action
    hy.unlink_from(c)
    check_property(verts, links, "hyper unlinked")
    rec("hyper unlinked", snapshot(verts, links))
    b.remove_from_link(hy)
    b.remove_from_link(hy)
    if hy.vertices != (None,) or ident_count(b.links, hy) != 0:
        fail("remove_from_link did not detach")
    b.add_to_link(hy)
    b.add_to_link(hy)
    hy.add_vertex(b)
    if hy.vertices != (None, b, b) or ident_count(b.links, hy) != 1:
        fail("add_to_link / add_vertex did not attach exactly once")
    check_property(verts, links, "hyper re-added")
    rec("hyper re-added", snapshot(verts, links))

    # --- Link itself is abstract; wrong types ---------------------------------
    expect_raises(TypeError, Link, "Link()")
    expect_raises(TypeError, lambda: Link(vertices=[a]), "Link(vertices)")
    before = snapshot(verts, links)
    expect_raises(TypeError, lambda: DirectedEdge(1, a), "DirectedEdge(1, a)")
    expect_raises(TypeError, lambda: DirectedEdge(a, "x"), "DirectedEdge(a, 'x')")
    expect_raises(TypeError, lambda: UnDirectedEdge(e1, a), "UnDirectedEdge(link, a)")
    expect_raises(TypeError, lambda: TwoEndedLink(object(), 3), "TwoEndedLink(obj, 3)")
    if snapshot(verts, links) != before:
        fail("rejected constructor call changed the association")

    # --- equal-but-not-identical and falsy vertices ---------------------------
    class Same(Vertex):
        def __eq__(self, other):
            return isinstance(other, Same)

        def __hash__(self):
            return 7

    class Falsy(Vertex):
        def __bool__(self):
            return False

        def __len__(self):
            return 0

    s1, s2, f1 = Same(), Same(), Falsy()
    verts2 = [s1, s2, f1]
    d1 = DirectedEdge(s1, s2)
    d2 = UnDirectedEdge(f1, s1)
    d3 = DirectedEdge(f1, f1)
    links2 = [d1, d2, d3]
    check_property(verts2, links2, "same/falsy ctor")
    rec("same/falsy", snapshot(verts2, links2))
    d1.v2 = s1
    check_property(verts2, links2, "same v2=s1")
    rec("same v2=s1", snapshot(verts2, links2))
    d1.v1 = s2
    check_property(verts2, links2, "same v1=s2")
    rec("same v1=s2", snapshot(verts2, links2))
    d3.v1 = None
    d3.v2 = s2
    check_property(verts2, links2, "falsy moved")
    rec("falsy moved", snapshot(verts2, links2))
    d2.unlink_from(f1)
    d2.unlink_from(s2)  # equal to s1 but not listed itself
    check_property(verts2, links2, "same unlink")
    rec("same unlink", snapshot(verts2, links2))
    r = explicit.unlink(f1, s1, destroy=False)
    rec("same explicit.unlink", sorted(ident_index(links2, x) for x in r))
    check_property(verts2, links2, "same explicit.unlink")
    rec("same explicit.unlink", snapshot(verts2, links2))

    # --- equal-but-not-identical links ---------------------------------------
    class SameEdge(DirectedEdge):
        def __eq__(self, other):
            return isinstance(other, SameEdge)

        def __hash__(self):
            return 11

    p, q = Vertex(), Vertex()
    se1 = SameEdge(p, q)
    se2 = SameEdge(p, q)
    rec("same edges", snapshot([p, q], [se1, se2]))
    p.remove_from_link(se2)
    rec("same edges removed", snapshot([p, q], [se1, se2]))
    q.add_to_link(se2)
    rec("same edges added", snapshot([p, q], [se1, se2]))

    # --- vertices constructed with links; pickling ------------------------------
    uni = Universe()
    x, y = Vertex(universes=[uni]), Vertex(universes=[uni])
    k1 = DirectedEdge(x, y)
    k2 = UnDirectedEdge(y, y)
    k3 = DirectedEdge(x, None)
    z = Vertex(links=[k1, k3, k1], universes=[uni])
    verts3, links3 = [x, y, z], [k1, k2, k3]
    check_property(verts3, links3, "Vertex(links=)")
    rec("Vertex(links=)", snapshot(verts3, links3))
    for dumper in (nrpickler.dumps, pickle.dumps):
        verts4, links4 = pickle.loads(dumper((verts3, links3)))
        check_property(verts4, links4, "unpickled")
        if snapshot(verts4, links4) != snapshot(verts3, links3):
            fail("unpickled graph differs")
        links4[0].v1 = verts4[1]
        links4[2].v2 = verts4[0]
        verts4[2].remove_from_link(links4[0])
        check_property(verts4, links4, "unpickled, mutated")
        rec("unpickled, mutated", snapshot(verts4, links4))

    rec("stats", Vertex.total_cache_stats())


def main():
    for caching in (False, True):
        for seed in (1, 2, 3, 20240917):
            # n-ary links have no other(); explicit.* raises once they appear
            run_history(seed, 400, caching, with_hyper=seed in (3,))
        corner_cases(caching)

    digest = hashlib.sha256("\n".join(TRACE).encode()).hexdigest()
    print("observations:", len(TRACE), "digest:", digest)
    if "--print-digest" not in sys.argv and digest != EXPECTED:
        fail(f"observation digest {digest} differs from expected {EXPECTED}")

    if FAILURES:
        print(f"{len(FAILURES)} failure(s)")
        return 1
    print("OK")
    return 0


if __name__ == "__main__":
    sys.exit(main())
