#!/usr/bin/env python3
# -*- coding: utf-8 -*-
"""
Equivalence / conformance program for property C01 of edgegraph:

    "Vertex-link association is symmetric and duplicate-free after every
    history"

Run from the worktree root as

    PYTHONPATH=<worktree> /venv/bin/python equiv.py [--dump FILE]

Exit status 0 means: every scripted corner case behaved as documented, every
step of every seeded random history agreed with an independent oracle (a plain
dict-of-lists model written from the property statement and the documented
behaviour of the public calls), the symmetry / no-duplicate invariant held after
every step (also after calls that raised), and the *complete* observable trace
(return values, exception classes, states, the text of
``Vertex.total_cache_stats()``, the order and number of calls that reach
overridable public methods of user subclasses, and the states left behind when
such a user method raises at any point) hashes to the recorded value.

Only the public API is used (no underscore attribute is read or written).
"""

from __future__ import annotations

import hashlib
import pickle
import sys

from edgegraph.structure import (
    Vertex,
    Link,
    TwoEndedLink,
    DirectedEdge,
    UnDirectedEdge,
    Universe,
)
from edgegraph.builder import explicit
from edgegraph.traversal import helpers
from edgegraph.output import nrpickler

sys.setrecursionlimit(20000)

###############################################################################
# recorded digest of the complete trace (taken on the unchanged library)

GOLDEN = "b5c39f3f4d1181d0c5dc8e2311a3d8dc41cedf412c07b4be2f19628cc4f736ef"

###############################################################################
# small helpers

FAILS: list[str] = []
TRACE: list[str] = []


def fail(msg: str) -> None:
    FAILS.append(msg)
    if len(FAILS) <= 40:
        print("FAIL:", msg)


def check(cond: bool, msg: str) -> None:
    if not cond:
        fail(msg)


def tr(*parts) -> None:
    TRACE.append(" ".join(str(p) for p in parts))


class Rng:
    """xorshift64* -- own generator, so that histories never depend on the
    version of the ``random`` module (and never disturb its global state)."""

    def __init__(self, seed: int):
        self.s = (seed * 0x9E3779B97F4A7C15 + 0x1234567) & 0xFFFFFFFFFFFFFFFF
        if self.s == 0:
            self.s = 0xDEADBEEF
        for _ in range(8):
            self.next()

    def next(self) -> int:
        x = self.s
        x ^= x >> 12
        x ^= (x << 25) & 0xFFFFFFFFFFFFFFFF
        x ^= x >> 27
        self.s = x
        return (x * 0x2545F4914F6CDD1D) & 0xFFFFFFFFFFFFFFFF

    def below(self, n: int) -> int:
        return (self.next() >> 11) % n

    def chance(self, num: int, den: int) -> bool:
        return self.below(den) < num

    def pick(self, seq):
        return seq[self.below(len(seq))]


###############################################################################
# user subclasses


class Hyper(Link):
    """A link joining any number of vertices (legal subclass of Link)."""


class Boom(Exception):
    """Raised by armed spies."""


class Spy:
    """Shared switchboard of the spying subclasses."""

    on = False
    log: list[str] = []
    countdown = -1  # raise Boom when an event finds this at 0
    serial = 0  # spied links hash by creation order: set order is repeatable

    @classmethod
    def event(cls, what: str, who) -> None:
        if not cls.on:
            return
        cls.log.append(f"{what}:{getattr(who, 'tag', 'untagged')}")
        if cls.countdown == 0:
            cls.countdown = -1
            raise Boom(what)
        if cls.countdown > 0:
            cls.countdown -= 1


class SpyVertex(Vertex):
    @property
    def links(self):
        Spy.event("V.links", self)
        return super().links

    def add_to_link(self, link):
        Spy.event("V.add_to_link", self)
        return super().add_to_link(link)

    def remove_from_link(self, link):
        Spy.event("V.remove_from_link", self)
        return super().remove_from_link(link)


def _spy_link(base):
    class _SpyLink(base):
        def __init__(self, *args, **kwargs):
            Spy.serial += 1
            self.hserial = Spy.serial
            super().__init__(*args, **kwargs)

        def __hash__(self):
            return self.hserial

        @property
        def vertices(self):
            Spy.event("L.vertices", self)
            return super().vertices

        def add_vertex(self, new):
            Spy.event("L.add_vertex", self)
            return super().add_vertex(new)

        def unlink_from(self, kill):
            Spy.event("L.unlink_from", self)
            return super().unlink_from(kill)

    return _SpyLink


def _spy_edge(base):
    class _SpyEdge(_spy_link(base)):
        @property
        def v1(self):
            Spy.event("E.v1", self)
            return super().v1

        @v1.setter
        def v1(self, new):
            Spy.event("E.v1=", self)
            base.v1.fset(self, new)  # the public setter of the parent

        @property
        def v2(self):
            Spy.event("E.v2", self)
            return super().v2

        @v2.setter
        def v2(self, new):
            Spy.event("E.v2=", self)
            base.v2.fset(self, new)  # the public setter of the parent

        def other(self, end):
            Spy.event("E.other", self)
            return super().other(end)

    return _SpyEdge


SpyDirected = _spy_edge(DirectedEdge)
SpyDirected.__name__ = SpyDirected.__qualname__ = "SpyDirected"
SpyUnDirected = _spy_edge(UnDirectedEdge)
SpyUnDirected.__name__ = SpyUnDirected.__qualname__ = "SpyUnDirected"
SpyHyper = _spy_link(Hyper)
SpyHyper.__name__ = SpyHyper.__qualname__ = "SpyHyper"


###############################################################################
# the oracle: a model written from the statement + documented behaviour


class Model:
    """
    vl: vertex label -> ordered list of link labels   (Vertex.links)
    lv: link label   -> ordered list of vertex labels / None (Link.vertices)
    kind: link label -> "D" | "U" | "H"
    """

    def __init__(self):
        self.vl: dict[int, list[int]] = {}
        self.lv: dict[int, list] = {}
        self.kind: dict[int, str] = {}

    def copy(self) -> "Model":
        m = Model()
        m.vl = {k: list(v) for k, v in self.vl.items()}
        m.lv = {k: list(v) for k, v in self.lv.items()}
        m.kind = dict(self.kind)
        return m

    # -- elementary associations -------------------------------------------
    def link_add_vertex(self, l, v):
        self.lv[l].append(v)
        if v is not None and l not in self.vl[v]:
            self.vl[v].append(l)

    def vertex_add_to_link(self, v, l):
        if l not in self.vl[v]:
            self.vl[v].append(l)
            if v not in self.lv[l]:
                self.lv[l].append(v)

    def link_unlink_from(self, l, v):
        if v not in self.lv[l]:
            return
        if v is None:
            self.lv[l].remove(None)
            return
        self.lv[l] = [x for x in self.lv[l] if x != v]
        if l in self.vl[v]:
            self.vl[v].remove(l)

    def vertex_remove_from_link(self, v, l):
        if l in self.vl[v]:
            self.vl[v].remove(l)
            self.lv[l] = [x for x in self.lv[l] if x != v]

    # -- two-ended links -----------------------------------------------------
    def end(self, l, idx):
        """('ok', label) or ('exc', IndexError)"""
        if len(self.lv[l]) <= idx:
            return ("exc", IndexError)
        return ("ok", self.lv[l][idx])

    def set_end(self, l, idx, new):
        ends = self.lv[l]
        if len(ends) < 2:
            return ("exc", IndexError)
        old = ends[idx]
        ends[idx] = new
        if old is not None and old not in ends:
            if l in self.vl[old]:
                self.vl[old].remove(l)
        if new is not None and l not in self.vl[new]:
            self.vl[new].append(l)
        return ("ok", None)

    def other(self, l, end):
        if self.kind[l] == "H":
            return ("exc", AttributeError)
        ends = self.lv[l]
        if len(ends) < 2:
            return ("exc", IndexError)
        if end == ends[0]:
            return ("ok", ends[1])
        if end == ends[1]:
            return ("ok", ends[0])
        return ("ok", None)

    # -- builder -------------------------------------------------------------
    def find_existing(self, a, b):
        """dontdup search of link_from_to: first link of a whose other end is
        b; ('ok', label | None) or ('exc', cls)."""
        for l in self.vl[a]:
            res = self.other(l, a)
            if res[0] == "exc":
                return res
            if res[1] == b:
                return ("ok", l)
        return ("ok", None)

    def joining(self, a, b):
        out = []
        for l in self.vl[a]:
            res = self.other(l, a)
            if res[0] == "exc":
                return res
            if res[1] == b:
                out.append(l)
        return ("ok", out)

    def unlink(self, a, b):
        res = self.joining(a, b)
        if res[0] == "exc":
            return res
        for l in res[1]:
            self.link_unlink_from(l, a)
            self.link_unlink_from(l, b)
        return ("ok", sorted(res[1]))

    def neighbors_any(self, v):
        out = []
        for l in self.vl[v]:
            res = self.other(l, v)
            if res[0] == "exc":
                return res
            out.append(res[1])
        return ("ok", out)

    # -- the property itself -------------------------------------------------
    def invariant_ok(self) -> bool:
        for v, ls in self.vl.items():
            if len(set(ls)) != len(ls):
                return False
            for l in ls:
                if v not in self.lv[l]:
                    return False
        for l, vs in self.lv.items():
            for v in vs:
                if v is not None and l not in self.vl[v]:
                    return False
        return True


###############################################################################
# the world: real objects + model, driven in lock step


class World:
    def __init__(self, spy: bool):
        self.spy = spy
        self.hypers = True
        self.m = Model()
        self.verts: list[Vertex] = []
        self.links: list[Link] = []
        self.vlabel: dict[int, int] = {}  # id(obj) -> label
        self.llabel: dict[int, int] = {}
        self.uid = 1000

    # -- labels --------------------------------------------------------------
    def vlab(self, v):
        if v is None:
            return None
        return self.vlabel[id(v)]

    def llab(self, l):
        return self.llabel[id(l)]

    def v(self, lab):
        return None if lab is None else self.verts[lab]

    def l(self, lab):
        return self.links[lab]

    def next_uid(self):
        self.uid += 1
        return self.uid

    def register_vertex(self, v) -> int:
        lab = len(self.verts)
        self.verts.append(v)
        self.vlabel[id(v)] = lab
        self.m.vl[lab] = []
        return lab

    def register_link(self, l, kind) -> int:
        lab = len(self.links)
        self.links.append(l)
        self.llabel[id(l)] = lab
        self.m.lv[lab] = []
        self.m.kind[lab] = kind
        return lab

    # -- classes ---------------------------------------------------------------
    def vcls(self):
        return SpyVertex if self.spy else Vertex

    def lcls(self, kind):
        if self.spy:
            return {"D": SpyDirected, "U": SpyUnDirected, "H": SpyHyper}[kind]
        return {"D": DirectedEdge, "U": UnDirectedEdge, "H": Hyper}[kind]

    # -- observation -----------------------------------------------------------
    def observe(self):
        """Public view of the whole world, as labels."""
        was = Spy.on
        Spy.on = False
        try:
            vs = []
            for v in self.verts:
                vs.append(tuple(self.llabel.get(id(l), "?") for l in v.links))
            ls = []
            for l in self.links:
                ls.append(
                    tuple(
                        None if x is None else self.vlabel.get(id(x), "?")
                        for x in l.vertices
                    )
                )
            return vs, ls
        finally:
            Spy.on = was

    def real_invariant(self, where: str) -> None:
        """The property, checked directly on the real objects (identity)."""
        was = Spy.on
        Spy.on = False
        try:
            for v in self.verts:
                mine = v.links
                for i, l in enumerate(mine):
                    for l2 in mine[i + 1 :]:
                        check(l is not l2, f"{where}: duplicate link in vertex")
                    check(
                        any(x is v for x in l.vertices),
                        f"{where}: vertex lists a link that does not list it",
                    )
            for l in self.links:
                for x in l.vertices:
                    if x is None:
                        continue
                    check(
                        any(y is l for y in x.links),
                        f"{where}: link lists a vertex that does not list it",
                    )
        finally:
            Spy.on = was

    def compare(self, where: str) -> None:
        vs, ls = self.observe()
        mvs = [tuple(self.m.vl[i]) for i in range(len(self.verts))]
        mls = [tuple(self.m.lv[i]) for i in range(len(self.links))]
        if vs != mvs:
            fail(f"{where}: vertex.links differ: real {vs} model {mvs}")
        if ls != mls:
            fail(f"{where}: link.vertices differ: real {ls} model {mls}")
        check(self.m.invariant_ok(), f"{where}: model broke the invariant?!")
        self.real_invariant(where)
        tr("  state", vs, ls)

    # -- running one call on the real side ---------------------------------------
    @staticmethod
    def call(fn):
        try:
            return ("ok", fn())
        except Boom:
            raise
        except Exception as exc:  # pylint: disable=broad-except
            return ("exc", type(exc))

    def expect(self, where, got, want):
        if got[0] != want[0]:
            fail(f"{where}: outcome {got} but oracle says {want}")
            return False
        if got[0] == "exc" and got[1] is not want[1]:
            fail(f"{where}: raised {got[1]} but oracle says {want[1]}")
            return False
        return True


###############################################################################
# the operations (each: perform on real objects, on the model, compare)


def op_new_vertex(w: World, rng: Rng, step):
    n = rng.below(4) if w.links else 0
    labs = [rng.below(len(w.links)) for _ in range(n)]
    mode = rng.below(4)  # None / list / generator / tuple
    real_links = [w.l(x) for x in labs]
    if mode == 0 and not labs:
        arg = None
    elif mode == 2:
        arg = (x for x in real_links)
    elif mode == 3:
        arg = tuple(real_links)
    else:
        arg = real_links
    tag = f"v{len(w.verts)}"
    v = w.vcls()(links=arg, uid=w.next_uid(), attributes={"tag": tag})
    lab = w.register_vertex(v)
    for x in labs:
        w.m.vertex_add_to_link(lab, x)
    tr(step, "new_vertex", lab, labs, mode)


def _pick_vertex_or_none(w: World, rng: Rng, none_num=1, none_den=6):
    if not w.verts or rng.chance(none_num, none_den):
        return None
    return rng.below(len(w.verts))


def op_new_edge(w: World, rng: Rng, step):
    kind = rng.pick("DU")
    a = _pick_vertex_or_none(w, rng)
    b = a if (a is not None and rng.chance(1, 5)) else _pick_vertex_or_none(w, rng)
    tag = f"l{len(w.links)}"
    cls = w.lcls(kind)
    how = rng.below(3)
    if how == 0 and a is None and b is None:
        e = cls(uid=w.next_uid(), attributes={"tag": tag})
    elif how == 1:
        e = cls(v1=w.v(a), v2=w.v(b), uid=w.next_uid(), attributes={"tag": tag})
    else:
        e = cls(w.v(a), w.v(b), uid=w.next_uid(), attributes={"tag": tag})
    lab = w.register_link(e, kind)
    w.m.link_add_vertex(lab, a)
    w.m.link_add_vertex(lab, b)
    tr(step, "new_edge", kind, lab, a, b, how)


def op_new_hyper(w: World, rng: Rng, step):
    if not w.hypers:
        return
    n = rng.below(5)
    labs = [_pick_vertex_or_none(w, rng, 1, 5) for _ in range(n)]
    if labs and rng.chance(1, 3):
        labs.append(labs[0])  # name one vertex several times
    mode = rng.below(3)
    real = [w.v(x) for x in labs]
    if mode == 0 and not labs:
        arg = None
    elif mode == 1:
        arg = (x for x in real)
    else:
        arg = real
    tag = f"l{len(w.links)}"
    h = w.lcls("H")(vertices=arg, uid=w.next_uid(), attributes={"tag": tag})
    lab = w.register_link(h, "H")
    for x in labs:
        w.m.link_add_vertex(lab, x)
    tr(step, "new_hyper", lab, labs, mode)


def op_builder_link(w: World, rng: Rng, step):
    if not w.verts:
        return
    a = rng.below(len(w.verts))
    b = a if rng.chance(1, 6) else _pick_vertex_or_none(w, rng, 1, 10)
    dontdup = rng.chance(1, 2)
    which = rng.below(3)
    kind = "D" if which == 0 else ("U" if which == 1 else rng.pick("DU"))
    # attributes cannot be passed through the builder; tag afterwards
    if which == 0 and not w.spy:
        fn = lambda: explicit.link_directed(w.v(a), w.v(b), dontdup=dontdup)
    elif which == 1 and not w.spy:
        fn = lambda: explicit.link_undirected(w.v(a), w.v(b), dontdup)
    else:
        fn = lambda: explicit.link_from_to(
            w.v(a), w.lcls(kind), w.v(b), dontdup=dontdup
        )
    # (spies created here have no tag yet while their constructor runs)
    got = w.call(fn)
    where = f"{step} builder_link a={a} b={b} dontdup={dontdup} kind={kind}"
    want = w.m.find_existing(a, b) if dontdup else ("ok", None)
    if not w.expect(where, got, want):
        return
    if got[0] == "exc":
        tr(where, "raised", got[1].__name__)
        return
    if want[1] is not None:
        check(got[1] is w.l(want[1]), f"{where}: dontdup returned another link")
        tr(where, "existing", want[1])
        return
    e = got[1]
    check(id(e) not in w.llabel, f"{where}: returned an old link, new expected")
    check(type(e) is w.lcls(kind), f"{where}: wrong class {type(e)}")
    lab = w.register_link(e, kind)
    e.tag = f"l{lab}"
    w.m.link_add_vertex(lab, a)
    w.m.link_add_vertex(lab, b)
    tr(where, "created", lab)


def _two_ended(w: World):
    return [i for i in range(len(w.links)) if w.m.kind[i] != "H"]


def op_set_end(w: World, rng: Rng, step):
    cands = _two_ended(w)
    if not cands:
        return
    l = rng.pick(cands)
    idx = rng.below(2)
    r = rng.below(10)
    if r == 0:
        new = None
    elif r == 1 and w.m.lv[l]:
        new = rng.pick(w.m.lv[l])  # one of its own current ends
    else:
        new = _pick_vertex_or_none(w, rng, 0, 1)
    e = w.l(l)

    def fn():
        if idx == 0:
            e.v1 = w.v(new)
        else:
            e.v2 = w.v(new)

    got = w.call(fn)
    want = w.m.set_end(l, idx, new)
    where = f"{step} set_v{idx + 1} l={l} new={new}"
    w.expect(where, got, want)
    tr(where, got[0], got[1].__name__ if got[0] == "exc" else "")


def op_vertex_add_to_link(w: World, rng: Rng, step):
    if not w.verts or not w.links:
        return
    v = rng.below(len(w.verts))
    l = rng.below(len(w.links))
    got = w.call(lambda: w.v(v).add_to_link(w.l(l)))
    w.m.vertex_add_to_link(v, l)
    where = f"{step} add_to_link v={v} l={l}"
    w.expect(where, got, ("ok", None))
    check(got[1] is None, f"{where}: returned {got[1]}")
    tr(where)


def op_vertex_remove_from_link(w: World, rng: Rng, step):
    if not w.verts or not w.links:
        return
    v = rng.below(len(w.verts))
    if w.m.vl[v] and rng.chance(3, 4):
        l = rng.pick(w.m.vl[v])
    else:
        l = rng.below(len(w.links))
    got = w.call(lambda: w.v(v).remove_from_link(w.l(l)))
    w.m.vertex_remove_from_link(v, l)
    where = f"{step} remove_from_link v={v} l={l}"
    w.expect(where, got, ("ok", None))
    check(got[1] is None, f"{where}: returned {got[1]}")
    tr(where)


def op_link_add_vertex(w: World, rng: Rng, step):
    if not w.links:
        return
    l = rng.below(len(w.links))
    short = [i for i in _two_ended(w) if len(w.m.lv[i]) < 2]
    if short and rng.chance(3, 4):
        l = rng.pick(short)  # repair an edge that has lost an end
    v = _pick_vertex_or_none(w, rng, 1, 8)
    got = w.call(lambda: w.l(l).add_vertex(w.v(v)))
    w.m.link_add_vertex(l, v)
    where = f"{step} add_vertex l={l} v={v}"
    w.expect(where, got, ("ok", None))
    check(got[1] is None, f"{where}: returned {got[1]}")
    tr(where)


def op_link_unlink_from(w: World, rng: Rng, step):
    if not w.links:
        return
    l = rng.below(len(w.links))
    if w.m.lv[l] and rng.chance(3, 4):
        v = rng.pick(w.m.lv[l])
    else:
        v = _pick_vertex_or_none(w, rng, 1, 8)
    got = w.call(lambda: w.l(l).unlink_from(w.v(v)))
    w.m.link_unlink_from(l, v)
    where = f"{step} unlink_from l={l} v={v}"
    w.expect(where, got, ("ok", None))
    check(got[1] is None, f"{where}: returned {got[1]}")
    tr(where)


def op_builder_unlink(w: World, rng: Rng, step):
    if not w.verts:
        return
    a = rng.below(len(w.verts))
    r = rng.below(10)
    if r == 0:
        b = a
    elif r == 1:
        b = None
    elif w.m.vl[a] and r < 8:
        # somebody a is actually linked with
        ends = [x for x in w.m.lv[rng.pick(w.m.vl[a])] if x is not None]
        b = rng.pick(ends)
    else:
        b = rng.below(len(w.verts))
    mode = rng.below(3)
    if mode == 0:
        destroy = True
        fn = lambda: explicit.unlink(w.v(a), w.v(b))
    elif mode == 1:
        destroy = True
        fn = lambda: explicit.unlink(w.v(a), w.v(b), destroy=True)
    else:
        destroy = False
        fn = lambda: explicit.unlink(w.v(a), w.v(b), destroy=False)
    got = w.call(fn)
    want = w.m.unlink(a, b)
    where = f"{step} unlink a={a} b={b} mode={mode}"
    if not w.expect(where, got, want):
        return
    if got[0] == "exc":
        tr(where, "raised", got[1].__name__)
        return
    if destroy:
        check(got[1] is None, f"{where}: destroy=True returned {got[1]}")
    else:
        check(type(got[1]) is set, f"{where}: destroy=False returned {got[1]}")
        labs = sorted(w.llab(x) for x in got[1])
        check(labs == want[1], f"{where}: returned {labs}, oracle {want[1]}")
    tr(where, "removed", want[1])


def op_read_ends(w: World, rng: Rng, step):
    cands = _two_ended(w)
    if not cands:
        return
    l = rng.pick(cands)
    e = w.l(l)
    for idx, getter in ((0, lambda: e.v1), (1, lambda: e.v2)):
        got = w.call(getter)
        want = w.m.end(l, idx)
        where = f"{step} read v{idx + 1} l={l}"
        if w.expect(where, got, want) and got[0] == "ok":
            check(got[1] is w.v(want[1]), f"{where}: wrong vertex")
    end = _pick_vertex_or_none(w, rng, 1, 8)
    if w.m.lv[l] and rng.chance(2, 3):
        end = rng.pick(w.m.lv[l])
    got = w.call(lambda: e.other(w.v(end)))
    want = w.m.other(l, end)
    where = f"{step} other l={l} end={end}"
    if w.expect(where, got, want) and got[0] == "ok":
        check(got[1] is w.v(want[1]), f"{where}: wrong vertex")
    tr(where, want[0], want[1] if want[0] == "ok" else want[1].__name__)


def op_neighbors(w: World, rng: Rng, step):
    if not w.verts:
        return
    v = rng.below(len(w.verts))
    for _ in range(1 + rng.below(2)):  # second round may be served from cache
        got = w.call(lambda: helpers.neighbors(w.v(v), helpers.DIR_SENS_ANY))
        want = w.m.neighbors_any(v)
        where = f"{step} neighbors v={v}"
        if w.expect(where, got, want) and got[0] == "ok":
            labs = [w.vlab(x) for x in got[1]]
            check(labs == want[1], f"{where}: got {labs}, oracle {want[1]}")
        tr(where, want[0], want[1] if want[0] == "ok" else want[1].__name__)


def op_toggle_caching(w: World, rng: Rng, step):
    Vertex.NEIGHBOR_CACHING = not Vertex.NEIGHBOR_CACHING
    tr(step, "caching ->", Vertex.NEIGHBOR_CACHING)


OPS = [
    (op_new_vertex, 6),
    (op_new_edge, 8),
    (op_new_hyper, 3),
    (op_builder_link, 8),
    (op_set_end, 14),
    (op_vertex_add_to_link, 7),
    (op_vertex_remove_from_link, 5),
    (op_link_add_vertex, 7),
    (op_link_unlink_from, 5),
    (op_builder_unlink, 8),
    (op_read_ends, 5),
    (op_neighbors, 8),
]
OPS_TOTAL = sum(wt for _, wt in OPS)


def pick_op(rng: Rng):
    r = rng.below(OPS_TOTAL)
    for fn, wt in OPS:
        if r < wt:
            return fn
        r -= wt
    raise AssertionError


def pickle_round_trip(w: World, where: str) -> World:
    """Pickle the whole world, load it, check that it is the same graph, and
    hand back a world made of the loaded objects (model copied)."""
    was = Spy.on
    Spy.on = False
    try:
        blob = pickle.dumps((w.verts, w.links))
        verts, links = pickle.loads(blob)
    finally:
        Spy.on = was
    w2 = World(w.spy)
    w2.uid = w.uid
    w2.hypers = w.hypers
    w2.m = w.m.copy()
    w2.verts = verts
    w2.links = links
    w2.vlabel = {id(v): i for i, v in enumerate(verts)}
    w2.llabel = {id(l): i for i, l in enumerate(links)}
    for old, new in zip(w.verts, verts):
        check(new is not old, f"{where}: pickle handed back the same vertex")
        check(type(new) is type(old), f"{where}: vertex class changed")
        check(new.uid == old.uid and new.tag == old.tag, f"{where}: vertex id")
    for old, new in zip(w.links, links):
        check(type(new) is type(old), f"{where}: link class changed")
        check(new.uid == old.uid and new.tag == old.tag, f"{where}: link id")
    w2.compare(where)
    tr(where, "pickled")
    return w2


def random_history(seed: int, steps: int, caching: bool, spy: bool, toggle: bool):
    Vertex.NEIGHBOR_CACHING = caching
    rng = Rng(seed)
    w = World(spy)
    w.hypers = seed % 3 == 0  # two histories out of three stay two-ended
    Spy.log = []
    Spy.countdown = -1
    Spy.serial = 0
    Spy.on = spy
    tr("== history", seed, steps, caching, spy, toggle)
    try:
        for i in range(steps):
            if toggle and rng.chance(1, 12):
                op_toggle_caching(w, rng, i)
            fn = pick_op(rng)
            mark = len(Spy.log)
            fn(w, rng, i)
            if spy:
                tr("  calls", ",".join(Spy.log[mark:]))
            w.compare(f"seed {seed} step {i} {fn.__name__}")
            if Vertex.NEIGHBOR_CACHING or toggle:
                tr("  stats", Vertex.total_cache_stats().replace("\n", " | "))
            if i == steps // 2:
                w = pickle_round_trip(w, f"seed {seed} step {i} pickle")
            if FAILS:
                return
    finally:
        Spy.on = False
    tr("  sizes", len(w.verts), len(w.links))


###############################################################################
# scripted corner cases


def L(*objs):
    """tuple of objects, for identity comparison"""
    return tuple(objs)


def same(seq, want) -> bool:
    seq = tuple(seq)
    return len(seq) == len(want) and all(a is b for a, b in zip(seq, want))


def scripted(caching: bool) -> None:
    Vertex.NEIGHBOR_CACHING = caching
    c = f"[caching={caching}]"

    # --- plain edge -----------------------------------------------------------
    a, b, cc, d = Vertex(), Vertex(), Vertex(), Vertex()
    e = DirectedEdge(a, b)
    check(same(e.vertices, L(a, b)), f"{c} edge vertices")
    check(same(a.links, L(e)) and same(b.links, L(e)), f"{c} edge listed")
    check(e.v1 is a and e.v2 is b, f"{c} v1/v2")
    check(e.other(a) is b and e.other(b) is a and e.other(cc) is None, f"{c} other")
    check(isinstance(a.links, tuple) and isinstance(e.vertices, tuple), f"{c} tuples")

    # re-assign the same end, then move it, then blank it
    e.v1 = a
    check(same(e.vertices, L(a, b)) and same(a.links, L(e)), f"{c} v1 = v1")
    e.v1 = cc
    check(same(e.vertices, L(cc, b)), f"{c} v1 moved")
    check(a.links == () and same(cc.links, L(e)), f"{c} v1 moved, vertices")
    e.v2 = None
    check(same(e.vertices, L(cc, None)) and b.links == (), f"{c} v2 = None")
    check(e.v2 is None and e.other(cc) is None, f"{c} half edge reads")
    e.v2 = cc  # becomes a self-loop
    check(same(e.vertices, L(cc, cc)) and same(cc.links, L(e)), f"{c} to loop")
    e.v1 = d  # cc still listed at v2: must stay attached
    check(same(e.vertices, L(d, cc)), f"{c} loop opened")
    check(same(cc.links, L(e)) and same(d.links, L(e)), f"{c} loop opened, vs")
    e.v2 = d
    check(same(e.vertices, L(d, d)) and cc.links == (), f"{c} loop moved")
    check(same(d.links, L(e)), f"{c} loop moved, listed once")

    # --- self-loop from the constructor, dropped as a whole ----------------------
    s = Vertex()
    loop = UnDirectedEdge(s, s)
    check(same(loop.vertices, L(s, s)) and same(s.links, L(loop)), f"{c} loop")
    check(loop.other(s) is s, f"{c} loop other")
    loop.unlink_from(s)
    check(loop.vertices == () and s.links == (), f"{c} loop unlinked")
    for setter in ("v1", "v2"):
        try:
            setattr(loop, setter, s)
            fail(f"{c} assignment on an edge without ends did not raise")
        except IndexError:
            pass
        check(loop.vertices == () and s.links == (), f"{c} state after raise")
    loop2 = UnDirectedEdge(s, s)
    s.remove_from_link(loop2)
    check(loop2.vertices == () and s.links == (), f"{c} loop removed by vertex")

    # --- an edge that has lost one end -------------------------------------------
    p, q, r = Vertex(), Vertex(), Vertex()
    lost = DirectedEdge(p, q)
    lost.unlink_from(p)
    check(same(lost.vertices, L(q)) and p.links == (), f"{c} lost an end")
    check(same(q.links, L(lost)), f"{c} lost an end, other side")
    for setter in ("v1", "v2"):
        try:
            setattr(lost, setter, r)
            fail(f"{c} assignment on an edge that lost an end did not raise")
        except IndexError:
            pass
        check(same(lost.vertices, L(q)), f"{c} lost: link after raise")
        check(same(q.links, L(lost)), f"{c} lost: q after raise")
        check(r.links == () and p.links == (), f"{c} lost: r/p after raise")
    check(lost.v1 is q, f"{c} lost: v1 now reads the survivor")
    try:
        lost.v2  # pylint: disable=pointless-statement
        fail(f"{c} lost: v2 readable")
    except IndexError:
        pass
    lost.add_vertex(r)  # repaired
    check(same(lost.vertices, L(q, r)) and same(r.links, L(lost)), f"{c} repaired")
    lost.v1 = p
    check(same(lost.vertices, L(p, r)) and q.links == (), f"{c} repaired, set")
    check(same(p.links, L(lost)), f"{c} repaired, set, p")

    # --- half-assigned edges -------------------------------------------------------
    h0 = UnDirectedEdge()
    check(h0.vertices == (None, None), f"{c} empty edge")
    h0.v2 = p
    check(same(h0.vertices, L(None, p)), f"{c} half edge")
    check(same(p.links, L(lost, h0)), f"{c} half edge listed last")
    h0.unlink_from(None)
    check(same(h0.vertices, L(p)), f"{c} placeholder dropped")
    h0.unlink_from(None)
    check(same(h0.vertices, L(p)), f"{c} no placeholder: no-op")
    h1 = DirectedEdge(None, None)
    h1.unlink_from(None)
    check(h1.vertices == (None,), f"{c} one placeholder at a time")
    h2 = DirectedEdge(v2=q)
    check(same(h2.vertices, L(None, q)) and same(q.links, L(h2)), f"{c} v2 only")
    h2.v1 = q
    check(same(h2.vertices, L(q, q)) and same(q.links, L(h2)), f"{c} filled")

    # --- parallel edges, both directions -------------------------------------------
    x, y, z = Vertex(), Vertex(), Vertex()
    e1 = explicit.link_directed(x, y)
    e2 = explicit.link_directed(x, y)
    e3 = explicit.link_directed(y, x)
    e4 = explicit.link_undirected(x, y)
    e5 = explicit.link_undirected(x, z)
    check(e1 is not e2, f"{c} parallel edges are distinct")
    check(type(e1) is DirectedEdge and type(e4) is UnDirectedEdge, f"{c} classes")
    check(same(x.links, L(e1, e2, e3, e4, e5)), f"{c} parallel, x")
    check(same(y.links, L(e1, e2, e3, e4)), f"{c} parallel, y")
    check(explicit.link_directed(x, y, dontdup=True) is e1, f"{c} dontdup first")
    check(explicit.link_undirected(y, x, dontdup=True) is e1, f"{c} dontdup rev")
    check(explicit.link_from_to(x, DirectedEdge, z, True) is e5, f"{c} dontdup any")
    n = explicit.link_from_to(z, UnDirectedEdge, y, dontdup=True)
    check(type(n) is UnDirectedEdge and same(n.vertices, L(z, y)), f"{c} dontdup new")
    check(same(z.links, L(e5, n)) and same(y.links, L(e1, e2, e3, e4, n)), f"{c} new")
    out = explicit.unlink(x, y, destroy=False)
    check(type(out) is set and out == {e1, e2, e3, e4}, f"{c} unlink returns set")
    check(same(x.links, L(e5)) and same(y.links, L(n)), f"{c} unlink, rest stays")
    for dead in (e1, e2, e3, e4):
        check(dead.vertices == (), f"{c} unlinked edge keeps no end")
    check(explicit.unlink(x, y, destroy=False) == set(), f"{c} unlink nothing")
    check(explicit.unlink(x, y) is None, f"{c} unlink nothing, destroy")
    check(explicit.unlink(x, z) is None, f"{c} unlink destroy returns None")
    check(x.links == () and same(z.links, L(n)), f"{c} unlink destroy, state")
    check(e5.vertices == (), f"{c} unlink destroy, edge")
    check(explicit.unlink(y, z, True) is None, f"{c} unlink positional destroy")
    check(y.links == () and z.links == (), f"{c} all gone")

    # self-loops through the builder
    sl = explicit.link_directed(x, x)
    check(explicit.link_undirected(x, x, dontdup=True) is sl, f"{c} dontdup loop")
    check(same(x.links, L(sl)), f"{c} loop listed once")
    got = explicit.unlink(x, x, destroy=False)
    check(got == {sl} and x.links == () and sl.vertices == (), f"{c} unlink loop")

    # --- links naming one vertex several times ----------------------------------------
    m1, m2 = Vertex(), Vertex()
    hy = Hyper(vertices=[m1, m2, m1, None, m1])
    check(same(hy.vertices, L(m1, m2, m1, None, m1)), f"{c} hyper vertices")
    check(same(m1.links, L(hy)) and same(m2.links, L(hy)), f"{c} hyper once")
    m1.add_to_link(hy)
    check(same(hy.vertices, L(m1, m2, m1, None, m1)), f"{c} add_to_link again")
    check(same(m1.links, L(hy)), f"{c} add_to_link again, vertex")
    hy.add_vertex(m2)
    check(same(hy.vertices, L(m1, m2, m1, None, m1, m2)), f"{c} add_vertex again")
    check(same(m2.links, L(hy)), f"{c} add_vertex again, vertex")
    hy.unlink_from(m1)
    check(same(hy.vertices, L(m2, None, m2)) and m1.links == (), f"{c} all of m1")
    m2.remove_from_link(hy)
    check(hy.vertices == (None,) and m2.links == (), f"{c} all of m2")
    hy.unlink_from(m1)
    m1.remove_from_link(hy)
    check(hy.vertices == (None,) and m1.links == (), f"{c} no-ops")
    try:
        Link()
        fail(f"{c} Link() did not raise")
    except TypeError:
        pass
    check(Hyper().vertices == () and Hyper(vertices=[]).vertices == (), f"{c} empty")
    check(Hyper(vertices=iter(())).vertices == (), f"{c} empty iterator")

    # three ends on a two-ended edge
    t1, t2, t3 = Vertex(), Vertex(), Vertex()
    te = DirectedEdge(t1, t2)
    te.add_vertex(t3)
    t3.add_to_link(te)
    check(same(te.vertices, L(t1, t2, t3)) and same(t3.links, L(te)), f"{c} 3 ends")
    te.v1 = t3
    check(same(te.vertices, L(t3, t2, t3)) and t1.links == (), f"{c} 3 ends, set")
    te.v1 = t1  # t3 still sits at position 2
    check(same(te.vertices, L(t1, t2, t3)), f"{c} 3 ends, set back")
    check(same(t3.links, L(te)) and same(t1.links, L(te)), f"{c} 3 ends, kept")

    # --- vertices created with links ---------------------------------------------------
    k1 = DirectedEdge()
    k2 = UnDirectedEdge()
    vv = Vertex(links=[k1, k2, k1])
    check(same(vv.links, L(k1, k2)), f"{c} links= dedups the same link")
    check(same(k1.vertices, L(None, None, vv)), f"{c} links= appends to the link")
    vg = Vertex(links=(lnk for lnk in (k2, k2)))
    check(same(vg.links, L(k2)), f"{c} links= from a generator")
    check(same(k2.vertices, L(None, None, vv, vg)), f"{c} generator, link side")
    check(Vertex(links=[]).links == () and Vertex(links=None).links == (), f"{c} none")
    # a link that already lists the vertex is not extended
    w1 = Vertex()
    k3 = DirectedEdge(w1, None)
    w1.remove_from_link(k3)
    check(k3.vertices == (None,) and w1.links == (), f"{c} removed by vertex")
    w1.add_to_link(k3)
    check(same(k3.vertices, L(None, w1)) and same(w1.links, L(k3)), f"{c} back")

    # --- wrong types leave nothing behind -------------------------------------------------
    for bad in (lambda: DirectedEdge(5, a), lambda: UnDirectedEdge(a, "x")):
        before = a.links
        try:
            bad()
            fail(f"{c} non-vertex end accepted")
        except TypeError:
            pass
        check(same(a.links, before), f"{c} failed constructor left a trace")
    try:
        TwoEndedLink(object(), None)
        fail(f"{c} non-vertex end accepted by TwoEndedLink")
    except TypeError:
        pass
    te2 = TwoEndedLink(a, None)
    check(same(te2.vertices, L(a, None)), f"{c} TwoEndedLink usable")
    explicit.unlink(a, None)
    check(te2.vertices == () and a.links == (), f"{c} unlink of a half edge")

    # --- universes are vertices too ----------------------------------------------------------
    u = Universe()
    uv = Vertex(universes=[u])
    ue = DirectedEdge(u, uv)
    check(same(u.links, L(ue)) and same(uv.links, L(ue)), f"{c} universe as end")
    check(uv in u.vertices and u in uv.universes, f"{c} universe membership")
    ue.v1 = uv
    check(u.links == () and same(uv.links, L(ue)), f"{c} universe detached")

    # --- stale answers never survive, whatever the caching switch did --------------------------
    n1, n2, n3 = Vertex(), Vertex(), Vertex()
    ne = explicit.link_directed(n1, n2)
    Vertex.NEIGHBOR_CACHING = True
    check(same(helpers.neighbors(n1), L(n2)), f"{c} neighbors 1")
    check(same(helpers.neighbors(n1), L(n2)), f"{c} neighbors 1 (cached)")
    Vertex.NEIGHBOR_CACHING = False
    ne.v2 = n3  # n1's neighbor changes while caching is off
    Vertex.NEIGHBOR_CACHING = True
    check(same(helpers.neighbors(n1), L(n3)), f"{c} stale answer after v2 =")
    helpers.neighbors(n3, helpers.DIR_SENS_BACKWARD)
    ne.v1 = n2
    check(helpers.neighbors(n1) == [], f"{c} stale answer after v1 =")
    check(
        same(helpers.neighbors(n3, helpers.DIR_SENS_BACKWARD), L(n2)),
        f"{c} stale answer at the other end",
    )
    helpers.neighbors(n2)
    ne.unlink_from(n3)
    try:
        helpers.neighbors(n2)
        fail(f"{c} neighbors over an edge that lost an end did not raise")
    except IndexError:
        pass
    ne.add_vertex(n1)
    check(same(helpers.neighbors(n2), L(n1)), f"{c} neighbors after repair")
    helpers.neighbors(n1, helpers.DIR_SENS_ANY)
    explicit.unlink(n2, n1)
    check(helpers.neighbors(n1, helpers.DIR_SENS_ANY) == [], f"{c} after unlink")
    check(helpers.neighbors(n2) == [], f"{c} after unlink, other end")
    Vertex.NEIGHBOR_CACHING = caching

    # --- pickling -----------------------------------------------------------------------------
    g1, g2, g3 = Vertex(uid=11), Vertex(uid=12), Vertex(uid=13)
    ga = DirectedEdge(g1, g2, uid=21)
    gb = UnDirectedEdge(g2, g2, uid=22)
    gc = DirectedEdge(g3, None, uid=23)
    gc.unlink_from(None)
    for dumps in (pickle.dumps, nrpickler.dumps):
        r1, r2, r3 = pickle.loads(dumps([g1, g2, g3]))
        ra = r1.links[0]
        rb = r2.links[1]
        rc = r3.links[0]
        check((ra.uid, rb.uid, rc.uid) == (21, 22, 23), f"{c} pickle uids")
        check(same(ra.vertices, L(r1, r2)), f"{c} pickle edge")
        check(same(rb.vertices, L(r2, r2)), f"{c} pickle loop")
        check(same(rc.vertices, L(r3)), f"{c} pickle lost end")
        check(same(r2.links, L(ra, rb)), f"{c} pickle vertex")
        # and the copies keep working
        ra.v2 = r3
        check(same(r3.links, L(rc, ra)) and same(r2.links, L(rb)), f"{c} unpickled set")
        explicit.unlink(r2, r2)
        check(r2.links == () and rb.vertices == (), f"{c} unpickled unlink")
        try:
            rc.v1 = r1
            fail(f"{c} unpickled lost-end edge accepted an assignment")
        except IndexError:
            pass
        check(same(rc.vertices, L(r3)) and same(r1.links, L(ra)), f"{c} unpickled raise")
    check(same(g2.links, L(ga, gb)), f"{c} originals untouched by pickling")


###############################################################################
# user methods that raise at any point


def fault_scenarios():
    """Each scenario builds a small world of spies, then runs one public call
    with Boom armed for the k-th spied event, for every k until the call gets
    through.  States left behind go into the trace (and the invariant between
    objects that were *not* hit is not our business here: the point is that
    unchanged and rewritten code leave the very same state)."""

    def build():
        Spy.serial = 0
        w = World(spy=True)
        for i in range(5):
            w.register_vertex(SpyVertex(uid=w.next_uid(), attributes={"tag": f"v{i}"}))

        def edge(kind, a, b):
            tag = f"l{len(w.links)}"
            e = w.lcls(kind)(w.v(a), w.v(b), uid=w.next_uid(), attributes={"tag": tag})
            w.register_link(e, kind)
            return e

        edge("D", 0, 1)
        edge("U", 1, 0)
        edge("D", 2, 2)
        edge("U", 0, None)
        edge("D", 0, 1)
        h = SpyHyper(
            vertices=[w.v(3), w.v(4), w.v(3)],
            uid=w.next_uid(),
            attributes={"tag": "l5"},
        )
        w.register_link(h, "H")
        return w

    def new_edge(w):
        e = SpyDirected(w.v(3), w.v(2), uid=1, attributes={"tag": "l6"})
        w.register_link(e, "D")

    def new_vertex(w):
        v = SpyVertex(links=[w.l(0), w.l(2), w.l(0)], uid=2, attributes={"tag": "v5"})
        w.register_vertex(v)

    scenarios = [
        ("set v1 other", lambda w: setattr(w.l(0), "v1", w.v(3))),
        ("set v2 same", lambda w: setattr(w.l(0), "v2", w.v(1))),
        ("set v1 loop", lambda w: setattr(w.l(2), "v1", w.v(0))),
        ("set v2 none", lambda w: setattr(w.l(1), "v2", None)),
        ("set v1 fill", lambda w: setattr(w.l(3), "v2", w.v(3))),
        ("add_to_link", lambda w: w.v(3).add_to_link(w.l(0))),
        ("add_to_link again", lambda w: w.v(0).add_to_link(w.l(0))),
        ("remove_from_link", lambda w: w.v(3).remove_from_link(w.l(5))),
        ("remove_from_link loop", lambda w: w.v(2).remove_from_link(w.l(2))),
        ("remove_from_link none", lambda w: w.v(3).remove_from_link(w.l(0))),
        ("add_vertex", lambda w: w.l(5).add_vertex(w.v(0))),
        ("add_vertex none", lambda w: w.l(5).add_vertex(None)),
        ("add_vertex again", lambda w: w.l(0).add_vertex(w.v(0))),
        ("unlink_from", lambda w: w.l(2).unlink_from(w.v(2))),
        ("unlink_from hyper", lambda w: w.l(5).unlink_from(w.v(3))),
        ("unlink hyper", lambda w: explicit.unlink(w.v(3), w.v(4))),
        ("unlink_from none", lambda w: w.l(3).unlink_from(None)),
        ("unlink_from absent", lambda w: w.l(0).unlink_from(w.v(3))),
        ("unlink", lambda w: explicit.unlink(w.v(0), w.v(1))),
        ("unlink keep", lambda w: explicit.unlink(w.v(1), w.v(0), destroy=False)),
        ("unlink loop", lambda w: explicit.unlink(w.v(2), w.v(2))),
        ("link dontdup", lambda w: explicit.link_from_to(w.v(1), SpyDirected, w.v(0), True)),
        ("new edge", new_edge),
        ("new vertex", new_vertex),
    ]

    for name, action in scenarios:
        k = 0
        while True:
            w = build()
            Spy.log = []
            Spy.countdown = k
            Spy.on = True
            try:
                action(w)
                outcome = "through"
            except Boom as exc:
                outcome = f"Boom@{exc}"
            except AttributeError as exc:
                # hyper links have no other(): the builder stumbles over them
                outcome = "AttributeError"
            finally:
                Spy.on = False
                Spy.countdown = -1
            # the world may hold objects we never registered (half-built ones)
            vs, ls = w.observe()
            tr("fault", name, k, outcome, ",".join(Spy.log), vs, ls)
            if not outcome.startswith("Boom"):
                break
            k += 1
            if k > 200:
                fail(f"fault scenario {name} never got through")
                break


###############################################################################
# objects that compare equal without being identical


EQLOG: list[str] = []


def _tag(obj):
    return getattr(obj, "tag", "untagged") if obj is not None else None


def _key(obj):
    return getattr(obj, "key", None)


class KeyVertex(Vertex):
    """Vertices comparing by ``key``; every comparison is logged."""

    def __eq__(self, rhs):
        EQLOG.append(f"{_tag(self)}=={_tag(rhs)}")
        return isinstance(rhs, KeyVertex) and _key(self) == _key(rhs)

    def __hash__(self):
        return hash(_key(self))


class KeyEdge(DirectedEdge):
    """Edges comparing by ``key``; every comparison is logged."""

    def __eq__(self, rhs):
        EQLOG.append(f"{_tag(self)}=={_tag(rhs)}")
        return isinstance(rhs, KeyEdge) and _key(self) == _key(rhs)

    def __hash__(self):
        return hash(_key(self))


def equal_not_identical() -> None:
    """The membership tests of the library are ``==`` tests.  Nothing is
    demanded of the outcome here except that it is *the same* outcome, reached
    through the same comparisons, before and after a rewrite (trace digest)."""
    objs: dict[str, object] = {}

    def kv(tag, key):
        objs[tag] = KeyVertex(uid=len(objs) + 1, attributes={"tag": tag, "key": key})
        return objs[tag]

    def ke(tag, key, v1, v2):
        objs[tag] = KeyEdge(v1, v2, uid=len(objs) + 1, attributes={"tag": tag, "key": key})
        return objs[tag]

    def snap(what):
        mark = len(EQLOG)
        view = []
        for tag, obj in objs.items():
            if isinstance(obj, Vertex):
                view.append((tag, tuple(_tag(x) for x in obj.links)))
            else:
                view.append(
                    (tag, tuple(_tag(x) for x in obj.vertices))
                )
        del EQLOG[mark:]
        tr("eq", what, view, ",".join(EQLOG))
        del EQLOG[:]

    def attempt(what, fn):
        try:
            res = fn()
            res = sorted(_tag(x) for x in res) if isinstance(res, set) else res
            res = _tag(res) if isinstance(res, (Vertex, Link)) else res
        except Exception as exc:  # pylint: disable=broad-except
            res = type(exc).__name__
        snap(f"{what} -> {res}")

    del EQLOG[:]
    a1, a2, b, c = kv("a1", 1), kv("a2", 1), kv("b", 2), kv("c", 3)
    e = ke("e", 10, a1, b)
    snap("e = a1->b")
    f = ke("f", 10, a2, b)
    snap("f = a2->b (f == e, a2 == a1)")
    g = ke("g", 11, a1, a2)
    snap("g = a1->a2")
    attempt("b.add_to_link(f)", lambda: b.add_to_link(f))
    attempt("a1.add_to_link(f)", lambda: a1.add_to_link(f))
    attempt("f.add_vertex(a1)", lambda: f.add_vertex(a1))
    attempt("e.v1 = a2", lambda: setattr(e, "v1", a2))
    attempt("g.v2 = a1", lambda: setattr(g, "v2", a1))
    attempt("g.v1 = c", lambda: setattr(g, "v1", c))
    attempt("f.unlink_from(a1)", lambda: f.unlink_from(a1))
    attempt("a2.remove_from_link(e)", lambda: a2.remove_from_link(e))
    attempt("link dontdup a2 b", lambda: explicit.link_from_to(a2, KeyEdge, b, True))
    attempt("unlink(a1, b, keep)", lambda: explicit.unlink(a1, b, destroy=False))
    attempt("unlink(a2, b)", lambda: explicit.unlink(a2, b))
    attempt("unlink(c, a1, keep)", lambda: explicit.unlink(c, a1, destroy=False))
    attempt("e.unlink_from(None)", lambda: e.unlink_from(None))
    attempt("e.add_vertex(None)", lambda: e.add_vertex(None))
    attempt("e.unlink_from(None) again", lambda: e.unlink_from(None))
    attempt("vertex with links", lambda: kv("d", 1).add_to_link(g) or kv("d2", 4))
    attempt("Vertex(links=[e, f, g])", lambda: objs.__setitem__(
        "n", KeyVertex(links=[e, f, g], uid=99, attributes={"tag": "n", "key": 5})))


###############################################################################


def main(argv) -> int:
    for caching in (False, True):
        scripted(caching)

    # seeded random differential part
    seed = 0
    for caching in (False, True):
        for _ in range(6):
            seed += 1
            random_history(seed, 400, caching, spy=False, toggle=False)
    for _ in range(4):
        seed += 1
        random_history(seed, 400, True, spy=False, toggle=True)
    for caching in (False, True):
        for _ in range(3):
            seed += 1
            random_history(seed, 250, caching, spy=True, toggle=False)

    for caching in (False, True):
        Vertex.NEIGHBOR_CACHING = caching
        fault_scenarios()
        equal_not_identical()
        tr("stats", Vertex.total_cache_stats().replace("\n", " | "))
    Vertex.NEIGHBOR_CACHING = False

    digest = hashlib.sha256("\n".join(TRACE).encode()).hexdigest()
    if "--dump" in argv:
        with open(argv[argv.index("--dump") + 1], "w", encoding="utf-8") as fp:
            fp.write("\n".join(TRACE) + "\n")
    print(f"trace: {len(TRACE)} lines, sha256 {digest}")
    if "--print-digest" not in argv and digest != GOLDEN:
        fail(f"trace digest {digest} differs from the recorded {GOLDEN}")

    if FAILS:
        print(f"{len(FAILS)} check(s) failed")
        return 1
    print("all checks passed")
    return 0


if __name__ == "__main__":
    sys.exit(main(sys.argv))
