#!/usr/bin/env python3
# -*- coding: utf-8 -*-
"""
equiv.py -- behavioural check for property C02

    "Universe membership is symmetric, ordered and duplicate-free after every
    history"

Run from the worktree root as

    PYTHONPATH=<worktree> /venv/bin/python equiv.py

Only the public API of edgegraph is used (plus ``vars()`` to look at the
*names* of the public instance attributes).  The program has two parts:

* a list of scripted corner cases (foreign objects, generators that raise
  part-way, exceptions that are not ``Exception`` subclasses, subclasses that
  log every public call / every ``==`` / every ``hash()``, ``__slots__``,
  user attributes that shadow methods or reuse private-looking names, shallow
  copies, self-membership, worker threads, ...);
* a seeded random differential run against an independent oracle that was
  written from the property statement: two ordered, duplicate-free relations
  that are kept symmetric, "removing a non-member raises and changes nothing".
  Every few steps the whole graph goes through pickle / copy.deepcopy and the
  run continues on the copy.

Exit status 0 means that nothing unexpected was seen.
"""

import copy
import pickle
import random
import sys
import threading
import warnings

warnings.simplefilter("error")

# pylint: disable=wrong-import-position
from edgegraph.structure import (
    BaseObject,
    Vertex,
    Universe,
    DirectedEdge,
    UnDirectedEdge,
)
from edgegraph.structure.universe import UniverseLaws
from edgegraph.traversal import helpers

FAILURES = []
CHECKS = [0]


def check(cond, msg):
    """Record a failure (and keep going) when ``cond`` does not hold."""
    CHECKS[0] += 1
    if not cond:
        FAILURES.append(msg)
        print("FAIL:", msg)


def same(got, want):
    """Element-wise *identity* comparison of two sequences."""
    return (
        type(got) is list
        and len(got) == len(want)
        and all(g is w for g, w in zip(got, want))
    )


def raises(exc_type, func, *args, **kwargs):
    """Call and return the exception instance (None if nothing was raised)."""
    try:
        func(*args, **kwargs)
    except exc_type as exc:  # pylint: disable=broad-except
        if type(exc) is not exc_type:
            return None
        return exc
    return None


def public_names(obj):
    """Names of the public instance attributes."""
    return {k for k in vars(obj) if not k.startswith("_")}


###############################################################################
# oracle


class Oracle:
    """
    Independent model: objects are numbers; ``unis[x]`` is the ordered list of
    universes of x, ``verts[u]`` the ordered list of members of u.
    """

    def __init__(self):
        self.unis = {}
        self.verts = {}

    def new_vertex(self, x, universes):
        self.unis[x] = []
        for u in universes:
            if u not in self.unis[x]:
                self.unis[x].append(u)
        # the universes learn about x in the order x lists them
        for u in self.unis[x]:
            self.verts[u].append(x)

    def new_universe(self, u, vertices):
        self.unis[u] = []
        self.verts[u] = []
        for x in vertices:
            self.join(u, x)

    def join(self, u, x):
        """Either direction of "add": both sides, if missing."""
        if x not in self.verts[u]:
            self.verts[u].append(x)
        if u not in self.unis[x]:
            self.unis[x].append(u)

    def is_member(self, u, x):
        return x in self.verts[u]

    def leave(self, u, x):
        """Either direction of "remove" of a member."""
        self.verts[u].remove(x)
        self.unis[x].remove(u)

    def invariant(self):
        for u, members in self.verts.items():
            assert len(set(members)) == len(members)
            for x in members:
                assert u in self.unis[x]
        for x, universes in self.unis.items():
            assert len(set(universes)) == len(universes)
            for u in universes:
                assert x in self.verts[u]


###############################################################################
# classes used by the tests (module level, so that they can be pickled)


class SlotVertex(Vertex):
    """A subclass that adds ``__slots__``."""

    __slots__ = ("extra",)


class SlotUniverse(Universe):
    """A universe subclass that adds ``__slots__``."""

    __slots__ = ("extra", "more")


class Boom(BaseException):
    """Not an ``Exception`` subclass."""


LOG = []


def tag(obj):
    """Short stable name of a test object."""
    try:
        return obj.nm
    except AttributeError:
        return repr(type(obj).__name__)


class LogVertex(Vertex):
    """Logs every public call that the membership mechanism can make."""

    @property
    def universes(self):
        LOG.append(("universes", tag(self)))
        return super().universes

    def add_to_universe(self, universe):
        LOG.append(("add_to_universe", tag(self), tag(universe)))
        return super().add_to_universe(universe)

    def remove_from_universe(self, universe):
        LOG.append(("remove_from_universe", tag(self), tag(universe)))
        return super().remove_from_universe(universe)


class LogUniverse(Universe):
    """Logs every public call that the membership mechanism can make."""

    @property
    def universes(self):
        LOG.append(("universes", tag(self)))
        return super().universes

    @property
    def vertices(self):
        LOG.append(("vertices", tag(self)))
        return super().vertices

    def add_to_universe(self, universe):
        LOG.append(("add_to_universe", tag(self), tag(universe)))
        return super().add_to_universe(universe)

    def remove_from_universe(self, universe):
        LOG.append(("remove_from_universe", tag(self), tag(universe)))
        return super().remove_from_universe(universe)

    def add_vertex(self, vert):
        LOG.append(("add_vertex", tag(self), tag(vert)))
        return super().add_vertex(vert)

    def remove_vertex(self, vert):
        LOG.append(("remove_vertex", tag(self), tag(vert)))
        return super().remove_vertex(vert)


class EqVertex(Vertex):
    """Identity equality, but every ``==`` is logged."""

    def __eq__(self, other):
        LOG.append(("eq", tag(self), tag(other)))
        return self is other

    __hash__ = Vertex.__hash__


class NamedUniverse(Universe):
    """Equal when the names are equal; logs ``==`` and ``hash()``."""

    def __eq__(self, other):
        LOG.append(("eq", self.nm, tag(other)))
        if isinstance(other, NamedUniverse):
            return self.nm[0] == other.nm[0]
        return NotImplemented

    def __hash__(self):
        LOG.append(("hash", self.nm))
        return hash(self.nm[0])


class UnhashableUniverse(Universe):
    """Defines ``__eq__`` only, hence cannot be hashed."""

    def __eq__(self, other):
        return self is other


class GrumpyVertex(Vertex):
    """Raises a non-``Exception`` from ``add_to_universe`` when armed."""

    armed = False

    def add_to_universe(self, universe):
        if self.armed:
            raise Boom("add_to_universe")
        return super().add_to_universe(universe)

    def remove_from_universe(self, universe):
        if self.armed:
            raise Boom("remove_from_universe")
        return super().remove_from_universe(universe)


###############################################################################
# scripted corner cases


def scripted_basics():
    u1, u2 = Universe(), Universe()
    v = Vertex()

    check(u1.add_vertex(v) is None, "add_vertex returns None")
    check(same(u1.vertices, [v]) and same(v.universes, [u1]), "add_vertex")
    check(u1.add_vertex(v) is None, "add_vertex (again) returns None")
    check(same(u1.vertices, [v]) and same(v.universes, [u1]), "re-add_vertex")
    check(v.add_to_universe(u1) is None, "add_to_universe returns None")
    check(same(u1.vertices, [v]) and same(v.universes, [u1]), "re-add (v)")
    check(v.add_to_universe(u2) is None, "add_to_universe returns None")
    check(same(u2.vertices, [v]) and same(v.universes, [u1, u2]), "add (v)")

    # fresh, independent plain lists every time
    first, second = u1.vertices, u1.vertices
    check(first is not second and type(first) is list, "vertices: fresh list")
    first.append(None)
    first.remove(v)
    check(same(u1.vertices, [v]), "vertices: a copy")
    first, second = v.universes, v.universes
    check(first is not second and type(first) is list, "universes: fresh")
    first.clear()
    check(same(v.universes, [u1, u2]), "universes: a copy")

    # removing non-members raises ValueError and changes nothing
    w = Vertex()
    check(raises(ValueError, u1.remove_vertex, w), "remove_vertex non-member")
    check(raises(ValueError, w.remove_from_universe, u1), "rfu non-member")
    check(same(u1.vertices, [v]) and same(w.universes, []), "... no change")
    check(same(v.universes, [u1, u2]) and same(u2.vertices, [v]), "... none")

    check(u1.remove_vertex(v) is None, "remove_vertex returns None")
    check(same(u1.vertices, []) and same(v.universes, [u2]), "remove_vertex")
    check(raises(ValueError, u1.remove_vertex, v), "remove_vertex twice")
    check(raises(ValueError, v.remove_from_universe, u1), "rfu after removal")
    check(same(u1.vertices, []) and same(v.universes, [u2]), "... no change")
    check(v.remove_from_universe(u2) is None, "rfu returns None")
    check(same(u2.vertices, []) and same(v.universes, []), "rfu")

    # order is insertion order; re-adding goes to the back
    vs = [Vertex() for _ in range(6)]
    for x in vs:
        u1.add_vertex(x)
    u1.remove_vertex(vs[2])
    vs[0].remove_from_universe(u1)
    vs[2].add_to_universe(u1)
    u1.add_vertex(vs[0])
    check(
        same(u1.vertices, [vs[1], vs[3], vs[4], vs[5], vs[2], vs[0]]),
        "insertion order with re-adds",
    )

    # construction with universes= : de-duplicated in first-seen order
    x = Vertex(universes=(u for u in [u2, u1, u2, u2, u1]))
    check(same(x.universes, [u2, u1]), "universes= de-duplicated")
    check(u1.vertices[-1] is x and same(u2.vertices, [x]), "universes= told")
    check(same(Vertex(universes=[]).universes, []), "universes=[]")
    check(same(Vertex(universes=None).universes, []), "universes=None")
    check(same(Vertex(universes=iter(())).universes, []), "universes=iter(())")
    y = Vertex(universes={u2: 1})
    check(same(y.universes, [u2]) and same(u2.vertices, [x, y]), "dict keys")

    # construction with vertices=
    a, b = Vertex(), Vertex()
    u3 = Universe(vertices=(t for t in [a, b, a, u1, b, u1]))
    check(same(u3.vertices, [a, b, u1]), "vertices= de-duplicated, ordered")
    check(same(a.universes, [u3]) and same(u1.universes, [u3]), "vertices=")
    check(same(Universe(vertices=[]).vertices, []), "vertices=[]")
    check(same(Universe(vertices=None).vertices, []), "vertices=None")
    check(same(Universe().universes, []), "a new universe is in no universe")

    # the exception classes for wrong arguments
    check(raises(TypeError, Vertex, universes=5), "universes=5")
    check(raises(TypeError, Universe, vertices=5), "vertices=5")
    check(raises(TypeError, Vertex, attributes=[("a", 1)]), "attributes list")


def scripted_self_membership():
    u = Universe()
    u.add_vertex(u)
    check(same(u.vertices, [u]) and same(u.universes, [u]), "u in u")
    u.add_to_universe(u)
    u.add_vertex(u)
    check(same(u.vertices, [u]) and same(u.universes, [u]), "u in u, again")
    for clone in (copy.deepcopy(u), pickle.loads(pickle.dumps(u))):
        check(
            same(clone.vertices, [clone]) and same(clone.universes, [clone]),
            "u in u, round trip",
        )
        v = Vertex(universes=[clone, clone])
        check(same(clone.vertices, [clone, v]), "u in u, round trip, grow")
        clone.remove_from_universe(clone)
        check(
            same(clone.vertices, [v]) and same(clone.universes, []),
            "u in u, round trip, leave",
        )
        check(raises(ValueError, clone.remove_vertex, clone), "u not in u")
    u.remove_vertex(u)
    check(same(u.vertices, []) and same(u.universes, []), "u left u")
    check(raises(ValueError, u.remove_vertex, u), "u not in u (1)")
    check(raises(ValueError, u.remove_from_universe, u), "u not in u (2)")
    check(same(u.vertices, []) and same(u.universes, []), "u left u, still")

    # a ring of universes, and a universe given to itself at construction
    a, b = Universe(), Universe()
    a.add_vertex(b)
    b.add_vertex(a)
    a.add_to_universe(a)
    check(same(a.vertices, [b, a]) and same(a.universes, [b, a]), "ring a")
    check(same(b.vertices, [a]) and same(b.universes, [a]), "ring b")
    c = Universe(vertices=[a, b, a])
    check(same(c.vertices, [a, b]) and same(a.universes, [b, a, c]), "ring c")


def scripted_foreign_objects():
    # things that are not vertices: the universe side is updated first, the
    # failure comes afterwards
    u = Universe()
    check(raises(AttributeError, u.add_vertex, 42), "add_vertex(42)")
    check(u.vertices == [42], "42 is listed")
    check(u.add_vertex(42) is None, "add_vertex(42) again: already there")
    check(raises(AttributeError, u.remove_vertex, 42), "remove_vertex(42)")
    check(u.vertices == [], "42 is gone")
    check(raises(ValueError, u.remove_vertex, 42), "remove_vertex(42) again")
    check(raises(AttributeError, u.add_vertex, None), "add_vertex(None)")
    check(u.vertices == [None], "None is listed")
    check(raises(AttributeError, u.remove_vertex, None), "remove_vertex(None)")
    check(u.vertices == [], "None is gone")

    v = Vertex()
    check(raises(AttributeError, v.add_to_universe, None), "atu(None)")
    check(v.universes == [None], "None universe is listed")
    check(raises(AttributeError, v.remove_from_universe, None), "rfu(None)")
    check(v.universes == [], "None universe is gone")
    check(raises(ValueError, v.remove_from_universe, None), "rfu(None) again")
    check(raises(AttributeError, Vertex, universes=[3, 3]), "universes=[3,3]")

    # BaseObject keeps its own record only; a universe fills in both
    b = BaseObject()
    u.add_vertex(b)
    check(same(u.vertices, [b]) and same(b.universes, [u]), "BaseObject in")
    u.remove_vertex(b)
    check(same(u.vertices, []) and same(b.universes, []), "BaseObject out")
    b.add_to_universe(u)
    b.add_to_universe(u)
    check(same(u.vertices, []) and same(b.universes, [u]), "one-sided")
    u.add_vertex(b)
    check(same(u.vertices, [b]) and same(b.universes, [u]), "completed")
    b.remove_from_universe(u)
    check(same(u.vertices, [b]) and same(b.universes, []), "one-sided out")
    check(raises(ValueError, b.remove_from_universe, u), "BaseObject rfu")
    u.remove_vertex(b)
    check(same(u.vertices, []) and same(b.universes, []), "completed out")
    u2 = Universe()
    b2 = BaseObject(universes=(t for t in [u, u2, u, u2]))
    check(same(b2.universes, [u, u2]), "BaseObject(universes=) de-duplicated")
    check(same(u.vertices, []) and same(u2.vertices, []), "... and silent")
    laws = UniverseLaws()
    u.add_vertex(laws)
    check(same(laws.universes, [u]) and same(u.vertices, [laws]), "laws in u")
    check(u.laws is not laws and laws.applies_to is None, "laws unrelated")

    # links are BaseObjects as well
    p, q = Vertex(), Vertex()
    e = DirectedEdge(p, q)
    u.add_vertex(e)
    check(same(e.universes, [u]) and same(u.vertices, [laws, e]), "edge in u")
    u.remove_vertex(laws)
    e.remove_from_universe(u)
    check(same(e.universes, []) and same(u.vertices, [e]), "edge one-sided")
    check(e.vertices == (p, q) and p.links == (e,), "edge itself untouched")


def scripted_exceptions_midway():
    u1, u2 = Universe(), Universe()

    def unis():
        yield u1
        yield u2
        yield u1
        raise Boom("universes")

    check(raises(Boom, Vertex, universes=unis()), "universes= raising")
    check(same(u1.vertices, []) and same(u2.vertices, []), "nobody was told")

    # ... not even the object under construction (its record does not exist
    # yet), and an object that is initialised anew keeps its old record
    shell = Vertex.__new__(Vertex)
    check(raises(Boom, shell.__init__, universes=unis()), "shell: raising")
    check(raises(AttributeError, getattr, shell, "universes"), "shell: bare")
    live = Vertex(universes=[u2])
    check(raises(Boom, live.__init__, universes=unis()), "live: raising")
    check(same(live.universes, [u2]) and same(u2.vertices, [live]), "live")
    live.__init__(universes=None)
    check(same(live.universes, []) and same(u2.vertices, [live]), "live: anew")
    u2.remove_vertex(live)
    check(same(u1.vertices, []) and same(u2.vertices, []), "live: cleaned up")

    def unis_exc():
        yield u1
        raise KeyError("universes")

    check(raises(KeyError, Vertex, universes=unis_exc()), "universes= KeyError")
    check(same(u1.vertices, []), "nobody was told (2)")

    a, b = Vertex(), Vertex()
    seen = []

    def verts():
        yield a
        seen.append((list(a.universes), list(b.universes)))
        yield b
        yield a
        seen.append((list(a.universes), list(b.universes)))
        raise Boom("vertices")

    check(raises(Boom, Universe, vertices=verts()), "vertices= raising")
    check(len(a.universes) == 1 and len(b.universes) == 1, "half-built: told")
    half = a.universes[0]
    check(type(half) is Universe and b.universes[0] is half, "half-built: one")
    check(same(half.vertices, [a, b]), "half-built universe lists both")
    # the generator ran interleaved with the registrations
    check(
        len(seen) == 2
        and same(seen[0][0], [half])
        and same(seen[0][1], [])
        and same(seen[1][0], [half])
        and same(seen[1][1], [half]),
        "vertices= is consumed lazily",
    )
    half.remove_vertex(a)
    check(same(half.vertices, [b]) and same(a.universes, []), "half: usable")

    # a member whose hooks raise something that is no Exception
    u = Universe()
    g = GrumpyVertex()
    GrumpyVertex.armed = True
    try:
        check(raises(Boom, u.add_vertex, g), "grumpy add")
        check(same(u.vertices, [g]) and same(g.universes, []), "grumpy: half")
        check(u.add_vertex(g) is None, "grumpy add again: nothing to do")
        check(same(u.vertices, [g]) and same(g.universes, []), "grumpy: half")
        check(raises(Boom, g.add_to_universe, u), "grumpy atu")
        check(raises(Boom, Universe, vertices=[g]), "grumpy vertices=")
        check(same(g.universes, []), "grumpy: still nowhere")
        # remove_vertex: gone from the list; the vertex does not list u, so
        # its hook is not even called
        check(u.remove_vertex(g) is None, "grumpy remove")
        check(same(u.vertices, []) and same(g.universes, []), "grumpy: out")
    finally:
        GrumpyVertex.armed = False
    u.add_vertex(g)
    GrumpyVertex.armed = True
    try:
        check(raises(Boom, u.remove_vertex, g), "grumpy remove (listed)")
        check(same(u.vertices, []) and same(g.universes, [u]), "grumpy: half2")
        check(raises(ValueError, u.remove_vertex, g), "grumpy remove again")
    finally:
        GrumpyVertex.armed = False
    # the vertex side heals the rest
    g.remove_from_universe(u)
    check(same(u.vertices, []) and same(g.universes, []), "grumpy: healed")

    # an unhashable universe cannot be given to universes=, everything else
    # works; the failed constructor call leaves the raw list behind
    uh = UnhashableUniverse()
    check(raises(TypeError, Vertex, universes=[uh]), "unhashable universes=")
    check(same(uh.vertices, []), "unhashable: not told")
    shell = Vertex.__new__(Vertex)
    leftovers = iter([uh, u1, uh])
    check(raises(TypeError, shell.__init__, universes=leftovers), "shell")
    check(same(shell.universes, [uh, u1, uh]), "shell keeps the raw list")
    check(list(leftovers) == [], "shell: iterator was drained")
    check(same(uh.vertices, []) and same(u1.vertices, []), "shell: not told")
    v = Vertex()
    v.add_to_universe(uh)
    uh.add_vertex(v)
    w = Vertex()
    uh.add_vertex(w)
    check(same(uh.vertices, [v, w]) and same(v.universes, [uh]), "unhashable")
    check(raises(ValueError, uh.remove_vertex, Vertex()), "unhashable: non-m.")
    v.remove_from_universe(uh)
    check(same(uh.vertices, [w]) and same(v.universes, []), "unhashable: out")
    holder = Universe(vertices=[uh, uh])
    check(same(holder.vertices, [uh]) and same(uh.universes, [holder]), "uh in")


def scripted_call_log():
    """The public calls made between the two sides, in order."""

    def lv(name, **kw):
        return LogVertex(attributes={"nm": name}, **kw)

    def lu(name, **kw):
        return LogUniverse(attributes={"nm": name}, **kw)

    del LOG[:]
    u = lu("u")
    u2 = lu("u2")
    v = lv("v")
    # each constructor reads its own ``universes`` once
    check(
        LOG == [("universes", "u"), ("universes", "u2"), ("universes", "v")],
        f"log: constructors {LOG}",
    )

    def expect(what, func, *args, want=None, **kw):
        del LOG[:]
        func(*args, **kw)
        check(LOG == want, f"log: {what}: {LOG}")

    expect(
        "u.add_vertex(v)",
        u.add_vertex,
        v,
        want=[
            ("add_vertex", "u", "v"),
            ("universes", "v"),
            ("add_to_universe", "v", "u"),
            ("vertices", "u"),
        ],
    )
    expect("u.add_vertex(v) #2", u.add_vertex, v, want=[("add_vertex", "u", "v")])
    expect(
        "v.add_to_universe(u) #2",
        v.add_to_universe,
        u,
        want=[("add_to_universe", "v", "u"), ("vertices", "u")],
    )
    expect(
        "v.add_to_universe(u2)",
        v.add_to_universe,
        u2,
        want=[
            ("add_to_universe", "v", "u2"),
            ("vertices", "u2"),
            ("add_vertex", "u2", "v"),
            ("universes", "v"),
        ],
    )
    expect(
        "v.remove_from_universe(u2)",
        v.remove_from_universe,
        u2,
        want=[
            ("remove_from_universe", "v", "u2"),
            ("vertices", "u2"),
            ("remove_vertex", "u2", "v"),
            ("universes", "v"),
        ],
    )
    expect(
        "u.remove_vertex(v)",
        u.remove_vertex,
        v,
        want=[
            ("remove_vertex", "u", "v"),
            ("universes", "v"),
            ("remove_from_universe", "v", "u"),
            ("vertices", "u"),
        ],
    )
    del LOG[:]
    check(raises(ValueError, u.remove_vertex, v), "log: non-member")
    check(LOG == [("remove_vertex", "u", "v")], f"log: non-member {LOG}")
    del LOG[:]
    check(raises(ValueError, v.remove_from_universe, u), "log: non-member 2")
    check(LOG == [("remove_from_universe", "v", "u")], f"log: non-m. 2 {LOG}")

    del LOG[:]
    x = lv("x", universes=[u, u2, u])
    check(
        LOG
        == [
            ("universes", "x"),
            ("add_vertex", "u", "x"),
            ("universes", "x"),
            ("add_vertex", "u2", "x"),
            ("universes", "x"),
        ],
        f"log: Vertex(universes=) {LOG}",
    )
    check(same(Vertex.universes.fget(x), [u, u2]), "log: x universes")

    del LOG[:]
    w = lu("w", vertices=[x, u, x, u])
    check(
        LOG
        == [
            ("universes", "w"),
            ("add_vertex", "w", "x"),
            ("universes", "x"),
            ("add_to_universe", "x", "w"),
            ("vertices", "w"),
            ("add_vertex", "w", "u"),
            ("universes", "u"),
            ("add_to_universe", "u", "w"),
            ("vertices", "w"),
            ("add_vertex", "w", "x"),
            ("add_vertex", "w", "u"),
        ],
        f"log: Universe(vertices=) {LOG}",
    )
    check(same(Universe.vertices.fget(w), [x, u]), "log: w vertices")

    # self-membership
    expect(
        "w.add_vertex(w)",
        w.add_vertex,
        w,
        want=[
            ("add_vertex", "w", "w"),
            ("universes", "w"),
            ("add_to_universe", "w", "w"),
            ("vertices", "w"),
        ],
    )
    expect(
        "w.remove_from_universe(w)",
        w.remove_from_universe,
        w,
        want=[
            ("remove_from_universe", "w", "w"),
            ("vertices", "w"),
            ("remove_vertex", "w", "w"),
            ("universes", "w"),
        ],
    )

    # a plain BaseObject is driven through the same public calls
    class LogBase(BaseObject):
        @property
        def universes(self):
            LOG.append(("universes", tag(self)))
            return super().universes

        def add_to_universe(self, universe):
            LOG.append(("add_to_universe", tag(self), tag(universe)))
            return super().add_to_universe(universe)

        def remove_from_universe(self, universe):
            LOG.append(("remove_from_universe", tag(self), tag(universe)))
            return super().remove_from_universe(universe)

    del LOG[:]
    b = LogBase(attributes={"nm": "b"}, universes=[u2])
    check(LOG == [], f"log: BaseObject() is silent {LOG}")
    expect(
        "u.add_vertex(b)",
        u.add_vertex,
        b,
        want=[
            ("add_vertex", "u", "b"),
            ("universes", "b"),
            ("add_to_universe", "b", "u"),
        ],
    )
    expect(
        "u.remove_vertex(b)",
        u.remove_vertex,
        b,
        want=[
            ("remove_vertex", "u", "b"),
            ("universes", "b"),
            ("remove_from_universe", "b", "u"),
        ],
    )
    expect(
        "u2.add_vertex(b)",
        u2.add_vertex,
        b,
        want=[("add_vertex", "u2", "b"), ("universes", "b")],
    )
    del LOG[:]


def scripted_eq_log():
    """``==`` / ``hash()`` as seen by user classes: who, with whom, how often."""

    def ev(name):
        return EqVertex(attributes={"nm": name})

    u = Universe(attributes={"nm": "u"})
    a, b, c, d = ev("a"), ev("b"), ev("c"), ev("d")
    for x in (a, b, c):
        u.add_vertex(x)
    del LOG[:]
    u.add_vertex(d)
    check(
        LOG
        == [
            ("eq", "a", "d"),
            ("eq", "b", "d"),
            ("eq", "c", "d"),
            ("eq", "a", "d"),
            ("eq", "b", "d"),
            ("eq", "c", "d"),
        ],
        f"eq log: add_vertex {LOG}",
    )
    del LOG[:]
    u.add_vertex(b)
    check(LOG == [("eq", "a", "b")], f"eq log: re-add {LOG}")
    del LOG[:]
    b.add_to_universe(u)
    check(LOG == [("eq", "a", "b")], f"eq log: re-add (v) {LOG}")
    del LOG[:]
    u.remove_vertex(b)
    check(
        LOG
        == [("eq", "a", "b"), ("eq", "a", "b"), ("eq", "c", "b"), ("eq", "d", "b")],
        f"eq log: remove_vertex {LOG}",
    )
    del LOG[:]
    c.remove_from_universe(u)
    check(
        LOG == [("eq", "a", "c"), ("eq", "a", "c")],
        f"eq log: remove_from_universe {LOG}",
    )
    del LOG[:]
    check(raises(ValueError, u.remove_vertex, b), "eq log: non-member")
    check(LOG == [("eq", "a", "b"), ("eq", "d", "b")], f"eq log: non-m. {LOG}")
    check(same(u.vertices, [a, d]), "eq log: members")
    del LOG[:]
    w = Universe(vertices=[a, d, a])
    check(
        LOG == [("eq", "a", "d"), ("eq", "a", "d")],
        f"eq log: Universe(vertices=) {LOG}",
    )
    check(same(w.vertices, [a, d]), "eq log: w members")

    # universes that are equal without being identical
    def nu(name):
        return NamedUniverse(attributes={"nm": name})

    n1, n1b, n2 = nu("1"), nu("1b"), nu("2")
    del LOG[:]
    v = Vertex(universes=(t for t in [n1, n1b, n2, n1]))
    check(
        LOG
        == [
            ("hash", "1"),
            ("hash", "1b"),
            ("eq", "1", "1b"),
            ("hash", "2"),
            ("hash", "1"),
            ("eq", "1", "2"),
        ],
        f"named: constructor {LOG}",
    )
    check(same(v.universes, [n1, n2]), "named: first of the equal ones kept")
    check(same(n1.vertices, [v]) and same(n2.vertices, [v]), "named: told")
    check(same(n1b.vertices, []), "named: the dropped twin was not told")
    del LOG[:]
    v.add_to_universe(n1b)
    # v regards n1b as already listed, but n1b does not list v yet
    check(
        LOG == [("eq", "1", "1b"), ("eq", "1", "1b")],
        f"named: add twin {LOG}",
    )
    check(same(v.universes, [n1, n2]) and same(n1b.vertices, [v]), "named: twin")
    del LOG[:]
    n1b.remove_vertex(v)
    # ... and removal through the twin takes out the first equal universe
    check(
        LOG == [("eq", "1", "1b"), ("eq", "1", "1b")],
        f"named: remove twin {LOG}",
    )
    check(same(v.universes, [n2]) and same(n1b.vertices, []), "named: twin out")
    # ... while n1 itself is never asked: "listed" means "an equal one is"
    check(same(n1.vertices, [v]), "named: n1 keeps v")
    del LOG[:]


def scripted_user_attributes():
    u = Universe()
    v = Vertex(
        attributes={
            "_vertices": "mine",
            "_universes": "lost",
            "_links": "lost",
            "vertices": "also mine",
            "x": float("nan"),
        },
        universes=[u],
    )
    check(v["_vertices"] == "mine" and v.vertices == "also mine", "user attrs")
    check(same(v["_universes"], [u]) and v["_links"] == [], "internals win")
    check(public_names(v) == {"vertices", "x"}, "public names of a vertex")
    check(v.x != v.x, "NaN attribute")
    u.remove_vertex(v)
    check(v["_vertices"] == "mine" and same(v.universes, []), "user attrs 2")
    w = Universe(attributes={"_vertices": "lost", "_laws": "lost", "k": 1})
    check(same(w.vertices, []) and public_names(w) == {"k"}, "universe attrs")
    check(public_names(Vertex()) == set(), "no public names on a new vertex")
    check(public_names(Universe()) == set(), "no public names on a universe")
    check(public_names(BaseObject()) == set(), "no public names on a base")
    check(raises(AttributeError, Vertex, attributes={"universes": 1}), "prop")
    check(raises(AttributeError, Universe, attributes={"vertices": 1}), "prop")

    # instance attributes that shadow the methods are honoured
    calls = []
    u.add_vertex = lambda vert: calls.append(("add", vert))
    u.remove_vertex = lambda vert: calls.append(("remove", vert))
    v.add_to_universe(u)
    check(calls == [("add", v)] and same(v.universes, [u]), "shadow: add")
    check(same(u.vertices, []), "shadow: the universe list was not touched")
    x = Vertex(universes=[u])
    check(calls == [("add", v), ("add", x)], "shadow: constructor")
    del u["add_vertex"]
    u.add_vertex(v)
    check(same(u.vertices, [v]), "shadow lifted")
    v.remove_from_universe(u)
    check(calls[2:] == [("remove", v)] and same(u.vertices, [v]), "shadow: rm")
    del u["remove_vertex"]
    u.remove_vertex(v)
    check(same(u.vertices, []) and same(v.universes, []), "shadow lifted 2")

    calls = []
    v.add_to_universe = lambda universe: calls.append(("atu", universe))
    v.remove_from_universe = lambda universe: calls.append(("rfu", universe))
    u.add_vertex(v)
    check(calls == [("atu", u)] and same(u.vertices, [v]), "shadow: atu")
    check(same(v.universes, []), "shadow: vertex list not touched")
    u.remove_vertex(v)
    check(calls == [("atu", u)] and same(u.vertices, []), "shadow: rfu unused")
    w2 = Universe(vertices=[v, v])
    check(calls == [("atu", u), ("atu", w2)], "shadow: constructor (u)")

    # __slots__ subclasses
    s = SlotVertex(universes=[u, u], attributes={"extra": 5, "other": 6})
    su = SlotUniverse(vertices=[s, s, u], attributes={"extra": 1})
    check(s.extra == 5 and public_names(s) == {"other"}, "slots vertex")
    check(same(s.universes, [u, su]) and same(su.vertices, [s, u]), "slots")
    check(public_names(su) == set() and su.extra == 1, "slots universe")
    dup = pickle.loads(pickle.dumps(su))
    check(len(dup.vertices) == 2 and dup.extra == 1, "slots pickled")
    check(dup.vertices[0].universes[1] is dup, "slots pickled: symmetric")

    # shallow copies share the record of universes with the original
    p = Vertex(universes=[u])
    q = copy.copy(p)
    u2 = Universe()
    q.add_to_universe(u2)
    check(same(p.universes, [u, u2]) and same(q.universes, [u, u2]), "shallow")
    check(same(u2.vertices, [q]) and p in u.vertices, "shallow: universes")
    check(q not in u.vertices, "shallow: copy was never registered with u")
    u2.remove_vertex(q)
    check(same(p.universes, [u]) and same(q.universes, [u]), "shallow: out")


def scripted_caching_and_links():
    old = Vertex.NEIGHBOR_CACHING
    try:
        for flag in (False, True):
            Vertex.NEIGHBOR_CACHING = flag
            u = Universe()
            a, b, c = Vertex(), Vertex(universes=[u]), Vertex()
            DirectedEdge(a, b)
            UnDirectedEdge(a, c)
            before = helpers.neighbors(a)
            check(same(before, [b, c]), f"neighbors ({flag})")
            u.add_vertex(a)
            c.add_to_universe(u)
            check(same(helpers.neighbors(a), [b, c]), f"neighbors 2 ({flag})")
            check(same(u.vertices, [b, a, c]), f"members ({flag})")
            u.remove_vertex(b)
            check(same(helpers.neighbors(a), [b, c]), f"neighbors 3 ({flag})")
            check(len(a.links) == 2 and len(b.links) == 1, f"links ({flag})")
            dup = pickle.loads(pickle.dumps(u))
            check(len(dup.vertices) == 2, f"pickled members ({flag})")
            da = dup.vertices[0]
            check(len(helpers.neighbors(da)) == 2, f"pickled nbs ({flag})")
            nb = helpers.neighbors(da)[0]
            check(nb.universes == [], f"pickled non-member ({flag})")
            nb.add_to_universe(dup)
            check(same(dup.vertices, [da, dup.vertices[1], nb]), f"grow ({flag})")
    finally:
        Vertex.NEIGHBOR_CACHING = old


def scripted_nrpickler():
    try:
        from edgegraph.output import nrpickler
    except ImportError:  # pragma: no cover
        return
    u, w = Universe(), Universe()
    vs = [Vertex(universes=[u]) for _ in range(50)]
    for x in vs[::2]:
        w.add_vertex(x)
    w.add_vertex(u)
    w.add_vertex(w)
    for i in range(49):
        DirectedEdge(vs[i], vs[i + 1])
    du, dw = pickle.loads(nrpickler.dumps((u, w)))
    check(len(du.vertices) == 50 and len(dw.vertices) == 27, "nrpickler sizes")
    check(dw.vertices[-1] is dw and dw.vertices[-2] is du, "nrpickler tail")
    check(
        all(x.universes[0] is du for x in du.vertices)
        and all(
            same(x.universes, [du, dw] if i % 2 == 0 else [du])
            for i, x in enumerate(du.vertices)
        ),
        "nrpickler symmetric",
    )
    dv = du.vertices[3]
    dv.remove_from_universe(du)
    dw.add_vertex(dv)
    check(len(du.vertices) == 49 and dv not in du.vertices, "nrpickler: shrink")
    check(same(dv.universes, [dw]) and dw.vertices[-1] is dv, "nrpickler: grow")
    check(raises(ValueError, du.remove_vertex, dv), "nrpickler: non-member")


def scripted_threads():
    old_interval = sys.getswitchinterval()
    sys.setswitchinterval(1e-6)
    try:
        hub = Universe()
        side = Universe()
        nthreads, per = 8, 150
        batches = [[Vertex() for _ in range(per)] for _ in range(nthreads)]
        errors = []

        def joiner(batch):
            try:
                for i, x in enumerate(batch):
                    if i % 2:
                        hub.add_vertex(x)
                    else:
                        x.add_to_universe(hub)
                    if i % 3 == 0:
                        side.add_vertex(x)
            except BaseException as exc:  # pylint: disable=broad-except
                errors.append(exc)

        def leaver(batch):
            try:
                for i, x in enumerate(batch):
                    if i % 4 == 0:
                        hub.remove_vertex(x)
                    elif i % 4 == 1:
                        x.remove_from_universe(hub)
            except BaseException as exc:  # pylint: disable=broad-except
                errors.append(exc)

        for target in (joiner, leaver):
            threads = [
                threading.Thread(target=target, args=(b,)) for b in batches
            ]
            for t in threads:
                t.start()
            for t in threads:
                t.join()
            check(not errors, f"threads: no exception {errors[:1]}")
            members = hub.vertices
            check(len({id(m) for m in members}) == len(members), "threads: dups")
            gone = (0, 1) if target is leaver else ()
            want_n = 0
            for batch in batches:
                want = [x for i, x in enumerate(batch) if i % 4 not in gone]
                want_n += len(want)
                ids = {id(x) for x in batch}
                got = [m for m in members if id(m) in ids]
                check(same(got, want), "threads: per-thread insertion order")
                for i, x in enumerate(batch):
                    exp = ([hub] if i % 4 not in gone else []) + (
                        [side] if i % 3 == 0 else []
                    )
                    check(same(x.universes, exp), "threads: vertex side")
            check(len(members) == want_n, "threads: size")
            check(len(side.vertices) == nthreads * (per // 3), "threads: side")
    finally:
        sys.setswitchinterval(old_interval)


###############################################################################
# random differential part


def random_run(seed, steps):
    rng = random.Random(seed)
    model = Oracle()
    objs = []  # index -> object
    universes = []  # indexes of universes

    def pick_iterable(items):
        """Hand the indexes over as some kind of iterable of objects."""
        kind = rng.randrange(4)
        real = [objs[i] for i in items]
        if kind == 0:
            return real
        if kind == 1:
            return tuple(real)
        if kind == 2:
            return (o for o in real)
        return iter(real)

    def new_universe(members):
        cls = rng.choice([Universe, Universe, SlotUniverse])
        idx = len(objs)
        # the new universe may list itself only after it exists
        uni = cls(vertices=pick_iterable(members))
        objs.append(uni)
        universes.append(idx)
        model.new_universe(idx, members)
        return idx

    def new_vertex(memberships):
        cls = rng.choice([Vertex, Vertex, SlotVertex, EqVertex])
        idx = len(objs)
        kwargs = {}
        if rng.random() < 0.3:
            kwargs["attributes"] = {"nm": f"v{idx}", "_vertices": idx}
        if memberships is not None or rng.random() < 0.5:
            kwargs["universes"] = (
                None if memberships is None else pick_iterable(memberships)
            )
        objs.append(cls(**kwargs))
        model.new_vertex(idx, memberships or [])
        return idx

    def compare(where):
        ok = True
        for idx, obj in enumerate(objs):
            if not same(obj.universes, [objs[i] for i in model.unis[idx]]):
                ok = False
            if idx in model.verts:
                if not same(obj.vertices, [objs[i] for i in model.verts[idx]]):
                    ok = False
        check(ok, f"seed {seed}: {where}: library and oracle disagree")
        return ok

    # a starting population
    for _ in range(2):
        new_universe([])
    for _ in range(4):
        new_vertex(rng.choices(universes, k=rng.randrange(4)))
    new_universe(rng.choices(range(len(objs)), k=5))
    # some links, which must be left alone by all of this
    plain = [i for i in range(len(objs)) if i not in universes]
    nlinks = 0
    for _ in range(4):
        a, b = rng.choice(plain), rng.choice(plain)
        rng.choice([DirectedEdge, UnDirectedEdge])(objs[a], objs[b])
        nlinks += 1
    compare("start")

    for step in range(steps):
        op = rng.randrange(100)
        where = f"step {step} op {op}"
        if op < 25:
            u, x = rng.choice(universes), rng.randrange(len(objs))
            check(objs[u].add_vertex(objs[x]) is None, f"{where}: None")
            model.join(u, x)
        elif op < 50:
            u, x = rng.choice(universes), rng.randrange(len(objs))
            check(objs[x].add_to_universe(objs[u]) is None, f"{where}: None")
            model.join(u, x)
        elif op < 68:
            u, x = rng.choice(universes), rng.randrange(len(objs))
            if model.is_member(u, x):
                check(objs[u].remove_vertex(objs[x]) is None, f"{where}: None")
                model.leave(u, x)
            else:
                exc = raises(ValueError, objs[u].remove_vertex, objs[x])
                check(exc is not None, f"seed {seed}: {where}: ValueError")
        elif op < 86:
            u, x = rng.choice(universes), rng.randrange(len(objs))
            if model.is_member(u, x):
                ret = objs[x].remove_from_universe(objs[u])
                check(ret is None, f"{where}: None")
                model.leave(u, x)
            else:
                exc = raises(ValueError, objs[x].remove_from_universe, objs[u])
                check(exc is not None, f"seed {seed}: {where}: ValueError")
        elif op < 90:
            if len(objs) < 16:
                k = rng.randrange(5)
                new_vertex(rng.choices(universes, k=k) if k else None)
        elif op < 93:
            if len(objs) < 16:
                new_universe(rng.choices(range(len(objs)), k=rng.randrange(5)))
        elif op < 96:
            Vertex.NEIGHBOR_CACHING = not Vertex.NEIGHBOR_CACHING
        else:
            # continue on a copy of the whole graph
            if rng.random() < 0.5:
                objs[:] = copy.deepcopy(objs)
            else:
                proto = rng.randrange(2, pickle.HIGHEST_PROTOCOL + 1)
                objs[:] = pickle.loads(pickle.dumps(objs, protocol=proto))
            where += " (round trip)"
            links = {id(l) for o in objs for l in o.links}
            check(len(links) == nlinks, f"seed {seed}: {where}: links survive")
        if not compare(where):
            break
    model.invariant()
    del LOG[:]


def main():
    old_caching = Vertex.NEIGHBOR_CACHING
    scripted = [
        scripted_basics,
        scripted_self_membership,
        scripted_foreign_objects,
        scripted_exceptions_midway,
        scripted_call_log,
        scripted_eq_log,
        scripted_user_attributes,
        scripted_caching_and_links,
        scripted_nrpickler,
        scripted_threads,
    ]
    for flag in (False, True):
        Vertex.NEIGHBOR_CACHING = flag
        for func in scripted:
            try:
                func()
            except BaseException as exc:  # pylint: disable=broad-except
                check(False, f"{func.__name__} (caching {flag}) died: {exc!r}")
                raise
    for seed in range(150):
        Vertex.NEIGHBOR_CACHING = bool(seed % 2)
        random_run(seed, 400)
    Vertex.NEIGHBOR_CACHING = old_caching

    print(f"{CHECKS[0]} checks, {len(FAILURES)} failures")
    return 1 if FAILURES else 0


if __name__ == "__main__":
    sys.exit(main())
