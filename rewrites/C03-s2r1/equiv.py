#!/usr/bin/python3
# -*- coding: utf-8 -*-
"""
Equivalence / conformance check for property C03 (frame property of the
mutations of edgegraph: edge creation, v1 / v2 assignment, unlink, dontdup).

Run from the worktree root as
    PYTHONPATH=<worktree> /venv/bin/python equiv.py

Parts:
  A. scripted corner cases with hand-written expectations;
  B. seeded random differential run against a plain reference model written
     from the property statement (NEIGHBOR_CACHING on and off, pickling);
  C. spying subclasses: the order and number of calls made to overridable
     public methods, and the state left behind when the k-th of those calls
     raises, for every k;
  D. a digest over everything observed in A-C (including the neighbour cache
     statistics) that is compared with the value recorded on the unchanged
     tree -- so that any observable drift, even in places for which no oracle
     exists, makes the program fail.

Exit status 0 iff everything is as demanded.
"""

from __future__ import annotations

import copy
import hashlib
import os
import pickle
import random
import sys

from edgegraph.structure import (
    Vertex,
    Link,
    TwoEndedLink,
    DirectedEdge,
    UnDirectedEdge,
    Universe,
)
from edgegraph.builder import explicit
from edgegraph.traversal import helpers

FAILURES: list[str] = []
DIGEST = hashlib.sha256()
NCHECKS = 0


def note(*parts):
    """Feed something observed into the digest."""
    DIGEST.update(("|".join(str(p) for p in parts) + "\n").encode())


def check(cond, msg):
    global NCHECKS
    NCHECKS += 1
    if not cond:
        FAILURES.append(msg)
        if len(FAILURES) < 40:
            print("FAIL:", msg)


def reset_cache(enabled):
    Vertex.NEIGHBOR_CACHING = enabled
    Vertex._CACHE_STATS.clear()  # only to keep the statistics deterministic


def stats_numbers():
    """The numbers of Vertex.total_cache_stats(), public API."""
    return [ln.split(":")[1].strip() for ln in Vertex.total_cache_stats().splitlines() if ":" in ln]


class MyEdge(TwoEndedLink):
    """A user subclass that is neither directed nor undirected."""


class MyDirected(DirectedEdge):
    """A user subclass of the directed edge."""


LINK_TYPES = [DirectedEdge, UnDirectedEdge, TwoEndedLink, MyEdge, MyDirected]


# ---------------------------------------------------------------------------
# reference model
# ---------------------------------------------------------------------------
class Model:
    """
    Plain model: vertices and links are small integers.

    vlinks[v]  ordered list of link numbers attached to vertex v
    ends[l]    ordered list of vertex numbers (or None) of link l
    vunis[v]   ordered list of universe (vertex) numbers v belongs to
    uverts[u]  ordered list of vertex numbers universe u holds
    """

    def __init__(self):
        self.vlinks = {}
        self.ends = {}
        self.ltype = {}
        self.vunis = {}
        self.uverts = {}

    def new_vertex(self, unis=()):
        v = len(self.vlinks)
        self.vlinks[v] = []
        self.vunis[v] = []
        for u in unis:
            self.uni_add(u, v)
        return v

    def new_universe(self):
        u = self.new_vertex()
        self.uverts[u] = []
        return u

    # --- links
    def _attach(self, v, l):
        if v is not None and l not in self.vlinks[v]:
            self.vlinks[v].append(l)

    def create(self, typ, a, b):
        l = len(self.ends)
        self.ends[l] = [a, b]
        self.ltype[l] = typ
        self._attach(a, l)
        self._attach(b, l)
        return l

    def assign(self, l, idx, new):
        ends = self.ends[l]
        if len(ends) < 2:
            raise IndexError
        old = ends[idx]
        ends[idx] = new
        if old is not None and old not in ends:
            self.vlinks[old].remove(l)
        self._attach(new, l)

    def other(self, l, v):
        ends = self.ends[l]
        if len(ends) < 2:
            raise IndexError
        if v == ends[0]:
            return ends[1]
        if v == ends[1]:
            return ends[0]
        return None

    def joining(self, a, b):
        return [l for l in self.vlinks[a] if self.other(l, a) == b]

    def unlink_from(self, l, v):
        ends = self.ends[l]
        if v is None:
            if None in ends:
                ends.remove(None)
            return
        if v in ends:
            self.ends[l] = [e for e in ends if e != v]
            if l in self.vlinks[v]:
                self.vlinks[v].remove(l)

    def add_end(self, l, v):
        self.ends[l].append(v)
        self._attach(v, l)

    def remove_from_link(self, v, l):
        if l in self.vlinks[v]:
            self.vlinks[v].remove(l)
            self.ends[l] = [e for e in self.ends[l] if e != v]

    def add_to_link(self, v, l):
        if l not in self.vlinks[v]:
            self.vlinks[v].append(l)
            if v not in self.ends[l]:
                self.ends[l].append(v)

    def unlink(self, a, b):
        found = self.joining(a, b)
        for l in found:
            self.unlink_from(l, a)
            self.unlink_from(l, b)
        return found

    def link(self, typ, a, b, dontdup):
        if dontdup:
            for l in self.vlinks[a]:
                if self.other(l, a) == b:
                    return l, False
        return self.create(typ, a, b), True

    # --- universes
    def uni_add(self, u, v):
        if v not in self.uverts[u]:
            self.uverts[u].append(v)
            self.vunis[v].append(u)

    def uni_remove(self, u, v):
        if v not in self.uverts[u]:
            raise ValueError
        self.uverts[u].remove(v)
        self.vunis[v].remove(u)

    # --- neighbours as documented for helpers.neighbors
    def neighbors(self, v, sens):
        out = []
        for l in self.vlinks[v]:
            ends = self.ends[l]
            if len(ends) < 2:
                raise IndexError
            oth = self.other(l, v)
            typ = self.ltype[l]
            if sens == helpers.DIR_SENS_ANY:
                out.append(oth)
            elif issubclass(typ, UnDirectedEdge):
                out.append(oth)
            elif issubclass(typ, DirectedEdge):
                mine = 0 if sens == helpers.DIR_SENS_FORWARD else 1
                if ends[mine] == v:
                    out.append(oth)
            # unknown classes: LNK_UNKNOWN_NONNEIGHBOR is what we ask for
        return out


class World:
    """The real objects next to the model, and the comparison of the two."""

    def __init__(self, tag):
        self.tag = tag
        self.m = Model()
        self.verts = []
        self.links = []

    def vobj(self, v):
        return None if v is None else self.verts[v]

    def vnum(self, obj):
        if obj is None:
            return None
        for i, v in enumerate(self.verts):
            if v is obj:
                return i
        return "?"

    def lnum(self, obj):
        for i, l in enumerate(self.links):
            if l is obj:
                return i
        return "?"

    def add_vertex(self, cls=Vertex, unis=()):
        if unis:
            obj = cls(universes=[self.verts[u] for u in unis])
        else:
            obj = cls()
        self.verts.append(obj)
        return self.m.new_vertex(unis)

    def add_universe(self):
        self.verts.append(Universe())
        return self.m.new_universe()

    def snapshot(self):
        """Observable state of the real graph, in model numbers."""
        out = []
        for v in self.verts:
            out.append(("V", [self.lnum(l) for l in v.links], [self.vnum(u) for u in v.universes]))
            if isinstance(v, Universe):
                out.append(("U", [self.vnum(x) for x in v.vertices]))
        for l in self.links:
            out.append(("L", [self.vnum(x) for x in l.vertices]))
        return out

    def expected(self):
        out = []
        for v in range(len(self.verts)):
            out.append(("V", list(self.m.vlinks[v]), list(self.m.vunis[v])))
            if v in self.m.uverts:
                out.append(("U", list(self.m.uverts[v])))
        for l in range(len(self.links)):
            out.append(("L", list(self.m.ends[l])))
        return out

    def compare(self, what):
        got, exp = self.snapshot(), self.expected()
        check(got == exp, f"{self.tag}: state after {what}: got {got} expected {exp}")
        note(self.tag, what, got)
        # types handed out by the read-only views
        for v in self.verts:
            check(type(v.links) is tuple and type(v.universes) is list, f"{self.tag}: view types")
        for l in self.links:
            check(type(l.vertices) is tuple, f"{self.tag}: vertices view type")

    def compare_neighbors(self, what):
        for sens in (helpers.DIR_SENS_FORWARD, helpers.DIR_SENS_ANY, helpers.DIR_SENS_BACKWARD):
            for i, v in enumerate(self.verts):
                try:
                    exp = self.m.neighbors(i, sens)
                except IndexError:
                    exp = "IndexError"
                try:
                    got = [self.vnum(x) for x in helpers.neighbors(
                        v, direction_sensitive=sens,
                        unknown_handling=helpers.LNK_UNKNOWN_NONNEIGHBOR)]
                except IndexError:
                    got = "IndexError"
                check(got == exp, f"{self.tag}: neighbors({i},{sens}) after {what}: {got} != {exp}")


# ---------------------------------------------------------------------------
# B. seeded random differential run
# ---------------------------------------------------------------------------
def outcome(fn):
    """Run fn; return ('ok', value) or ('exc', class name)."""
    try:
        return ("ok", fn())
    except Exception as exc:  # pylint: disable=broad-except
        return ("exc", type(exc).__name__)


def random_world(seed, caching, nops):
    rnd = random.Random(seed)
    reset_cache(caching)
    w = World(f"rand[{seed},{'cache' if caching else 'nocache'}]")
    m = w.m
    for _ in range(2):
        w.add_universe()
    for _ in range(rnd.randint(3, 6)):
        unis = [u for u in (0, 1) if rnd.random() < 0.3]
        w.add_vertex(unis=unis)
    w.compare("setup")

    def pick_v(none_ok=0.0):
        if rnd.random() < none_ok:
            return None
        return rnd.randrange(len(w.verts))

    for step in range(nops):
        r = rnd.random()
        what = None
        if r < 0.30 or not w.links:
            # --- create
            typ = rnd.choice(LINK_TYPES)
            a, b = pick_v(0.05), pick_v(0.08)
            if rnd.random() < 0.25:
                b = a  # self loop
            dontdup = rnd.random() < 0.5
            how = rnd.choice(["ctor", "from_to", "kind"])
            if how == "ctor":
                what = f"{step}: {typ.__name__}({a},{b})"
                real = outcome(lambda: typ(w.vobj(a), w.vobj(b)))
                exp = outcome(lambda: m.link(typ, a, b, False))
            else:
                if how == "kind":
                    typ = rnd.choice([DirectedEdge, UnDirectedEdge])
                    fn = explicit.link_directed if typ is DirectedEdge else explicit.link_undirected
                    what = f"{step}: {fn.__name__}({a},{b},dontdup={dontdup})"
                    real = outcome(lambda: fn(w.vobj(a), w.vobj(b), dontdup=dontdup))
                else:
                    what = f"{step}: link_from_to({a},{typ.__name__},{b},dontdup={dontdup})"
                    real = outcome(lambda: explicit.link_from_to(w.vobj(a), typ, w.vobj(b), dontdup))
                if a is None and dontdup:
                    exp = ("exc", "AttributeError")
                else:
                    exp = outcome(lambda: m.link(typ, a, b, dontdup))
            if exp[0] == "ok":
                lnum, created = exp[1]
                if real[0] != "ok":
                    check(False, f"{w.tag}: {what}: raised {real}")
                elif created:
                    check(type(real[1]) is typ, f"{w.tag}: {what}: wrong class {type(real[1])}")
                    check(all(real[1] is not l for l in w.links), f"{w.tag}: {what}: not a new object")
                    w.links.append(real[1])
                else:
                    check(real[1] is w.links[lnum], f"{w.tag}: {what}: dontdup returned {w.lnum(real[1])} not {lnum}")
            else:
                check(real == exp, f"{w.tag}: {what}: {real} != {exp}")
        elif r < 0.55:
            # --- assign an end
            l = rnd.randrange(len(w.links))
            idx = rnd.randrange(2)
            new = pick_v(0.1)
            if rnd.random() < 0.3 and len(m.ends[l]) >= 2:
                new = m.ends[l][rnd.randrange(2)]  # alias an existing end
            what = f"{step}: link{l}.v{idx + 1}={new}"

            def do_assign():
                if idx == 0:
                    w.links[l].v1 = w.vobj(new)
                else:
                    w.links[l].v2 = w.vobj(new)

            real = outcome(do_assign)
            exp = outcome(lambda: m.assign(l, idx, new))
            check(real == exp, f"{w.tag}: {what}: {real} != {exp}")
        elif r < 0.75:
            # --- unlink
            a, b = pick_v(0.03), pick_v(0.05)
            if rnd.random() < 0.2:
                b = a
            destroy = rnd.random() < 0.5
            what = f"{step}: unlink({a},{b},destroy={destroy})"
            real = outcome(lambda: explicit.unlink(w.vobj(a), w.vobj(b), destroy=destroy))
            if a is None:
                exp = ("exc", "AttributeError")
            else:
                exp = outcome(lambda: m.unlink(a, b))
            if exp[0] == "ok" and real[0] == "ok":
                if destroy:
                    check(real[1] is None, f"{w.tag}: {what}: returned {real[1]}")
                else:
                    check(type(real[1]) is set, f"{w.tag}: {what}: returned {type(real[1])}")
                    got = sorted((w.lnum(x) for x in real[1]), key=lambda n: (n == "?", 0 if n == "?" else n))
                    check(got == sorted(exp[1]), f"{w.tag}: {what}: returned {got} expected {sorted(exp[1])}")
                    note(w.tag, what, "returned", got)
            else:
                check(real == exp, f"{w.tag}: {what}: {real} != {exp}")
        elif r < 0.80:
            l = rnd.randrange(len(w.links))
            v = pick_v(0.1)
            what = f"{step}: link{l}.unlink_from({v})"
            real = outcome(lambda: w.links[l].unlink_from(w.vobj(v)))
            m.unlink_from(l, v)
            check(real == ("ok", None), f"{w.tag}: {what}: {real}")
        elif r < 0.83:
            l = rnd.randrange(len(w.links))
            v = pick_v(0.1)
            what = f"{step}: link{l}.add_vertex({v})"
            real = outcome(lambda: w.links[l].add_vertex(w.vobj(v)))
            m.add_end(l, v)
            check(real == ("ok", None), f"{w.tag}: {what}: {real}")
        elif r < 0.87:
            l = rnd.randrange(len(w.links))
            v = pick_v()
            if rnd.random() < 0.5:
                what = f"{step}: vertex{v}.remove_from_link({l})"
                real = outcome(lambda: w.verts[v].remove_from_link(w.links[l]))
                m.remove_from_link(v, l)
            else:
                what = f"{step}: vertex{v}.add_to_link({l})"
                real = outcome(lambda: w.verts[v].add_to_link(w.links[l]))
                m.add_to_link(v, l)
            check(real == ("ok", None), f"{w.tag}: {what}: {real}")
        elif r < 0.97:
            # --- universes
            u = rnd.randrange(2)
            v = pick_v()
            k = rnd.randrange(4)
            if k == 0:
                what = f"{step}: uni{u}.add_vertex({v})"
                real = outcome(lambda: w.verts[u].add_vertex(w.verts[v]))
                exp = outcome(lambda: m.uni_add(u, v))
            elif k == 1:
                what = f"{step}: vertex{v}.add_to_universe({u})"
                real = outcome(lambda: w.verts[v].add_to_universe(w.verts[u]))
                exp = outcome(lambda: m.uni_add(u, v))
            elif k == 2:
                what = f"{step}: uni{u}.remove_vertex({v})"
                real = outcome(lambda: w.verts[u].remove_vertex(w.verts[v]))
                exp = outcome(lambda: m.uni_remove(u, v))
            else:
                what = f"{step}: vertex{v}.remove_from_universe({u})"
                real = outcome(lambda: w.verts[v].remove_from_universe(w.verts[u]))
                exp = outcome(lambda: m.uni_remove(u, v))
            check(real == exp, f"{w.tag}: {what}: {real} != {exp}")
        else:
            # --- pickle round trip of the whole world; go on with the copy
            what = f"{step}: pickle round trip"
            proto = rnd.choice([2, 4, pickle.HIGHEST_PROTOCOL])
            if rnd.random() < 0.5:
                w.verts, w.links = pickle.loads(pickle.dumps((w.verts, w.links), protocol=proto))
            else:
                w.verts, w.links = copy.deepcopy((w.verts, w.links))

        w.compare(what)
        if caching or step % 5 == 0:
            w.compare_neighbors(what)
        if caching:
            note(w.tag, what, "stats", stats_numbers())
    return w




# ---------------------------------------------------------------------------
# A. scripted corner cases
# ---------------------------------------------------------------------------
def ids(seq, pool):
    """Render a sequence of objects as indexes into pool (by identity)."""
    out = []
    for x in seq:
        for i, p in enumerate(pool):
            if p is x:
                out.append(i)
                break
        else:
            out.append(None if x is None else repr(x) if isinstance(x, (int, str)) else "?")
    return out


def expect_raises(cls, fn, msg, text=None):
    try:
        fn()
    except Exception as exc:  # pylint: disable=broad-except
        check(type(exc) is cls, f"{msg}: raised {type(exc).__name__}, expected {cls.__name__}")
        if text is not None:
            check(str(exc) == text, f"{msg}: message {str(exc)!r} expected {text!r}")
        note(msg, type(exc).__name__, str(exc) if text is not None else "")
        return
    check(False, f"{msg}: did not raise {cls.__name__}")


class Liar:
    """Claims to be a Vertex through __class__, but is not one."""

    links = ()

    @property
    def __class__(self):
        return Vertex


class BadFormat:
    def __format__(self, spec):
        raise ZeroDivisionError("format")


def part_a(caching):
    reset_cache(caching)
    tag = f"A[{'cache' if caching else 'nocache'}]"
    for typ in LINK_TYPES:
        a, b, c = Vertex(), Vertex(), Vertex()
        pool = [a, b, c]
        tn = typ.__name__

        # --- creation: appended to both ends, in order v1 then v2
        pre = typ(c, a)
        l = typ(a, b)
        check(l.vertices == (a, b) and l.v1 is a and l.v2 is b, f"{tag} {tn}: ends after creation")
        check(a.links == (pre, l) and b.links == (l,) and c.links == (pre,), f"{tag} {tn}: links after creation")

        # --- type checks precede any mutation, v1 is judged first
        expect_raises(TypeError, lambda: typ(5, b), f"{tag} {tn}: v1=5", "v1 is not a Vertex object!  got 5")
        expect_raises(TypeError, lambda: typ(a, "x"), f"{tag} {tn}: v2='x'", "v2 is not a Vertex object!  got x")
        expect_raises(TypeError, lambda: typ(5, "x"), f"{tag} {tn}: both bad", "v1 is not a Vertex object!  got 5")
        expect_raises(TypeError, lambda: typ(l, b), f"{tag} {tn}: v1=link")
        expect_raises(TypeError, lambda: typ(a, Liar()), f"{tag} {tn}: v2 lies about its class")
        expect_raises(TypeError, lambda: typ(Liar(), b), f"{tag} {tn}: v1 lies about its class")
        expect_raises(ZeroDivisionError, lambda: typ(a, BadFormat()), f"{tag} {tn}: message formatting raises")
        expect_raises(ZeroDivisionError, lambda: typ(BadFormat(), 7), f"{tag} {tn}: message formatting raises (v1)")
        expect_raises(TypeError, lambda: typ(a, b, 3), f"{tag} {tn}: uid is keyword only")
        check(a.links == (pre, l) and b.links == (l,), f"{tag} {tn}: failed creation left traces")
        # keyword spelling, uid and attributes
        k = typ(v2=b, v1=a, uid=77, attributes={"w": 3})
        check(k.vertices == (a, b) and k.uid == 77 and k.w == 3, f"{tag} {tn}: keyword creation")
        check(a.links == (pre, l, k) and b.links == (l, k), f"{tag} {tn}: links after keyword creation")
        explicit.unlink(a, b)
        check(a.links == (pre,) and b.links == () and l.vertices == () and k.vertices == (), f"{tag} {tn}: unlink all")
        l = typ(a, b)

        # --- v1 := c  (only that end changes; a detached; c appended)
        l.v1 = c
        check(l.vertices == (c, b), f"{tag} {tn}: v1=c ends")
        check(a.links == (pre,) and b.links == (l,) and c.links == (pre, l), f"{tag} {tn}: v1=c links")
        check(pre.vertices == (c, a), f"{tag} {tn}: v1=c touched another link")
        # --- v2 := c  (self loop now; c not appended twice; b detached)
        l.v2 = c
        check(l.vertices == (c, c) and c.links == (pre, l) and b.links == (), f"{tag} {tn}: v2=c")
        # --- v1 := a on a self loop: c stays attached, since it still is an end
        l.v1 = a
        check(l.vertices == (a, c) and c.links == (pre, l) and a.links == (pre, l), f"{tag} {tn}: v1=a from loop")
        # --- same vertex again: nothing moves
        l.v1 = a
        l.v2 = c
        check(l.vertices == (a, c) and c.links == (pre, l) and a.links == (pre, l), f"{tag} {tn}: idempotent")
        # --- swap through aliasing
        l.v1 = c
        check(l.vertices == (c, c) and a.links == (pre,), f"{tag} {tn}: alias v1=v2")
        l.v2 = a
        check(l.vertices == (c, a) and a.links == (pre, l) and c.links == (pre, l), f"{tag} {tn}: v2=a")
        # --- None
        l.v1 = None
        check(l.vertices == (None, a) and c.links == (pre,) and a.links == (pre, l), f"{tag} {tn}: v1=None")
        check(l.other(a) is None and l.other(None) is a and l.other(b) is None, f"{tag} {tn}: other with None")
        l.v2 = None
        check(l.vertices == (None, None) and a.links == (pre,), f"{tag} {tn}: v2=None")
        l.v2 = b
        l.v1 = b
        check(l.vertices == (b, b) and b.links == (l,), f"{tag} {tn}: from None to loop")
        n = typ()
        check(n.vertices == (None, None), f"{tag} {tn}: no arguments")
        n.v2 = a
        check(n.vertices == (None, a) and a.links == (pre, n), f"{tag} {tn}: fill v2")

        # --- a non-vertex assigned: fails late, after the end was replaced
        xa, xb = Vertex(), Vertex()
        xq = typ(xa, xb)
        expect_raises(AttributeError, lambda: setattr(xq, "v1", 5), f"{tag} {tn}: v1=5 assigned")
        check(ids(xq.vertices, [xa, xb]) == ["5", 1] and xa.links == (xq,) and xb.links == (xq,),
              f"{tag} {tn}: state after v1=5: {ids(xq.vertices, [xa, xb])} {xa.links} {xb.links}")
        xq = typ(xa, xb)
        expect_raises(AttributeError, lambda: setattr(xq, "v2", "s"), f"{tag} {tn}: v2='s' assigned")
        check(ids(xq.vertices, [xa, xb]) == [0, "'s'"] and len(xa.links) == 2 and len(xb.links) == 2,
              f"{tag} {tn}: state after v2='s': {ids(xq.vertices, [xa, xb])}")
        q = typ(a, b)

        # --- a link that lost an end refuses assignment, state untouched
        q.unlink_from(a)
        check(q.vertices == (b,) and q not in a.links and q in b.links, f"{tag} {tn}: unlink_from")
        for attr in ("v1", "v2"):
            expect_raises(IndexError, lambda attr=attr: setattr(q, attr, c), f"{tag} {tn}: {attr} on one-ended link",
                          "tuple index out of range")
        check(q.vertices == (b,) and q not in c.links, f"{tag} {tn}: refused assignment left traces")
        expect_raises(IndexError, lambda: q.other(b), f"{tag} {tn}: other on one-ended link")
        expect_raises(IndexError, lambda: explicit.link_from_to(b, typ, c, dontdup=True), f"{tag} {tn}: dontdup scan meets it")
        expect_raises(IndexError, lambda: explicit.unlink(b, c), f"{tag} {tn}: unlink meets it")
        q.unlink_from(b)
        check(q.vertices == () and q not in b.links, f"{tag} {tn}: emptied")
        expect_raises(IndexError, lambda: setattr(q, "v1", c), f"{tag} {tn}: v1 on empty link")

        # --- three ends (add_vertex is public): old end kept while listed
        t = typ(a, b)
        t.add_vertex(a)
        t.v1 = c
        check(t.vertices == (c, b, a) and t in a.links and t in c.links, f"{tag} {tn}: third end keeps a attached")
        t.v2 = c
        check(t.vertices == (c, c, a) and t not in b.links, f"{tag} {tn}: three ends, v2")
        note(tag, tn, "scripted", ids(a.links, [pre, l, n, q, t]), ids(b.links, [pre, l, n, q, t]), stats_numbers())

    # --- dontdup and unlink over every pair of classes and both directions
    for t1 in LINK_TYPES:
        for t2 in LINK_TYPES:
            a, b, c = Vertex(), Vertex(), Vertex()
            ac = t1(a, c)
            ba = t1(b, a)  # joins a and b "backwards"
            ab = t2(a, b)
            aa = t2(a, a)
            name = f"{tag} {t1.__name__}/{t2.__name__}"
            check(explicit.link_from_to(a, t2, b, dontdup=True) is ba, f"{name}: dontdup takes first joining link")
            check(explicit.link_from_to(b, t2, a, dontdup=True) is ba, f"{name}: dontdup from b")
            check(explicit.link_from_to(a, t1, a, dontdup=True) is aa, f"{name}: dontdup self loop")
            check(explicit.link_from_to(c, t1, a, True) is ac, f"{name}: dontdup positional")
            check(explicit.link_directed(c, b, dontdup=1) not in (ac, ba, ab, aa), f"{name}: dontdup creates when none joins")
            check(len(c.links) == 2 and len(b.links) == 3, f"{name}: exactly one link created")
            again = explicit.link_undirected(c, b, dontdup=True)
            check(again is c.links[1] and type(again) is DirectedEdge, f"{name}: dontdup ignores the class")
            dup = explicit.link_from_to(a, t1, b)
            check(dup is not ba and dup is not ab and a.links == (ac, ba, ab, aa, dup), f"{name}: without dontdup a new link")
            got = explicit.unlink(b, a, destroy=False)
            check(type(got) is set and got == {ba, ab, dup}, f"{name}: unlink returns exactly the joining links")
            check(a.links == (ac, aa) and b.links == (c.links[1],), f"{name}: unlink keeps the rest, in order")
            check(all(x.vertices == () for x in got), f"{name}: unlinked links have no ends")
            check(ac.vertices == (a, c) and aa.vertices == (a, a), f"{name}: other links untouched")
            check(explicit.unlink(a, b, destroy=False) == set(), f"{name}: nothing left to unlink")
            check(explicit.unlink(a, b) is None and explicit.unlink(a, a, True) is None, f"{name}: destroy returns None")
            check(a.links == (ac,) and aa.vertices == (), f"{name}: self loop unlinked")
            half = t2(a, None)
            check(explicit.link_from_to(a, t1, None, dontdup=True) is half, f"{name}: dontdup towards None")
            check(explicit.unlink(a, None, destroy=False) == {half} and half.vertices == (), f"{name}: unlink towards None")
            expect_raises(AttributeError, lambda: explicit.unlink(None, a), f"{name}: unlink from None")
            expect_raises(AttributeError, lambda: explicit.link_from_to(None, t1, a, dontdup=True), f"{name}: dontdup from None")
            x = explicit.link_from_to(None, t1, a)
            check(x.vertices == (None, a) and a.links == (ac, x), f"{name}: link from None without dontdup")
            # lnktype is just called
            check(explicit.link_from_to(a, lambda p, q: (p, q), b) == (a, b), f"{name}: lnktype is any callable")
            expect_raises(TypeError, lambda: explicit.link_from_to(a, Link, b), f"{name}: base Link refuses positional ends")
    note(tag, "stats", stats_numbers())


# ---------------------------------------------------------------------------
# C. spies: calls made to overridable public methods, and raising callbacks
# ---------------------------------------------------------------------------
class Fuse(Exception):
    """Raised by a spy when its turn has come."""


class Spy:
    log: list = []
    count = 0
    blow_at = None
    names: dict = {}

    @classmethod
    def arm(cls, blow_at=None):
        cls.log = []
        cls.count = 0
        cls.blow_at = blow_at

    @classmethod
    def hit(cls, who, what, *args):
        cls.count += 1
        cls.log.append((cls.count, cls.name(who), what) + tuple(cls.name(a) for a in args))
        if cls.blow_at is not None and cls.count == cls.blow_at:
            raise Fuse(cls.count)

    @classmethod
    def name(cls, obj):
        if obj is None or isinstance(obj, (int, str, bool)):
            return repr(obj)
        return cls.names.get(id(obj), type(obj).__name__)


class SpyVertex(Vertex):
    @property
    def links(self):
        Spy.hit(self, "links")
        return super().links

    def add_to_link(self, link):
        Spy.hit(self, "add_to_link>", link)
        super().add_to_link(link)
        Spy.hit(self, "add_to_link<", link)

    def remove_from_link(self, link):
        Spy.hit(self, "remove_from_link>", link)
        super().remove_from_link(link)
        Spy.hit(self, "remove_from_link<", link)


def spy_edge(base):
    class SpyEdge(base):
        serial = 0

        def __init__(self, *args, **kwargs):
            # deterministic hash, so that sets of these iterate reproducibly
            SpyEdge.serial += 1
            self.serial_no = SpyEdge.serial
            Spy.names[id(self)] = f"e{self.serial_no}"
            Spy.hit(self, "__init__>")
            super().__init__(*args, **kwargs)
            Spy.hit(self, "__init__<")

        def __hash__(self):
            return self.serial_no

        @property
        def vertices(self):
            Spy.hit(self, "vertices")
            return super().vertices

        @property
        def v1(self):
            Spy.hit(self, "v1")
            return super().v1

        @v1.setter
        def v1(self, new):
            Spy.hit(self, "v1=", new)
            super()._set_v1(new)
            Spy.hit(self, "v1=<", new)

        @property
        def v2(self):
            Spy.hit(self, "v2")
            return super().v2

        @v2.setter
        def v2(self, new):
            Spy.hit(self, "v2=", new)
            super()._set_v2(new)
            Spy.hit(self, "v2=<", new)

        def other(self, end):
            Spy.hit(self, "other", end)
            return super().other(end)

        def add_vertex(self, new):
            Spy.hit(self, "add_vertex>", new)
            super().add_vertex(new)
            Spy.hit(self, "add_vertex<", new)

        def unlink_from(self, kill):
            Spy.hit(self, "unlink_from>", kill)
            super().unlink_from(kill)
            Spy.hit(self, "unlink_from<", kill)

    SpyEdge.__name__ = "Spy" + base.__name__
    return SpyEdge


def spy_scenarios(edge):
    """(name, build, act): build returns the objects, act does one mutation."""

    def three():
        vs = [SpyVertex() for _ in range(3)]
        for i, v in enumerate(vs):
            Spy.names[id(v)] = f"v{i}"
        return vs

    def base_graph():
        a, b, c = three()
        links = [edge(a, c), edge(b, a), edge(a, b), edge(a, a), edge(b, None), edge(c, b)]
        return [a, b, c], links

    out = []
    for va, vb in [(0, 1), (0, 0), (0, None), (None, 1), (None, None)]:
        def act(vs, ls, va=va, vb=vb):
            ls.append(edge(None if va is None else vs[va], None if vb is None else vs[vb]))
        out.append((f"create({va},{vb})", base_graph, act))
    for li in range(6):
        for attr in ("v1", "v2"):
            for new in (0, 1, 2, None):
                def act(vs, ls, li=li, attr=attr, new=new):
                    setattr(ls[li], attr, None if new is None else vs[new])
                out.append((f"e{li + 1}.{attr}={new}", base_graph, act))
    for va, vb in [(0, 1), (1, 0), (0, 0), (2, 1), (1, 2), (0, 2), (1, None), (2, 2)]:
        for dontdup in (True, False):
            def act(vs, ls, va=va, vb=vb, dontdup=dontdup):
                r = explicit.link_from_to(vs[va], edge, None if vb is None else vs[vb], dontdup=dontdup)
                if all(r is not l for l in ls):
                    ls.append(r)
                return ("returned", Spy.name(r))
            out.append((f"link_from_to({va},{vb},dontdup={dontdup})", base_graph, act))
        for destroy in (True, False):
            def act(vs, ls, va=va, vb=vb, destroy=destroy):
                r = explicit.unlink(vs[va], None if vb is None else vs[vb], destroy=destroy)
                return ("returned", None if r is None else [Spy.name(x) for x in r])
            out.append((f"unlink({va},{vb},destroy={destroy})", base_graph, act))
    return out


def spy_state(vs, ls):
    saved = Spy.blow_at
    Spy.blow_at = None
    try:
        state = []
        for v in vs:
            state.append([Spy.name(l) for l in Vertex.links.fget(v)])
        for l in ls:
            state.append([Spy.name(x) for x in Link.vertices.fget(l)])
        return state
    finally:
        Spy.blow_at = saved


def part_c(caching):
    tag = f"C[{'cache' if caching else 'nocache'}]"
    total = 0
    for base in (DirectedEdge, UnDirectedEdge, TwoEndedLink):
        edge = spy_edge(base)
        for name, build, act in spy_scenarios(edge):
            blow_at = None
            ncalls = None
            while True:
                reset_cache(caching)
                edge.serial = 0
                Spy.names = {}
                Spy.arm(None)
                vs, ls = build()
                before = spy_state(vs, ls)
                Spy.arm(blow_at)
                try:
                    res = ("ok", act(vs, ls))
                except Fuse as exc:
                    res = ("fuse", str(exc))
                except Exception as exc:  # pylint: disable=broad-except
                    res = ("exc", type(exc).__name__)
                log = list(Spy.log)
                Spy.arm(None)
                after = spy_state(vs, ls)
                # neighbours seen afterwards through the cache-aware helper
                nbs = []
                for v in vs:
                    try:
                        nbs.append([Spy.name(x) for x in helpers.neighbors(
                            v, helpers.DIR_SENS_ANY, helpers.LNK_UNKNOWN_NEIGHBOR)])
                    except IndexError:
                        nbs.append("IndexError")
                note(tag, base.__name__, name, blow_at, res, log, after, nbs, stats_numbers())
                total += 1
                if blow_at is None:
                    ncalls = len(log)
                    check(res[0] != "fuse", f"{tag} {name}: fuse without being armed")
                    if name.startswith("unlink") and res[0] == "ok":
                        # frame: only joining links lose their ends
                        for bl, al in zip(before[3:], after[3:]):
                            check(al == bl or al == [] or set(al) < set(bl), f"{tag} {name}: {bl} -> {al}")
                    blow_at = 1
                else:
                    if blow_at <= ncalls:
                        check(res[0] == "fuse", f"{tag} {base.__name__} {name}: call {blow_at} of {ncalls} did not blow: {res}")
                    blow_at += 1
                if blow_at > ncalls:
                    break
    return total


# ---------------------------------------------------------------------------
# E. vertices that compare equal without being identical (membership tests
#    inside the library use ==); no oracle, only recorded into the digest,
#    apart from the frame conditions that can be stated independently
# ---------------------------------------------------------------------------
class EqVertex(Vertex):
    def __init__(self, key, **kw):
        super().__init__(**kw)
        self.key = key

    def __eq__(self, other):
        return isinstance(other, EqVertex) and other.key == self.key

    def __hash__(self):
        return hash(self.key)


def part_e(caching, seed):
    reset_cache(caching)
    rnd = random.Random(seed)
    tag = f"E[{seed},{'cache' if caching else 'nocache'}]"
    vs = [EqVertex(k) for k in (0, 0, 1, 1, 2)]
    ls = []

    def state():
        return ([ids(v.links, ls) for v in vs], [ids(l.vertices, vs) for l in ls])

    for step in range(120):
        r = rnd.random()
        a, b = rnd.randrange(5), rnd.randrange(5)
        before = state()
        if r < 0.35 or not ls:
            typ = rnd.choice(LINK_TYPES)
            dd = rnd.random() < 0.5
            res = outcome(lambda: explicit.link_from_to(vs[a], typ, vs[b], dontdup=dd))
            what = f"link({a},{typ.__name__},{b},{dd})"
            if res[0] == "ok":
                if all(res[1] is not l for l in ls):
                    ls.append(res[1])
                    before[1].append(None)
                res = ("ok", ids([res[1]], ls))
        elif r < 0.7:
            li = rnd.randrange(len(ls))
            attr = rnd.choice(["v1", "v2"])
            new = rnd.choice([None, a, a, a])
            what = f"l{li}.{attr}={new}"
            res = outcome(lambda: setattr(ls[li], attr, None if new is None else vs[new]))
            # frame: no other link is touched
            after = state()
            for i, (x, y) in enumerate(zip(before[1], after[1])):
                if i != li:
                    check(x == y, f"{tag} {what}: link {i} changed {x} -> {y}")
        else:
            destroy = rnd.random() < 0.5
            what = f"unlink({a},{b},{destroy})"
            res = outcome(lambda: explicit.unlink(vs[a], vs[b], destroy=destroy))
            if res[0] == "ok" and res[1] is not None:
                res = ("ok", sorted(ids(res[1], ls)))
        note(tag, step, what, res, state(), stats_numbers())


# ---------------------------------------------------------------------------
# F. the many-ended base class (Link.add_vertex / unlink_from are what the
#    two-ended classes are built from)
# ---------------------------------------------------------------------------
class Hyper(Link):
    """A user link class with any number of ends."""


def part_f(caching):
    reset_cache(caching)
    tag = f"F[{'cache' if caching else 'nocache'}]"
    a, b, c = Vertex(), Vertex(), Vertex()
    keep = DirectedEdge(b, a)
    h = Hyper(vertices=(v for v in [a, None, a, b, None]))  # a generator is fine
    check(h.vertices == (a, None, a, b, None), f"{tag}: ends from a generator")
    check(a.links == (keep, h) and b.links == (keep, h), f"{tag}: attached once per vertex")
    h.unlink_from(c)  # not an end: nothing happens
    check(h.vertices == (a, None, a, b, None) and c.links == (), f"{tag}: unlink_from a stranger")
    h.unlink_from(None)  # exactly one open end goes
    check(h.vertices == (a, a, b, None), f"{tag}: first None removed: {ids(h.vertices, [a, b, c])}")
    h.unlink_from(a)  # every occurrence goes, a forgets the link
    check(h.vertices == (b, None) and a.links == (keep,) and b.links == (keep, h), f"{tag}: all occurrences removed")
    h.unlink_from(None)
    h.unlink_from(None)
    check(h.vertices == (b,), f"{tag}: None removed once, then nothing")
    h.add_vertex(None)
    h.add_vertex(c)
    h.add_vertex(c)
    check(h.vertices == (b, None, c, c) and c.links == (h,), f"{tag}: add_vertex")
    c.remove_from_link(h)
    check(h.vertices == (b, None) and c.links == (), f"{tag}: remove_from_link")
    c.add_to_link(h)
    c.add_to_link(h)
    check(h.vertices == (b, None, c) and c.links == (h,), f"{tag}: add_to_link twice")
    expect_raises(TypeError, lambda: Link(vertices=[a]), f"{tag}: bare Link",
                  "Base class <Link> may not be instantiated directly!")
    check(a.links == (keep,), f"{tag}: bare Link left traces")
    expect_raises(AttributeError, lambda: Hyper(vertices=[a, 5, b]), f"{tag}: non-vertex end")
    check(len(a.links) == 2 and b.links == (keep, h), f"{tag}: ends before the bad one were attached")
    empty = Hyper(vertices=[])
    none = Hyper()
    check(empty.vertices == () and none.vertices == (), f"{tag}: no ends")
    empty.unlink_from(None)
    empty.unlink_from(a)
    check(empty.vertices == (), f"{tag}: unlink_from on an empty link")
    note(tag, ids(h.vertices, [a, b, c]), stats_numbers())
    for v in (a, b, c):
        got = outcome(lambda v=v: ids(helpers.neighbors(v, helpers.DIR_SENS_ANY), [a, b, c]))
        note(tag, "neighbors", got)


# ---------------------------------------------------------------------------
# D. digest and main
# ---------------------------------------------------------------------------
#: sha256 over everything observed above, recorded on the unchanged tree
EXPECTED_DIGEST = "405eb97f26cb2480275061449721b919974cae128045bb2cd1ce8a798fbb45e1"


def guarded(fn, *args):
    """An escaping exception is a failure of that part, not of the program."""
    try:
        return fn(*args)
    except Exception:  # pylint: disable=broad-except
        import traceback

        tb = traceback.format_exc().strip().splitlines()
        check(False, f"{fn.__name__}{args}: crashed: {tb[-1]} @ {tb[-3].strip() if len(tb) > 2 else ''}")
        note(fn.__name__, args, "crashed", tb[-1])
        return None


def main():
    sys.setrecursionlimit(20000)
    saved = Vertex.NEIGHBOR_CACHING
    spy_runs = 0
    try:
        for caching in (False, True):
            guarded(part_a, caching)
        for seed in range(40):
            for caching in (False, True):
                guarded(random_world, seed, caching, 150)
        for caching in (False, True):
            spy_runs += guarded(part_c, caching) or 0
        for seed in range(6):
            for caching in (False, True):
                guarded(part_e, caching, seed)
        for caching in (False, True):
            guarded(part_f, caching)
    finally:
        Vertex.NEIGHBOR_CACHING = saved
    digest = DIGEST.hexdigest()
    print(f"checks: {NCHECKS}  spy runs: {spy_runs}  failures: {len(FAILURES)}")
    print(f"digest: {digest}")
    if os.environ.get("EQUIV_NO_DIGEST") != "1" and digest != EXPECTED_DIGEST:
        print(f"FAIL: observation digest differs from the recorded one ({EXPECTED_DIGEST})")
        FAILURES.append("digest")
    if FAILURES:
        print(f"NOT EQUIVALENT / property violated: {len(FAILURES)} failure(s)")
        return 1
    print("OK")
    return 0


if __name__ == "__main__":
    sys.exit(main())
