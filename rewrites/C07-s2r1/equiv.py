#!/usr/bin/env python3
# -*- coding: utf-8 -*-
"""
Equivalence / conformance program for property C07:

    "Traversal order is the canonical BFS / DFS order induced by link order"

Only the public API of edgegraph is used.  The program has three parts:

 1. an independent model (plain ints and lists) of a graph, of the per-vertex
    link order, of ``neighbors()`` and of the three traversals, written from
    the property statement and the documentation;
 2. a seeded random differential campaign (graphs with directed, undirected
    and unknown-class links, self loops, parallel links, vertices outside the
    universe, every direction / unknown-handling mode, ``ff_via`` /
    ``ff_result`` filters, callbacks that raise at the n-th call, mutations
    between traversals), run with NEIGHBOR_CACHING off and on; the *event
    trace* (order and number of callback calls interleaved with the yields of
    the generator variants) is compared, not only the final lists;
 3. scripted corner cases (empty universe, foreign start vertex, laziness of
    the generator variants, graph edits between two ``next()`` calls, odd
    callback objects, vertices with user-defined ``__eq__``, unhashable
    vertices, pickling round trip, recursion depth, aliasing, ...).

Exit status 0 means that everything is as expected.

Run as:  PYTHONPATH=<worktree> python equiv.py
"""

from __future__ import annotations

import hashlib
import pickle
import random
import sys

from edgegraph.structure import (
    Vertex,
    Universe,
    DirectedEdge,
    UnDirectedEdge,
    TwoEndedLink,
)
from edgegraph.traversal import breadthfirst as BF
from edgegraph.traversal import depthfirst as DF
from edgegraph.traversal import helpers as H
from edgegraph.builder import explicit

FAILURES: list[str] = []
CHECKS = 0
DIGEST = hashlib.sha256()


def check(cond, msg):
    global CHECKS
    CHECKS += 1
    if not cond:
        FAILURES.append(msg)
        if len(FAILURES) <= 25:
            print("FAIL:", msg)


def digest(obj):
    DIGEST.update(repr(obj).encode())
    DIGEST.update(b"\n")


class Odd(TwoEndedLink):
    """A link class that is neither directed nor undirected."""


KINDS = {"D": DirectedEdge, "U": UnDirectedEdge, "X": Odd, "T": TwoEndedLink}


class Boom(Exception):
    """Raised by callbacks on purpose."""


class OracleRaise(Exception):
    """The model predicts that the library raises ``self.args[0]``."""


# ---------------------------------------------------------------------------
# the model
# ---------------------------------------------------------------------------


class Model:
    """
    Plain-data model: vertices are 0..n-1, links are numbered by creation.

    ``order[v]`` is the list of link numbers attached to v, in the order in
    which they got attached (this is what the property calls "link order").
    """

    def __init__(self, n, member):
        self.n = n
        self.member = None if member is None else list(member)
        self.order = [[] for _ in range(n)]
        self.ends = {}
        self.kind = {}
        self.nlinks = 0

    def add(self, kind, a, b):
        k = self.nlinks
        self.nlinks += 1
        self.ends[k] = [a, b]
        self.kind[k] = kind
        self.order[a].append(k)
        if k not in self.order[b]:
            self.order[b].append(k)
        return k

    def unlink(self, a, b):
        dead = []
        for k in self.order[a]:
            x, y = self.ends[k]
            other = y if x == a else x
            if other == b:
                dead.append(k)
        for k in dead:
            for v in set(self.ends[k]):
                self.order[v].remove(k)
            del self.ends[k]
            del self.kind[k]
        return dead

    def set_end(self, k, pos, c):
        old = self.ends[k][pos]
        self.ends[k][pos] = c
        if old not in self.ends[k]:
            self.order[old].remove(k)
        if k not in self.order[c]:
            self.order[c].append(k)

    def live_links(self):
        return sorted(self.ends)

    def in_uni(self, v):
        return self.member is None or self.member[v]

    def uni_empty(self):
        return self.member is not None and not any(self.member)


class Ctx:
    """Callback context shared (in shape) by the model run and the real run."""

    def __init__(self, via_pred=None, res_pred=None, boom_at=None):
        self.via_pred = via_pred
        self.res_pred = res_pred
        self.boom_at = boom_at
        self.count = 0
        self.events = []

    def _tick(self):
        self.count += 1
        if self.boom_at is not None and self.count == self.boom_at:
            raise Boom(self.count)

    def via(self, k, t):
        self.events.append(("via", k, t))
        self._tick()
        return self.via_pred(k, t)

    def res(self, i):
        self.events.append(("res", i))
        self._tick()
        return self.res_pred(i)


def o_neighbors(m, v, dirn, unk, ctx):
    """neighbors() according to the documentation, on the model."""
    out = []
    for k in m.order[v]:
        a, b = m.ends[k]
        kind = m.kind[k]
        other = b if v == a else a
        if dirn in (H.DIR_SENS_FORWARD, H.DIR_SENS_BACKWARD):
            if kind == "U":
                pass
            elif kind == "D":
                origin = a if dirn == H.DIR_SENS_FORWARD else b
                if origin != v:
                    continue
            else:
                if unk == H.LNK_UNKNOWN_NONNEIGHBOR:
                    continue
                if unk != H.LNK_UNKNOWN_NEIGHBOR:
                    raise OracleRaise(NotImplementedError)
        elif dirn == H.DIR_SENS_ANY:
            pass
        else:
            raise OracleRaise(ValueError)
        if ctx.via_pred is None or ctx.via(k, other):
            out.append(other)
    return out


def o_emit(ctx, v):
    if ctx.res_pred is None or ctx.res(v):
        ctx.events.append(("yield", v))


def o_preflight(m, start, kind):
    if m.uni_empty():
        if kind == "bft":
            return False
        raise OracleRaise(ValueError)
    if not m.in_uni(start):
        raise OracleRaise(ValueError)
    return True


def o_bft(m, start, dirn, unk, ctx):
    """FIFO, mark on enqueue, report on enqueue."""
    if not o_preflight(m, start, "bft"):
        return
    seen = [False] * m.n
    seen[start] = True
    fifo = [start]
    o_emit(ctx, start)
    pos = 0
    while pos < len(fifo):
        u = fifo[pos]
        pos += 1
        for w in o_neighbors(m, u, dirn, unk, ctx):
            if not m.in_uni(w) or seen[w]:
                continue
            seen[w] = True
            fifo.append(w)
            o_emit(ctx, w)


def o_dft_rec(m, start, dirn, unk, ctx):
    """Pre-order: report, then descend into each unseen neighbour in order."""
    o_preflight(m, start, "dft")
    seen = [False] * m.n

    def visit(v):
        seen[v] = True
        o_emit(ctx, v)
        for w in o_neighbors(m, v, dirn, unk, ctx):
            if m.in_uni(w) and not seen[w]:
                visit(w)

    visit(start)


def o_dft_it(m, start, dirn, unk, ctx):
    """Explicit stack, mark on pop, most recently pushed first."""
    o_preflight(m, start, "dft")
    done = [False] * m.n
    stack = [start]
    while stack:
        v = stack.pop()
        if done[v] or not m.in_uni(v):
            continue
        done[v] = True
        o_emit(ctx, v)
        stack += o_neighbors(m, v, dirn, unk, ctx)


ORACLES = {"bft": o_bft, "dft_recursive": o_dft_rec, "dft_iterative": o_dft_it}


# second, differently shaped, formulation of the three orders (lists only, no
# raising callbacks): used to cross-check model and library
def alt_bft(m, start, nb):
    out = [start]
    seen = {start}
    layer = [start]
    while layer:
        nxt = []
        for u in layer:
            for w in nb(u):
                if m.in_uni(w) and w not in seen:
                    seen.add(w)
                    nxt.append(w)
        out += nxt
        layer = nxt
    return out


def alt_dft_rec(m, start, nb):
    out = [start]
    seen = {start}
    its = [iter(nb(start))]
    while its:
        for w in its[-1]:
            if m.in_uni(w) and w not in seen:
                seen.add(w)
                out.append(w)
                its.append(iter(nb(w)))
                break
        else:
            its.pop()
    return out


def alt_dft_it(m, start, nb):
    out = []

    def go(v):
        if v in out or not m.in_uni(v):
            return
        out.append(v)
        for w in reversed(nb(v)):
            go(w)

    go(start)
    return out


ALTS = {"bft": alt_bft, "dft_recursive": alt_dft_rec, "dft_iterative": alt_dft_it}


def hop_distances(m, start, nb):
    """Shortest hop counts by plain relaxation (no queue)."""
    inf = float("inf")
    dist = [inf] * m.n
    dist[start] = 0
    changed = True
    while changed:
        changed = False
        for u in range(m.n):
            if dist[u] == inf:
                continue
            for w in nb(u):
                if m.in_uni(w) and dist[u] + 1 < dist[w]:
                    dist[w] = dist[u] + 1
                    changed = True
    return dist


# ---------------------------------------------------------------------------
# the real thing, driven by the same operation log as the model
# ---------------------------------------------------------------------------


class Real:
    def __init__(self, n, member):
        self.uni = None if member is None else Universe()
        self.verts = []
        for i in range(n):
            if member is not None and member[i]:
                v = Vertex(attributes={"i": i}, universes=[self.uni])
            else:
                v = Vertex(attributes={"i": i})
            self.verts.append(v)
        self.links = {}
        self.nlinks = 0

    def add(self, kind, a, b):
        k = self.nlinks
        self.nlinks += 1
        if kind == "D" and k % 2:
            e = explicit.link_directed(self.verts[a], self.verts[b])
        elif kind == "U" and k % 2:
            e = explicit.link_undirected(self.verts[a], self.verts[b])
        else:
            e = KINDS[kind](self.verts[a], self.verts[b])
        e.k = k
        self.links[k] = e
        return k

    def unlink(self, a, b):
        explicit.unlink(self.verts[a], self.verts[b])

    def set_end(self, k, pos, c):
        if pos == 0:
            self.links[k].v1 = self.verts[c]
        else:
            self.links[k].v2 = self.verts[c]

    def set_member(self, v, flag):
        if flag:
            self.uni.add_vertex(self.verts[v])
        else:
            self.uni.remove_vertex(self.verts[v])


def replay(log, n, member):
    r = Real(n, member)
    for op in log:
        getattr(r, op[0])(*op[1:])
    return r


def idx(v):
    return None if v is None else v.i


ITER = {
    "bft": BF.ibft,
    "dft_recursive": DF.idft_recursive,
    "dft_iterative": DF.idft_iterative,
}
LIST = {
    "bft": BF.bft,
    "dft_recursive": DF.dft_recursive,
    "dft_iterative": DF.dft_iterative,
}


def real_callbacks(ctx):
    via = None
    res = None
    if ctx.via_pred is not None:

        def via(e, v2):
            return ctx.via(e.k, idx(v2))

    if ctx.res_pred is not None:

        def res(v):
            return ctx.res(idx(v))

    return via, res


def run_real_iter(name, r, start, dirn, unk, ctx, via, res, plain):
    """Drive the generator variant; returns the exception class or None."""
    if plain:
        g = ITER[name](r.uni, r.verts[start])
    else:
        g = ITER[name](
            r.uni,
            r.verts[start],
            direction_sensitive=dirn,
            unknown_handling=unk,
            ff_via=via,
            ff_result=res,
        )
    exc = None
    try:
        for v in g:
            ctx.events.append(("yield", idx(v)))
    except (Boom, NotImplementedError, ValueError) as e:
        exc = type(e)
        try:
            next(g)
            check(False, f"{name}: generator alive after {exc.__name__}")
        except StopIteration:
            pass
    return exc


def run_real_list(name, r, start, dirn, unk, via, res, plain):
    try:
        if plain:
            out = LIST[name](r.uni, r.verts[start])
        else:
            out = LIST[name](
                r.uni,
                r.verts[start],
                direction_sensitive=dirn,
                unknown_handling=unk,
                ff_via=via,
                ff_result=res,
            )
    except (Boom, NotImplementedError, ValueError) as e:
        return type(e), None
    check(type(out) is list, f"{name}: result is {type(out)}")
    return None, out


def run_oracle(name, m, start, dirn, unk, ctx):
    try:
        ORACLES[name](m, start, dirn, unk, ctx)
    except OracleRaise as e:
        return e.args[0]
    except Boom:
        return Boom
    return None


def yields(events):
    return [e[1] for e in events if e[0] == "yield"]


def table_pred(rng, p):
    """A pure predicate with a lazily drawn but then fixed truth table."""
    table = {}
    # draw from a private generator so that model and library agree whatever
    # the order of the questions is
    priv = random.Random(rng.getrandbits(64))

    def pred(*key):
        if key not in table:
            table[key] = priv.random() < p
        return table[key]

    return pred


def one_comparison(rng, tag, m, r, r2, caching):
    """Compare the three traversals on the current graph state."""
    start = rng.randrange(m.n)
    dirn = rng.choice([0, 0, 1, 2, 0, 1, 2, 7])
    unk = rng.choice([0, 1, 2, 2])
    via_pred = table_pred(rng, rng.choice([0.5, 0.8, 1.0])) if rng.random() < 0.4 else None
    res_pred = table_pred(rng, rng.choice([0.3, 0.7])) if rng.random() < 0.4 else None
    boom_at = rng.randrange(1, 12) if rng.random() < 0.25 else None
    plain = (
        dirn == 0
        and unk == 2
        and via_pred is None
        and res_pred is None
        and rng.random() < 0.7
    )

    # neighbors() itself, for every vertex, positional arguments
    for v in range(m.n):
        where = f"{tag}/neighbors({v})/dir={dirn}/unk={unk}/cache={caching}"
        octx = Ctx(via_pred, None, boom_at)
        want = None
        try:
            want = o_neighbors(m, v, dirn, unk, octx)
            oexc = None
        except OracleRaise as e:
            oexc = e.args[0]
        except Boom:
            oexc = Boom
        rctx = Ctx(via_pred, None, boom_at)
        via, _ = real_callbacks(rctx)
        outs = []
        for rep in range(2):
            try:
                if plain:
                    outs.append(H.neighbors(r.verts[v]))
                else:
                    outs.append(H.neighbors(r.verts[v], dirn, unk, via))
                rexc = None
            except (Boom, NotImplementedError, ValueError) as e:
                rexc = type(e)
            if rep == 0:
                check(rexc is oexc, f"{where}: raised {rexc}, model says {oexc}")
                check(rctx.events == octx.events, f"{where}: calls {rctx.events}")
                digest(("nb", rexc and rexc.__name__, rctx.events))
            elif boom_at is None:
                check(rexc is oexc, f"{where}: second call raised {rexc}")
                if caching and rexc is None:
                    check(rctx.events == octx.events, f"{where}: cache not used")
        if oexc is None:
            for out in outs:
                check(type(out) is list and ids(out) == want, f"{where}: {ids(out)} != {want}")
                check(all(x is r.verts[x.i] for x in out), f"{where}: foreign objects")
            check(len(outs) < 2 or outs[0] is not outs[1], f"{where}: shared result list")

    for name in ("bft", "dft_recursive", "dft_iterative"):
        where = f"{tag}/{name}/start={start}/dir={dirn}/unk={unk}/cache={caching}"

        octx = Ctx(via_pred, res_pred, boom_at)
        oexc = run_oracle(name, m, start, dirn, unk, octx)

        # generator variant, fresh callback objects
        rctx = Ctx(via_pred, res_pred, boom_at)
        via, res = real_callbacks(rctx)
        rexc = run_real_iter(name, r, start, dirn, unk, rctx, via, res, plain)
        check(rexc is oexc, f"{where}: raised {rexc}, model says {oexc}")
        check(
            rctx.events == octx.events,
            f"{where}: event trace differs\n  lib   {rctx.events}\n  model {octx.events}",
        )
        digest((name, rexc and rexc.__name__, rctx.events))

        # list variant with the *same* callback objects (cache hits possible:
        # ff_via may legitimately be consulted less often, everything else
        # must be the same)
        if boom_at is None:
            lctx = Ctx(via_pred, res_pred, None)
            lvia, lres = real_callbacks(lctx)
            for rep in range(2):
                del lctx.events[:]
                lexc, lout = run_real_list(
                    name, r, start, dirn, unk, lvia, lres, plain
                )
                check(lexc is oexc, f"{where}: list variant raised {lexc}")
                if lexc is None:
                    check(
                        [idx(v) for v in lout] == yields(octx.events),
                        f"{where}: list variant (rep {rep}) {[idx(v) for v in lout]}"
                        f" != {yields(octx.events)}",
                    )
                    check(
                        all(v is r.verts[v.i] for v in lout),
                        f"{where}: foreign objects in the result",
                    )
                    novia = [e for e in lctx.events if e[0] != "via"]
                    onovia = [
                        e for e in octx.events if e[0] not in ("via", "yield")
                    ]
                    check(
                        novia == onovia,
                        f"{where}: ff_result calls differ in list variant",
                    )
                    if not caching or rep == 0:
                        check(
                            [e for e in lctx.events]
                            == [e for e in octx.events if e[0] != "yield"],
                            f"{where}: callback calls differ in list variant",
                        )
                digest((name, rep, lctx.events))

            # the rebuilt twin graph gives the same sequence
            tctx = Ctx(via_pred, res_pred, None)
            tvia, tres = real_callbacks(tctx)
            texc, tout = run_real_list(
                name, r2, start, dirn, unk, tvia, tres, plain
            )
            check(texc is oexc, f"{where}: twin raised {texc}")
            if texc is None:
                check(
                    [idx(v) for v in tout] == yields(octx.events),
                    f"{where}: twin graph gives another order",
                )

        # cross-check with the second formulation and the distance property
        if oexc is None and boom_at is None and not m.uni_empty():
            quiet = Ctx(via_pred, None, None)

            def nb(u, quiet=quiet):
                return o_neighbors(m, u, dirn, unk, quiet)

            full = ALTS[name](m, start, nb)
            if res_pred is not None:
                full = [v for v in full if res_pred(v)]
            check(
                full == yields(octx.events),
                f"{where}: second formulation gives {full},"
                f" first {yields(octx.events)}",
            )
            if name == "bft":
                dist = hop_distances(m, start, nb)
                seq = yields(rctx.events)
                ds = [dist[v] for v in seq]
                check(ds == sorted(ds), f"{where}: hop distance decreases: {ds}")
                check(len(set(seq)) == len(seq), f"{where}: duplicates")
                if res_pred is None:
                    reach = {v for v in range(m.n) if dist[v] != float("inf")}
                    check(set(seq) == reach, f"{where}: not the reachable set")


def random_campaign(seed, rounds, caching):
    rng = random.Random(seed)
    Vertex.NEIGHBOR_CACHING = caching
    try:
        for rnd in range(rounds):
            n = rng.randrange(1, 9)
            if rng.random() < 0.3:
                member = None
            else:
                p = rng.choice([0.0, 0.6, 0.85, 1.0, 1.0])
                member = [rng.random() < p for _ in range(n)]
            m = Model(n, member)
            log = []

            def do(*op):
                log.append(op)
                getattr(r, op[0])(*op[1:])

            r = Real(n, member)
            kinds = rng.choice(["D", "DU", "DU", "DUX", "DUXT", "U"])
            for _ in range(rng.randrange(0, 3 * n)):
                kind = rng.choice(kinds)
                a, b = rng.randrange(n), rng.randrange(n)
                m.add(kind, a, b)
                do("add", kind, a, b)

            for phase in range(3):
                r2 = replay(log, n, member)
                for rep in range(2):
                    one_comparison(
                        rng, f"s{seed}r{rnd}p{phase}.{rep}", m, r, r2, caching
                    )
                # mutate, then compare again (exercises cache invalidation)
                for _ in range(rng.randrange(1, 4)):
                    what = rng.random()
                    live = m.live_links()
                    if what < 0.3 and live:
                        k = rng.choice(live)
                        pos = rng.randrange(2)
                        c = rng.randrange(n)
                        m.set_end(k, pos, c)
                        do("set_end", k, pos, c)
                    elif what < 0.5:
                        a, b = rng.randrange(n), rng.randrange(n)
                        m.unlink(a, b)
                        do("unlink", a, b)
                    elif what < 0.65 and member is not None:
                        v = rng.randrange(n)
                        m.member[v] = not m.member[v]
                        do("set_member", v, m.member[v])
                    else:
                        kind = rng.choice(kinds)
                        a, b = rng.randrange(n), rng.randrange(n)
                        m.add(kind, a, b)
                        do("add", kind, a, b)
                # model and library agree on the link order itself
                for v in range(n):
                    check(
                        [e.k for e in r.verts[v].links] == m.order[v],
                        f"s{seed}r{rnd}: link order of {v}",
                    )
    finally:
        Vertex.NEIGHBOR_CACHING = False


# ---------------------------------------------------------------------------
# scripted corner cases
# ---------------------------------------------------------------------------


def expect_raises(exc, fn, msg):
    try:
        fn()
    except exc:
        check(True, msg)
        return
    except Exception as e:  # pylint: disable=broad-except
        check(False, f"{msg}: raised {type(e).__name__} instead")
        return
    check(False, f"{msg}: nothing raised")


def mk(n, uni=None):
    if uni is None:
        return [Vertex(attributes={"i": i}) for i in range(n)]
    return [Vertex(attributes={"i": i}, universes=[uni]) for i in range(n)]


def ids(vs):
    return [idx(v) for v in vs]


def scripted(caching):
    Vertex.NEIGHBOR_CACHING = caching
    try:
        _scripted(caching)
    finally:
        Vertex.NEIGHBOR_CACHING = False


def _scripted(caching):
    tag = f"scripted(cache={caching})"

    # --- documented example orders (module docstrings) --------------------
    u = Universe()
    v = [None] + mk(12, u)
    for i, x in enumerate(v[1:], 1):
        x.i = i
    for a, b in [(1, 2), (1, 3), (1, 4), (2, 5), (2, 6), (4, 7), (4, 8),
                 (5, 9), (5, 10), (7, 11), (7, 12)]:
        explicit.link_directed(v[a], v[b])
    check(ids(BF.bft(u, v[1])) == list(range(1, 13)), f"{tag}: bft doc tree")
    check(ids(BF.ibft(u, v[1])) == list(range(1, 13)), f"{tag}: ibft doc tree")
    check(
        ids(DF.dft_recursive(u, v[1])) == [1, 2, 5, 9, 10, 6, 3, 4, 7, 11, 12, 8],
        f"{tag}: dft_recursive on bft doc tree",
    )
    check(
        ids(DF.dft_iterative(u, v[1])) == [1, 4, 8, 7, 12, 11, 3, 2, 6, 5, 10, 9],
        f"{tag}: dft_iterative on bft doc tree",
    )
    check(ids(BF.bft(None, v[1])) == list(range(1, 13)), f"{tag}: bft uni=None")
    check(
        ids(BF.bft(u, v[9], direction_sensitive=H.DIR_SENS_BACKWARD))
        == [9, 5, 2, 1],
        f"{tag}: bft backward",
    )
    check(
        ids(DF.dft_recursive(u, v[9], direction_sensitive=H.DIR_SENS_ANY))
        == [9, 5, 2, 1, 3, 4, 7, 11, 12, 8, 6, 10],
        f"{tag}: dft_recursive any",
    )
    check(
        ids(DF.dft_iterative(u, v[9], direction_sensitive=H.DIR_SENS_ANY))
        == [9, 5, 10, 2, 6, 1, 4, 8, 7, 12, 11, 3],
        f"{tag}: dft_iterative any",
    )
    # searches walk the same orders
    v[6].colour = "x"
    v[8].colour = "x"
    check(BF.bfs(u, v[1], "colour", "x") is v[6], f"{tag}: bfs")
    check(DF.dfs_recursive(u, v[1], "colour", "x") is v[6], f"{tag}: dfs_rec")
    check(DF.dfs_iterative(u, v[1], "colour", "x") is v[8], f"{tag}: dfs_it")
    check(BF.bfs(u, v[1], "colour", "y") is None, f"{tag}: bfs none")
    check(DF.dfs_recursive(u, v[1], "colour", "y") is None, f"{tag}: dfs none")
    check(DF.dfs_iterative(u, v[1], "colour", "y") is None, f"{tag}: dfs none")

    # --- empty universe, foreign start -------------------------------------
    eu = Universe()
    lone = Vertex(attributes={"i": 0})
    check(BF.bft(eu, lone) == [], f"{tag}: bft empty universe")
    check(list(BF.ibft(eu, lone)) == [], f"{tag}: ibft empty universe")
    check(BF.bfs(eu, lone, "i", 0) is None, f"{tag}: bfs empty universe")
    for name in ("dft_recursive", "dft_iterative"):
        expect_raises(ValueError, lambda: LIST[name](eu, lone), f"{tag}: {name} empty")
    expect_raises(ValueError, lambda: DF.dfs_recursive(eu, lone, "i", 0), f"{tag}: dfs_r empty")
    expect_raises(ValueError, lambda: DF.dfs_iterative(eu, lone, "i", 0), f"{tag}: dfs_i empty")
    u1 = Universe()
    inside = mk(2, u1)
    for name in ("bft", "dft_recursive", "dft_iterative"):
        expect_raises(ValueError, lambda: LIST[name](u1, lone), f"{tag}: {name} foreign")
        # generators: nothing happens before the first next()
        g = ITER[name](u1, lone)
        expect_raises(ValueError, lambda: next(g), f"{tag}: i{name} foreign")
        expect_raises(StopIteration, lambda: next(g), f"{tag}: i{name} dead")
        g = ITER[name](eu, lone)
        if name == "bft":
            expect_raises(StopIteration, lambda: next(g), f"{tag}: ibft empty")
        else:
            expect_raises(ValueError, lambda: next(g), f"{tag}: i{name} empty")
    expect_raises(ValueError, lambda: BF.bfs(u1, lone, "i", 0), f"{tag}: bfs foreign")
    # generator made first, start added to the universe later: checks are lazy
    g = BF.ibft(u1, lone)
    g2 = DF.idft_recursive(u1, lone)
    g3 = DF.idft_iterative(u1, lone)
    u1.add_vertex(lone)
    check(ids(g) == [0] and ids(g2) == [0] and ids(g3) == [0], f"{tag}: lazy preflight")
    u1.remove_vertex(lone)
    check(lone.universes == [] and u1.vertices == inside, f"{tag}: state restored")

    # --- single vertex, self loops, parallel links, both directions ----------
    u2 = Universe()
    a, b, c, d = mk(4, u2)
    for name in ("bft", "dft_recursive", "dft_iterative"):
        check(LIST[name](u2, a) == [a], f"{tag}: {name} isolated start")
        check(LIST[name](None, a) == [a], f"{tag}: {name} isolated start, no uni")
        check(
            LIST[name](u2, a, direction_sensitive=99) == [a],
            f"{tag}: {name} odd direction never looked at without links",
        )
    DirectedEdge(a, a)
    UnDirectedEdge(a, a)
    DirectedEdge(a, c)
    DirectedEdge(a, b)
    DirectedEdge(a, c)
    UnDirectedEdge(b, a)
    DirectedEdge(c, a)
    UnDirectedEdge(d, c)
    DirectedEdge(d, b)
    check(ids(H.neighbors(a)) == [0, 0, 2, 1, 2, 1], f"{tag}: neighbors order")
    check(
        ids(H.neighbors(a, direction_sensitive=H.DIR_SENS_BACKWARD)) == [0, 0, 1, 2],
        f"{tag}: neighbors backward",
    )
    check(
        ids(H.neighbors(a, direction_sensitive=H.DIR_SENS_ANY))
        == [0, 0, 2, 1, 2, 1, 2],
        f"{tag}: neighbors any",
    )
    check(ids(BF.bft(u2, a)) == [0, 2, 1, 3], f"{tag}: bft multi")
    check(ids(DF.dft_recursive(u2, a)) == [0, 2, 3, 1], f"{tag}: dft_r multi")
    check(ids(DF.dft_iterative(u2, a)) == [0, 1, 2, 3], f"{tag}: dft_i multi")
    check(ids(BF.bft(u2, d)) == [3, 2, 1, 0], f"{tag}: bft multi from d")
    check(ids(DF.dft_recursive(u2, d)) == [3, 2, 0, 1], f"{tag}: dft_r from d")
    check(ids(DF.dft_iterative(u2, d)) == [3, 1, 0, 2], f"{tag}: dft_i from d")
    # results are fresh lists, the caller may change them
    r1 = BF.bft(u2, a)
    r1.clear()
    n1 = H.neighbors(a)
    n1.append(None)
    check(ids(BF.bft(u2, a)) == [0, 2, 1, 3], f"{tag}: result list is private")
    check(ids(H.neighbors(a)) == [0, 0, 2, 1, 2, 1], f"{tag}: nb list is private")
    # vertices outside of the universe are not listed and not walked through
    u2.remove_vertex(c)
    check(ids(BF.bft(u2, a)) == [0, 1], f"{tag}: bft c outside")
    check(ids(DF.dft_recursive(u2, a)) == [0, 1], f"{tag}: dft_r c outside")
    check(ids(DF.dft_iterative(u2, a)) == [0, 1], f"{tag}: dft_i c outside")
    check(ids(BF.bft(None, a)) == [0, 2, 1, 3], f"{tag}: bft no uni")
    u2.add_vertex(c)
    check(ids(u2.vertices) == [0, 1, 3, 2], f"{tag}: universe order")
    check(ids(BF.bft(u2, a)) == [0, 2, 1, 3], f"{tag}: order unaffected by uni order")

    # --- unknown link classes -------------------------------------------------
    u3 = Universe()
    p, q, s, t = mk(4, u3)
    DirectedEdge(p, q)
    odd = Odd(q, s)
    DirectedEdge(p, t)
    for name in ("bft", "dft_recursive", "dft_iterative"):
        expect_raises(NotImplementedError, lambda: LIST[name](u3, p), f"{tag}: {name} odd")
        got = []
        g = ITER[name](u3, p)
        try:
            for x in g:
                got.append(x.i)
            check(False, f"{tag}: i{name} odd: no exception")
        except NotImplementedError:
            pass
        want = {"bft": [0, 1, 3], "dft_recursive": [0, 1], "dft_iterative": [0, 3, 1]}
        check(got == want[name], f"{tag}: i{name} odd: partial {got}")
        check(
            ids(LIST[name](u3, p, unknown_handling=H.LNK_UNKNOWN_NEIGHBOR))
            == {"bft": [0, 1, 3, 2], "dft_recursive": [0, 1, 2, 3],
                "dft_iterative": [0, 3, 1, 2]}[name],
            f"{tag}: {name} odd as neighbour",
        )
        check(
            ids(LIST[name](u3, p, unknown_handling=H.LNK_UNKNOWN_NONNEIGHBOR))
            == {"bft": [0, 1, 3], "dft_recursive": [0, 1, 3],
                "dft_iterative": [0, 3, 1]}[name],
            f"{tag}: {name} odd as non-neighbour",
        )
        check(
            ids(LIST[name](u3, s, direction_sensitive=H.DIR_SENS_ANY))
            == {"bft": [2, 1, 0, 3], "dft_recursive": [2, 1, 0, 3],
                "dft_iterative": [2, 1, 0, 3]}[name],
            f"{tag}: {name} any direction ignores the class",
        )
        expect_raises(
            ValueError,
            lambda: LIST[name](u3, p, direction_sensitive=3),
            f"{tag}: {name} bad direction",
        )
        expect_raises(
            NotImplementedError,
            lambda: LIST[name](u3, s, unknown_handling=17),
            f"{tag}: {name} bad unknown handling is an error",
        )
    check(odd.vertices == (q, s) and q.links[1] is odd, f"{tag}: odd link intact")

    # a directed edge that lists a third vertex: that vertex is neither end
    u4 = Universe()
    e1, e2, e3 = mk(3, u4)
    de = DirectedEdge(e1, e2)
    e3.add_to_link(de)
    check(de.vertices == (e1, e2, e3), f"{tag}: three vertices")
    expect_raises(NotImplementedError, lambda: H.neighbors(e3), f"{tag}: third end")
    check(
        H.neighbors(e3, unknown_handling=H.LNK_UNKNOWN_NEIGHBOR) == [None],
        f"{tag}: third end, neighbour mode",
    )
    check(
        H.neighbors(e3, unknown_handling=H.LNK_UNKNOWN_NONNEIGHBOR) == [],
        f"{tag}: third end, non-neighbour mode",
    )
    check(H.neighbors(e3, direction_sensitive=H.DIR_SENS_ANY) == [None], f"{tag}: third any")
    for name in ("bft", "dft_recursive", "dft_iterative"):
        check(
            LIST[name](u4, e3, direction_sensitive=H.DIR_SENS_ANY) == [e3],
            f"{tag}: {name} None neighbour is outside of the universe",
        )
        g = ITER[name](None, e3, direction_sensitive=H.DIR_SENS_ANY)
        check(next(g) is e3, f"{tag}: i{name} third end first")
        if name == "dft_iterative":
            check(next(g) is None, f"{tag}: i{name} lists None")
        else:
            check(next(g) is None, f"{tag}: i{name} lists None")
        expect_raises(AttributeError, lambda: next(g), f"{tag}: i{name} None has no links")

    # the same third vertex, looking backwards
    expect_raises(
        NotImplementedError,
        lambda: H.neighbors(e3, direction_sensitive=H.DIR_SENS_BACKWARD),
        f"{tag}: third end backward",
    )
    check(
        H.neighbors(e3, H.DIR_SENS_BACKWARD, H.LNK_UNKNOWN_NEIGHBOR) == [None],
        f"{tag}: third end backward, neighbour mode",
    )
    check(
        H.neighbors(e3, H.DIR_SENS_BACKWARD, H.LNK_UNKNOWN_NONNEIGHBOR) == [],
        f"{tag}: third end backward, non-neighbour mode",
    )
    check(
        H.neighbors(e3, H.DIR_SENS_FORWARD, H.LNK_UNKNOWN_NEIGHBOR, lambda e, x: x is not None)
        == [],
        f"{tag}: third end, filter sees None",
    )
    check(H.neighbors(e1) == [e2] and H.neighbors(e2) == [], f"{tag}: real ends unaffected")
    check(
        H.neighbors(e2, H.DIR_SENS_BACKWARD) == [e1] and H.neighbors(e1, H.DIR_SENS_BACKWARD) == [],
        f"{tag}: real ends unaffected, backward",
    )

    # option values that merely compare equal to the documented constants
    ou = Universe()
    o0, o1, o2, o3 = mk(4, ou)
    DirectedEdge(o0, o1)
    DirectedEdge(o2, o0)
    UnDirectedEdge(o3, o0)
    Odd(o0, o2)
    check(ids(H.neighbors(o0, False, 1.0)) == [1, 3, 2], f"{tag}: False is forward")
    check(ids(H.neighbors(o0, 2.0, True)) == [2, 3, 2], f"{tag}: 2.0 is backward")
    check(ids(H.neighbors(o0, True, 2)) == [1, 2, 3, 2], f"{tag}: True is any")
    check(ids(H.neighbors(o0, 0.0, False)) == [1, 3], f"{tag}: False is non-neighbour")
    expect_raises(NotImplementedError, lambda: H.neighbors(o0, 0, 2.0), f"{tag}: 2.0 is error")
    expect_raises(NotImplementedError, lambda: H.neighbors(o0, 0, None), f"{tag}: None is error")
    expect_raises(ValueError, lambda: H.neighbors(o0, None), f"{tag}: None direction")
    expect_raises(ValueError, lambda: H.neighbors(o0, "0"), f"{tag}: str direction")
    check(H.neighbors(mk(1)[0], "0", "x") == [], f"{tag}: options unused without links")
    for name in ("bft", "dft_recursive", "dft_iterative"):
        check(
            ids(LIST[name](ou, o0, direction_sensitive=2.0, unknown_handling=True))
            == {"bft": [0, 2, 3], "dft_recursive": [0, 2, 3], "dft_iterative": [0, 2, 3]}[name],
            f"{tag}: {name} with float/bool options",
        )

    class Opt:
        """Option value equal to one int; comparisons are counted."""

        def __init__(self, val):
            self.val = val
            self.eqs = 0

        def __eq__(self, other):
            self.eqs += 1
            return self.val == other

        def __hash__(self):
            return hash(self.val)

    for val, perlink in ((0, 1), (2, 2), (1, 3), (5, 3)):
        fresh = Vertex(attributes={"i": 9})
        DirectedEdge(fresh, o1)
        UnDirectedEdge(fresh, o2)
        Odd(fresh, o3)
        opt = Opt(val)
        try:
            got = ids(H.neighbors(fresh, opt, H.LNK_UNKNOWN_NEIGHBOR))
        except ValueError:
            got = "ValueError"
        want = {0: [1, 2, 3], 2: [2, 3], 1: [1, 2, 3], 5: "ValueError"}[val]
        check(got == want, f"{tag}: counted direction {val}: {got}")
        check(opt.eqs == (perlink if val == 5 else 3 * perlink),
              f"{tag}: counted direction {val}: {opt.eqs} comparisons")
        for other_end in (o1, o2, o3):
            explicit.unlink(fresh, other_end)
    for val, want, eqs in ((0, [1, 2], 1), (1, [1, 2, 3], 2), (2, "NotImplementedError", 2)):
        fresh = Vertex(attributes={"i": 9})
        DirectedEdge(fresh, o1)
        UnDirectedEdge(fresh, o2)
        Odd(fresh, o3)
        opt = Opt(val)
        try:
            got = ids(H.neighbors(fresh, H.DIR_SENS_FORWARD, opt))
        except NotImplementedError:
            got = "NotImplementedError"
        check(got == want, f"{tag}: counted unknown handling {val}: {got}")
        check(opt.eqs == eqs, f"{tag}: counted unknown handling {val}: {opt.eqs} comparisons")
        opt = Opt(val)
        check(ids(H.neighbors(fresh, H.DIR_SENS_ANY, opt)) == [1, 2, 3],
              f"{tag}: unknown handling unused for any direction")
        check(opt.eqs == 0, f"{tag}: unknown handling never compared for any direction")
        for other_end in (o1, o2, o3):
            explicit.unlink(fresh, other_end)
    check(len(o1.links) == 1 and len(o2.links) == 2 and len(o3.links) == 1,
          f"{tag}: scratch links removed")

    # link classes of our own
    class Both(UnDirectedEdge, DirectedEdge):
        """Undirected wins: it is asked about first."""

    class Spy(DirectedEdge):
        """Directed edge that counts how often its ends are read."""

        reads = None

        @property
        def v1(self):
            if Spy.reads is not None:
                Spy.reads.append(1)
            return super().v1

        @v1.setter
        def v1(self, new):
            super()._set_v1(new)

        @property
        def v2(self):
            if Spy.reads is not None:
                Spy.reads.append(2)
            return super().v2

        @v2.setter
        def v2(self, new):
            super()._set_v2(new)

    yu = Universe()
    y0, y1, y2 = mk(3, yu)
    Both(y1, y0)
    check(H.neighbors(y0) == [y1] and H.neighbors(y1) == [y0], f"{tag}: both-ways class")
    check(H.neighbors(y0, H.DIR_SENS_BACKWARD) == [y1], f"{tag}: both-ways class backward")
    spy = Spy(y0, y2)
    want = {
        (0, H.DIR_SENS_FORWARD): ([2], [1, 2, 1]),
        (0, H.DIR_SENS_BACKWARD): ([], [1, 2, 2, 1]),
        (0, H.DIR_SENS_ANY): ([2], [1, 2]),
        (2, H.DIR_SENS_FORWARD): ([], [1, 2, 1, 1, 2]),
        (2, H.DIR_SENS_BACKWARD): ([0], [1, 2, 1, 2]),
        (2, H.DIR_SENS_ANY): ([0], [1, 2, 1]),
    }
    for (who, dirn), (nbs, reads) in want.items():
        vert = (y0, y1, y2)[who]
        Spy.reads = []
        got = ids(H.neighbors(vert, dirn, H.LNK_UNKNOWN_ERROR, None))
        seen_reads, Spy.reads = Spy.reads, None
        seen_reads = [r for r in seen_reads]
        # the Both link comes first in y0.links and is not a Spy
        check(got == ([1] if who == 0 else []) + nbs, f"{tag}: spy {who}/{dirn}: {got}")
        check(seen_reads == reads, f"{tag}: spy {who}/{dirn}: ends read {seen_reads}")
    check(spy.vertices == (y0, y2), f"{tag}: spy untouched")

    # a link that lost an end
    u5 = Universe()
    h1, h2, h3 = mk(3, u5)
    DirectedEdge(h1, h3)
    half = DirectedEdge(h1, h2)
    half.unlink_from(h2)
    check(half.vertices == (h1,) and h1.links[1] is half, f"{tag}: half link")
    for name in ("bft", "dft_recursive", "dft_iterative"):
        expect_raises(IndexError, lambda: LIST[name](u5, h1), f"{tag}: {name} half link")
        g = ITER[name](u5, h1)
        check(next(g) is h1, f"{tag}: i{name} half link start")
        expect_raises(IndexError, lambda: next(g), f"{tag}: i{name} half link")
    check(ids(BF.bft(u5, h3)) == [2], f"{tag}: bft away from the half link")
    # the other end is asked for before the options are looked at
    h4 = Vertex(attributes={"i": 4})
    DirectedEdge(h4, h2).unlink_from(h2)
    expect_raises(IndexError, lambda: H.neighbors(h4, 7), f"{tag}: half link, bad direction")
    expect_raises(IndexError, lambda: H.neighbors(h4, H.DIR_SENS_ANY), f"{tag}: half link, any")
    expect_raises(ValueError, lambda: H.neighbors(h1, 7), f"{tag}: good link first, bad direction")

    # --- laziness and edits between two next() calls ----------------------------
    for name in ("bft", "dft_recursive", "dft_iterative"):
        uu = Universe()
        w = mk(6, uu)
        DirectedEdge(w[0], w[1])
        DirectedEdge(w[0], w[2])
        DirectedEdge(w[1], w[3])
        calls = []

        def via(e, v2, calls=calls):
            calls.append(("via", e.v1.i, v2.i))
            return True

        def res(x, calls=calls):
            calls.append(("res", x.i))
            return True

        g = ITER[name](uu, w[0], ff_via=via, ff_result=res)
        check(calls == [], f"{tag}: i{name} nothing before next()")
        check(next(g) is w[0], f"{tag}: i{name} first")
        check(calls == [("res", 0)], f"{tag}: i{name} only the start looked at: {calls}")
        # the neighbours of the start have not been asked for yet
        DirectedEdge(w[0], w[4])
        check(next(g).i == {"bft": 1, "dft_recursive": 1, "dft_iterative": 4}[name],
              f"{tag}: i{name} second")
        want = {
            "bft": [("res", 0), ("via", 0, 1), ("via", 0, 2), ("via", 0, 4), ("res", 1)],
            "dft_recursive": [("res", 0), ("via", 0, 1), ("via", 0, 2), ("via", 0, 4), ("res", 1)],
            "dft_iterative": [("res", 0), ("via", 0, 1), ("via", 0, 2), ("via", 0, 4), ("res", 4)],
        }[name]
        check(calls == want, f"{tag}: i{name} calls after two: {calls}")
        # too late for the start (its neighbour list was taken already) ...
        DirectedEdge(w[0], w[5])
        # ... but not for vertex 1 in the orders that have not expanded it, and
        # universe membership is looked at again every time
        DirectedEdge(w[1], w[5])
        uu.remove_vertex(w[2])
        rest = ids(g)
        want = {
            "bft": [4, 3, 5],
            "dft_recursive": [3, 5, 4],
            "dft_iterative": [1, 5, 3],
        }[name]
        check(rest == want, f"{tag}: i{name} rest {rest}")
        # a closed generator stays closed, the graph is as we left it
        expect_raises(StopIteration, lambda: next(g), f"{tag}: i{name} exhausted")
        check(ids(uu.vertices) == [0, 1, 3, 4, 5], f"{tag}: universe after edits")
        check(len(w[0].links) == 4 and len(w[1].links) == 3, f"{tag}: links after edits")
        # abandoning a generator half way leaves nothing behind
        g = ITER[name](uu, w[0], ff_via=via, ff_result=res)
        next(g)
        next(g)
        g.close()
        expect_raises(StopIteration, lambda: next(g), f"{tag}: i{name} closed")
        check(
            ids(LIST[name](uu, w[0]))
            == {"bft": [0, 1, 4, 5, 3], "dft_recursive": [0, 1, 3, 5, 4],
                "dft_iterative": [0, 5, 4, 1, 3]}[name],
            f"{tag}: {name} after closing a generator",
        )

    # --- odd callback objects ------------------------------------------------------
    class Falsy:
        """A callable whose truth value is False; counts everything."""

        def __init__(self, answer):
            self.answer = answer
            self.calls = 0
            self.bools = 0

        def __bool__(self):
            self.bools += 1
            return False

        def __call__(self, *a):
            self.calls += 1
            return self.answer

    class Truthy(Falsy):
        def __bool__(self):
            self.bools += 1
            return True

    class Answer:
        """A filter verdict with a counted truth value."""

        def __init__(self, val, log):
            self.val = val
            self.log = log

        def __bool__(self):
            self.log.append(self.val)
            return self.val

    u6 = Universe()
    k = mk(4, u6)
    DirectedEdge(k[0], k[1])
    DirectedEdge(k[0], k[2])
    DirectedEdge(k[1], k[3])
    for name in ("bft", "dft_recursive", "dft_iterative"):
        full = ids(LIST[name](u6, k[0]))
        f = Falsy(False)
        check(ids(LIST[name](u6, k[0], ff_result=f)) == full, f"{tag}: {name} falsy ff_result")
        check(f.calls == 0, f"{tag}: {name} falsy ff_result is never called")
        check(f.bools == 2 * len(full), f"{tag}: {name} falsy ff_result truth tests {f.bools}")
        f = Truthy(False)
        check(LIST[name](u6, k[0], ff_result=f) == [], f"{tag}: {name} reject all")
        check(f.calls == len(full), f"{tag}: {name} reject-all calls")
        check(f.bools == 2 * len(full), f"{tag}: {name} reject-all truth tests {f.bools}")
        f = Truthy(True)
        check(ids(LIST[name](u6, k[0], ff_result=f)) == full, f"{tag}: {name} accept all")
        check(f.calls == len(full) and f.bools == len(full), f"{tag}: {name} accept-all counts")
        f = Falsy(True)
        check(ids(LIST[name](u6, k[0], ff_via=f)) == full, f"{tag}: {name} falsy ff_via is used")
        check(f.calls == 3 and f.bools == 0, f"{tag}: {name} falsy ff_via calls {f.calls}")
        f = Falsy(False)
        check(ids(LIST[name](u6, k[0], ff_via=f)) == [0], f"{tag}: {name} ff_via rejects")
        check(f.calls == 2, f"{tag}: {name} ff_via reject calls {f.calls}")
        # verdict objects are asked for their truth value exactly once each
        log = []
        out = LIST[name](u6, k[0], ff_result=lambda x, log=log: Answer(x.i % 2 == 1, log))
        check(ids(out) == [i for i in full if i % 2], f"{tag}: {name} verdict objects")
        check(log == [i % 2 == 1 for i in full], f"{tag}: {name} verdict truth tests {log}")
        log = []
        out = LIST[name](u6, k[0], ff_via=lambda e, x, log=log: Answer(x.i != 1, log))
        check(ids(out) == [0, 2], f"{tag}: {name} via verdict objects")
        check(log == [False, True], f"{tag}: {name} via verdict truth tests {log}")
        # non-function callables, bound methods, the same one for both roles
        seen = []

        class Both:
            def __call__(self, *a):
                seen.append(len(a))
                return True

        both = Both()
        check(ids(LIST[name](u6, k[0], ff_via=both, ff_result=both)) == full,
              f"{tag}: {name} one callable in both roles")
        want = {
            "bft": [1, 2, 2, 1, 1, 2, 1],
            "dft_recursive": [1, 2, 2, 1, 2, 1, 1],
            "dft_iterative": [1, 2, 2, 1, 1, 2, 1],
        }[name]
        check(seen == want, f"{tag}: {name} call pattern {seen}")

    # callbacks that raise: same point, graph untouched, traversal repeatable
    for name in ("bft", "dft_recursive", "dft_iterative"):
        for role in ("ff_via", "ff_result"):
            for nth in range(1, 5):
                cnt = [0]

                def cb(*a, cnt=cnt, nth=nth):
                    cnt[0] += 1
                    if cnt[0] == nth:
                        raise Boom(nth)
                    return True

                got = []
                g = ITER[name](u6, k[0], **{role: cb})
                try:
                    for x in g:
                        got.append(x.i)
                    raised = False
                except Boom:
                    raised = True
                full = ids(LIST[name](u6, k[0]))
                if role == "ff_result":
                    check(raised and got == full[: nth - 1],
                          f"{tag}: i{name} {role} boom {nth}: {got}")
                else:
                    want = {
                        ("bft", 1): [0], ("bft", 2): [0], ("bft", 3): [0, 1, 2],
                        ("dft_recursive", 1): [0], ("dft_recursive", 2): [0],
                        ("dft_recursive", 3): [0, 1],
                        ("dft_iterative", 1): [0], ("dft_iterative", 2): [0],
                        ("dft_iterative", 3): [0, 2, 1],
                    }.get((name, nth))
                    if nth <= 3:
                        check(raised and got == want,
                              f"{tag}: i{name} {role} boom {nth}: {got}")
                    else:
                        check(not raised and got == full,
                              f"{tag}: i{name} {role} no boom: {got}")
                expect_raises(StopIteration, lambda: next(g), f"{tag}: i{name} dead after boom")
                if role == "ff_result" or nth <= 3:
                    expect_raises(
                        Boom,
                        lambda: LIST[name](u6, k[0], **{role: _raiser(nth)}),
                        f"{tag}: {name} {role} boom {nth}",
                    )
                check(ids(LIST[name](u6, k[0])) == full, f"{tag}: {name} fine after boom")

    # --- vertices with their own notion of equality ----------------------------------
    class Same(Vertex):
        """All instances compare equal and hash alike."""

        eqs = 0

        def __eq__(self, other):
            Same.eqs += 1
            return isinstance(other, Same)

        def __hash__(self):
            return 7

    su = Universe()
    s0, s1, s2 = (Same(attributes={"i": i}, universes=[su]) for i in range(3))
    check(len(su.vertices) == 1 and su.vertices[0] is s0,
          f"{tag}: equal vertices collapse in the universe")
    DirectedEdge(s0, s1)
    DirectedEdge(s1, s2)
    for name in ("bft", "dft_recursive", "dft_iterative"):
        out = LIST[name](su, s0)
        check(len(out) == 1 and out[0] is s0, f"{tag}: {name} equal vertices: {ids(out)}")
        out = LIST[name](su, s1)
        check(len(out) == 1 and out[0] is s1, f"{tag}: {name} start equal to a member")
        out = LIST[name](None, s2)
        check(len(out) == 1 and out[0] is s2, f"{tag}: {name} equal vertices, no uni")

    class Counted(Vertex):
        """Identity semantics, but every comparison is counted."""

        eqs = 0

        def __eq__(self, other):
            Counted.eqs += 1
            return self is other

        __hash__ = Vertex.__hash__

    cu = Universe()
    cv = [Counted(attributes={"i": i}, universes=[cu]) for i in range(6)]
    for a_, b_ in [(0, 1), (0, 2), (1, 3), (2, 3), (3, 0), (3, 4), (4, 5), (1, 5)]:
        DirectedEdge(cv[a_], cv[b_])
    counts = {}
    for name in ("bft", "dft_recursive", "dft_iterative"):
        Counted.eqs = 0
        out = ids(LIST[name](cu, cv[0]))
        counts[name] = Counted.eqs
        check(out == {"bft": [0, 1, 2, 3, 5, 4], "dft_recursive": [0, 1, 3, 4, 5, 2],
                      "dft_iterative": [0, 2, 3, 4, 5, 1]}[name],
              f"{tag}: {name} counted vertices {out}")
    digest(("eq-counts", sorted(counts.items())))

    class NoHash(Vertex):
        """Comparable but not hashable."""

        def __eq__(self, other):
            return self is other

        __hash__ = None

    nu = Universe()
    nv = [NoHash(attributes={"i": i}, universes=[nu]) for i in range(4)]
    for a_, b_ in [(0, 1), (0, 2), (2, 3), (3, 0)]:
        DirectedEdge(nv[a_], nv[b_])
    check(ids(DF.dft_iterative(nu, nv[0])) == [0, 2, 3, 1], f"{tag}: dft_iterative unhashable")
    check(ids(DF.idft_iterative(None, nv[0])) == [0, 2, 3, 1], f"{tag}: idft_iterative unhashable")
    check(DF.dfs_iterative(nu, nv[0], "i", 3) is nv[3], f"{tag}: dfs_iterative unhashable")
    expect_raises(TypeError, lambda: BF.bft(nu, nv[0]), f"{tag}: bft unhashable")
    expect_raises(TypeError, lambda: DF.dft_recursive(nu, nv[0]), f"{tag}: dft_r unhashable")
    g = BF.ibft(nu, nv[0])
    expect_raises(TypeError, lambda: next(g), f"{tag}: ibft unhashable start not yielded")
    g = DF.idft_recursive(nu, nv[0])
    expect_raises(TypeError, lambda: next(g), f"{tag}: idft_r unhashable start not yielded")

    # --- universes as vertices, aliasing -------------------------------------------------
    top = Universe()
    top.i = 0
    top.add_vertex(top)
    for name in ("bft", "dft_recursive", "dft_iterative"):
        check(LIST[name](top, top) == [top], f"{tag}: {name} universe inside itself")
    sub = Universe(attributes={"i": 1})
    top.add_vertex(sub)
    leaf = Vertex(attributes={"i": 2}, universes=[top, sub])
    UnDirectedEdge(top, sub)
    UnDirectedEdge(sub, leaf)
    UnDirectedEdge(leaf, top)
    for name in ("bft", "dft_recursive", "dft_iterative"):
        check(ids(LIST[name](top, top)) == {"bft": [0, 1, 2], "dft_recursive": [0, 1, 2],
                                             "dft_iterative": [0, 2, 1]}[name],
              f"{tag}: {name} universes as vertices")
        check(ids(LIST[name](sub, leaf)) == [2], f"{tag}: {name} small universe")

    # --- pickling round trip ---------------------------------------------------------------
    pu = Universe()
    pv = mk(7, pu)
    for a_, b_, kind in [(0, 3, "D"), (0, 1, "U"), (1, 2, "D"), (3, 2, "U"), (2, 4, "D"),
                         (4, 0, "D"), (1, 5, "U"), (5, 6, "D"), (6, 6, "U")]:
        KINDS[kind](pv[a_], pv[b_])
    before = {name: ids(LIST[name](pu, pv[0])) for name in LIST}
    pu2 = pickle.loads(pickle.dumps(pu))
    start2 = [x for x in pu2.vertices if x.i == 0][0]
    for name in LIST:
        check(ids(LIST[name](pu2, start2)) == before[name], f"{tag}: {name} after pickling")
        check(ids(LIST[name](pu, pv[0])) == before[name], f"{tag}: {name} original after pickling")
    check(before["bft"] == [0, 3, 1, 2, 5, 4, 6], f"{tag}: bft pickled graph {before['bft']}")
    check(before["dft_recursive"] == [0, 3, 2, 4, 1, 5, 6], f"{tag}: dft_r pickled graph")
    check(before["dft_iterative"] == [0, 1, 5, 6, 2, 4, 3], f"{tag}: dft_i pickled graph")

    # --- only public attribute names on the objects -------------------------------------------
    pub = sorted(n for n in vars(pv[0]) if not n.startswith("_"))
    check(pub == ["i"], f"{tag}: public attributes of a vertex {pub}")
    pub = sorted(n for n in vars(pu) if not n.startswith("_"))
    check(pub == [], f"{tag}: public attributes of a universe {pub}")
    pub = sorted(n for n in vars(pv[0].links[0]) if not n.startswith("_"))
    check(pub == [], f"{tag}: public attributes of a link {pub}")

    # --- recursion depth: one level per vertex for the recursive walk only ----------------------
    def chain(n):
        cu_ = Universe()
        cvs = mk(n, cu_)
        for i in range(n - 1):
            DirectedEdge(cvs[i], cvs[i + 1])
        return cu_, cvs

    depth = 0
    f = sys._getframe()
    while f is not None:
        depth += 1
        f = f.f_back
    old = sys.getrecursionlimit()
    lu, lv = chain(600)
    try:
        sys.setrecursionlimit(depth + 300)
        check(ids(DF.dft_recursive(lu, lv[400])) == list(range(400, 600)),
              f"{tag}: dft_recursive chain of 200")
        expect_raises(RecursionError, lambda: DF.dft_recursive(lu, lv[0]),
                      f"{tag}: dft_recursive chain of 600")
        g = DF.idft_recursive(lu, lv[0])
        got = []
        try:
            for x in g:
                got.append(x.i)
        except RecursionError:
            pass
        check(200 <= len(got) < 400 and got == list(range(len(got))),
              f"{tag}: idft_recursive gave up after {len(got)}")
        check(ids(DF.dft_iterative(lu, lv[0])) == list(range(600)), f"{tag}: dft_iterative chain")
        check(ids(BF.bft(lu, lv[0])) == list(range(600)), f"{tag}: bft chain")
    finally:
        sys.setrecursionlimit(old)
    sys.setrecursionlimit(max(old, depth + 3000))
    try:
        check(ids(DF.dft_recursive(lu, lv[0])) == list(range(600)),
              f"{tag}: dft_recursive chain after the failure")
    finally:
        sys.setrecursionlimit(old)

    # --- inputs that are not lists -------------------------------------------------------------------
    gu = Universe(vertices=(x for x in mk(3)))
    g0, g1, g2 = gu.vertices
    DirectedEdge(g0, g2)
    DirectedEdge(g0, g1)
    lateral = Vertex(attributes={"i": 3}, links=(e for e in [UnDirectedEdge(g1, g2)]),
                     universes=iter([gu, gu]))
    # the link now lists three vertices; the third one is no end of it
    check(lateral.links[0].vertices == (g1, g2, lateral), f"{tag}: link grew")
    check(ids(gu.vertices) == [0, 1, 2, 3], f"{tag}: universe from a generator")
    check(ids(BF.bft(gu, g0)) == [0, 2, 1], f"{tag}: bft generator inputs")
    check(ids(DF.dft_recursive(gu, g0)) == [0, 2, 1], f"{tag}: dft_r generator inputs")
    check(ids(DF.dft_iterative(gu, g0)) == [0, 1, 2], f"{tag}: dft_i generator inputs")
    for name in ("bft", "dft_recursive", "dft_iterative"):
        check(ids(LIST[name](gu, lateral)) == [3], f"{tag}: {name} from the third vertex")

    # --- cache bookkeeping is coherent with caching on -------------------------------------------------
    if caching:
        xu = Universe()
        xa, xb, xc = mk(3, xu)
        DirectedEdge(xa, xb)
        first = BF.bft(xu, xa)
        again = BF.bft(xu, xa)
        check(first == again == [xa, xb], f"{tag}: cached repeat")
        again.append(None)
        H.neighbors(xa).append(None)
        check(BF.bft(xu, xa) == [xa, xb], f"{tag}: cached data not exposed")
        DirectedEdge(xa, xc)
        check(BF.bft(xu, xa) == [xa, xb, xc], f"{tag}: cache invalidated by a new link")
        Vertex.NEIGHBOR_CACHING = False
        DirectedEdge(xb, xc).v2 = xa
        explicit.unlink(xa, xc)
        Vertex.NEIGHBOR_CACHING = True
        check(BF.bft(xu, xa) == [xa, xb], f"{tag}: no stale data after a pause")
        check(DF.dft_recursive(xu, xb) == [xb, xa], f"{tag}: no stale data after a pause (2)")
        check(isinstance(Vertex.total_cache_stats(), str), f"{tag}: stats")


def _raiser(nth):
    cnt = [0]

    def cb(*a):
        cnt[0] += 1
        if cnt[0] == nth:
            raise Boom(nth)
        return True

    return cb


# digest of every event trace of the campaign, taken on the unchanged library
GOLDEN = "333c27094004d443bef50fa590b9c90fe687a25aa402ade4d45e25e273c4ba0a"


def main():
    check(Vertex.NEIGHBOR_CACHING is False, "caching is off by default")
    for caching in (False, True):
        scripted(caching)
    for caching in (False, True):
        for seed in (7, 1907):
            random_campaign(seed, 160, caching)
    got = DIGEST.hexdigest()
    if "--print-digest" in sys.argv:
        print(got)
    else:
        check(got == GOLDEN, f"event digest {got} differs from the recorded one")
    print(f"{CHECKS} checks, {len(FAILURES)} failures")
    return 1 if FAILURES else 0


if __name__ == "__main__":
    sys.exit(main())
