#!/usr/bin/env python3
"""
equiv.py -- behavioural check for property C06 (traversals visit exactly the
reachable in-universe vertices, once each) with emphasis on the breadth-first
code (bft / ibft, plus the bfs search sharing the same module).

Exit status 0 = everything as expected.  The script is deterministic: besides
checking the property against an independent reachability oracle, it hashes
every observable outcome (visit orders, exception classes, the order and
arguments of the filter callbacks) and compares the hash to a constant recorded
on the unchanged library.
"""

import collections
import hashlib
import itertools
import random
import sys
import types

from edgegraph.structure import (
    Vertex,
    Universe,
    DirectedEdge,
    UnDirectedEdge,
    TwoEndedLink,
)
from edgegraph.traversal import helpers, breadthfirst, depthfirst

GOLDEN = "3f1be0ed7d8f180a2cbfb35d40910fe30c06159c84eb34640f619849df3dc5e1"

LIST_FORMS = {
    "bft": breadthfirst.bft,
    "dftr": depthfirst.dft_recursive,
    "dfti": depthfirst.dft_iterative,
}
GEN_FORMS = {
    "bft": breadthfirst.ibft,
    "dftr": depthfirst.idft_recursive,
    "dfti": depthfirst.idft_iterative,
}
DIRS = [helpers.DIR_SENS_FORWARD, helpers.DIR_SENS_ANY, helpers.DIR_SENS_BACKWARD]
UNKS = [
    helpers.LNK_UNKNOWN_NONNEIGHBOR,
    helpers.LNK_UNKNOWN_NEIGHBOR,
    helpers.LNK_UNKNOWN_ERROR,
]

FAILURES = []
TRACE = []


def check(cond, msg):
    if not cond:
        FAILURES.append(msg)


def lab(v):
    if v is None:
        return "None"
    return getattr(v, "i", "?")


def labs(vs):
    return [lab(v) for v in vs]


class OddLink(TwoEndedLink):
    """A link class that is neither directed nor undirected."""


class BothEdge(DirectedEdge, UnDirectedEdge):
    """Directed and undirected at once; the undirected reading wins."""


class ValVertex(Vertex):
    """Vertices comparing (and hashing) by a key: equal but not identical."""

    def __eq__(self, other):
        return isinstance(other, ValVertex) and self.key == other.key

    def __hash__(self):
        return hash(self.key)


class NoHashVertex(Vertex):
    """Comparable but not hashable."""

    def __eq__(self, other):
        return self is other

    __hash__ = None


class FalsyFilter:
    """A callable that is falsy: the traversals treat it as "no filter"."""

    def __init__(self):
        self.calls = 0

    def __len__(self):
        return 0

    def __call__(self, v):
        self.calls += 1
        return False


class Boom(Exception):
    pass


###############################################################################


def build(seed, n, m, n_out):
    """
    Random multigraph on n vertices; the last n_out of them are left outside
    the universe.  Self-loops, parallel and anti-parallel edges, four edge
    classes.
    """
    rnd = random.Random(seed)
    uni = Universe()
    verts = []
    for k in range(n):
        if k < n - n_out:
            verts.append(Vertex(attributes={"i": k}, universes=[uni]))
        else:
            verts.append(Vertex(attributes={"i": k}))
    kinds = [DirectedEdge, DirectedEdge, UnDirectedEdge, OddLink, BothEdge]
    for e in range(m):
        a = rnd.choice(verts)
        b = rnd.choice(verts)
        kind = rnd.choice(kinds)
        kind(a, b, attributes={"w": e})
        if rnd.random() < 0.15:
            kind(a, b, attributes={"w": 100 + e})  # parallel twin
    return uni, verts


def oracle(uni, start, nbkw):
    """Plain worklist closure over neighbors(); independent of the library's
    traversal code."""
    reached = [start]
    todo = [start]
    while todo:
        u = todo.pop(0)
        for w in helpers.neighbors(u, **nbkw):
            if uni is not None and not any(w is x for x in uni.vertices):
                continue
            if not any(w is x for x in reached):
                reached.append(w)
                todo.append(w)
    return reached


def run_list(fn, uni, start, **kw):
    try:
        out = fn(uni, start, **kw)
    except Exception as exc:  # pylint: disable=broad-except
        return ("exc", type(exc).__name__)
    check(type(out) is list, f"{fn.__name__} did not return a list")
    return ("ok", out)


def run_gen(fn, uni, start, **kw):
    got = []
    gen = fn(uni, start, **kw)  # must never raise here: it is a generator
    check(isinstance(gen, types.GeneratorType), f"{fn.__name__}: no generator")
    try:
        for v in gen:
            got.append(v)
    except Exception as exc:  # pylint: disable=broad-except
        return ("exc", type(exc).__name__, got)
    return ("ok", got)


def same_objects(a, b):
    return len(a) == len(b) and all(x is y for x, y in zip(a, b))


def property_sweep(tag, uni_all, verts, via_filters):
    for use_uni, start, d, u, (vname, via) in itertools.product(
        [True, False], verts, DIRS, UNKS, via_filters
    ):
        uni = uni_all if use_uni else None
        nbkw = {
            "direction_sensitive": d,
            "unknown_handling": u,
            "filterfunc": via,
        }
        trkw = {"direction_sensitive": d, "unknown_handling": u, "ff_via": via}
        where = f"{tag} uni={use_uni} start={lab(start)} d={d} u={u} via={vname}"

        try:
            expect = oracle(uni, start, nbkw)
            expect_exc = None
        except Exception as exc:  # pylint: disable=broad-except
            expect = None
            expect_exc = type(exc).__name__

        in_uni = uni is None or any(start is x for x in uni.vertices)

        for name in LIST_FORMS:
            res_l = run_list(LIST_FORMS[name], uni, start, **trkw)
            res_g = run_gen(GEN_FORMS[name], uni, start, **trkw)
            TRACE.append(
                (
                    where,
                    name,
                    res_l[0],
                    res_l[1] if res_l[0] == "exc" else labs(res_l[1]),
                    res_g[0],
                    res_g[1] if res_g[0] == "exc" else "",
                    labs(res_g[-1]),
                )
            )

            if not in_uni:
                check(
                    res_l == ("exc", "ValueError"), f"{where} {name}: no ValueError"
                )
                check(
                    res_g[:2] == ("exc", "ValueError") and res_g[2] == [],
                    f"{where} {name}: generator no ValueError",
                )
                continue

            if expect_exc is not None:
                check(
                    res_l == ("exc", expect_exc),
                    f"{where} {name}: expected {expect_exc}, got {res_l}",
                )
                check(
                    res_g[:2] == ("exc", expect_exc),
                    f"{where} {name}: generator expected {expect_exc}",
                )
                continue

            check(res_l[0] == "ok", f"{where} {name}: raised {res_l}")
            check(res_g[0] == "ok", f"{where} {name}: generator raised {res_g}")
            if res_l[0] != "ok" or res_g[0] != "ok":
                continue
            out = res_l[1]
            check(out[0] is start, f"{where} {name}: does not begin with start")
            check(
                len({id(x) for x in out}) == len(out), f"{where} {name}: repeats"
            )
            check(
                {id(x) for x in out} == {id(x) for x in expect},
                f"{where} {name}: wrong set {labs(out)} vs {labs(expect)}",
            )
            check(same_objects(out, res_g[1]), f"{where} {name}: gen != list")

            # ff_result only masks entries of the listing
            seen_by_filter = []

            def keep(v, _log=seen_by_filter):
                _log.append(v)
                return v.i % 3 != 0

            masked = run_list(LIST_FORMS[name], uni, start, ff_result=keep, **trkw)
            check(masked[0] == "ok", f"{where} {name}: masked raised")
            if masked[0] == "ok":
                check(
                    same_objects(masked[1], [x for x in out if x.i % 3 != 0]),
                    f"{where} {name}: ff_result changed more than the listing",
                )
                check(
                    same_objects(seen_by_filter, out),
                    f"{where} {name}: ff_result not asked once per vertex in order",
                )


def callback_order(uni, verts):
    """Order and arguments of every ff_via / ff_result call."""
    for name, d in itertools.product(LIST_FORMS, DIRS):
        log = []

        def via(e, v2, _log=log):
            _log.append(("via", e.w, lab(v2)))
            return e.w % 4 != 1

        def res(v, _log=log):
            _log.append(("res", lab(v)))
            return v.i % 2 == 0

        out = run_list(
            LIST_FORMS[name],
            uni,
            verts[0],
            direction_sensitive=d,
            unknown_handling=helpers.LNK_UNKNOWN_NEIGHBOR,
            ff_via=via,
            ff_result=res,
        )
        TRACE.append(("cb", name, d, out[0], labs(out[1]) if out[0] == "ok" else out[1], log))


def raising_callbacks(uni, verts):
    for name in LIST_FORMS:
        for limit in (0, 1, 3):
            count = [0]

            def res(v, _c=count, _limit=limit):
                if _c[0] == _limit:
                    raise Boom()
                _c[0] += 1
                return True

            got = run_gen(
                GEN_FORMS[name], uni, verts[0], direction_sensitive=helpers.DIR_SENS_ANY, ff_result=res
            )
            check(got[0] == "exc" and got[1] == "Boom", f"{name}: Boom not propagated")
            check(len(got[-1]) == limit, f"{name}: wrong number before Boom")
            TRACE.append(("boom-res", name, limit, labs(got[-1])))

            count2 = [0]

            def via(e, v2, _c=count2, _limit=limit):
                if _c[0] == _limit:
                    raise Boom()
                _c[0] += 1
                return True

            got = run_gen(
                GEN_FORMS[name], uni, verts[0], direction_sensitive=helpers.DIR_SENS_ANY, ff_via=via
            )
            check(got[0] == "exc" and got[1] == "Boom", f"{name}: via Boom lost")
            TRACE.append(("boom-via", name, limit, labs(got[-1])))
            lst = run_list(
                LIST_FORMS[name], uni, verts[0], direction_sensitive=helpers.DIR_SENS_ANY, ff_via=lambda e, v2: 1 / 0
            )
            check(lst == ("exc", "ZeroDivisionError"), f"{name}: {lst}")


def falsy_filter(uni, verts):
    for name in LIST_FORMS:
        ff = FalsyFilter()
        plain = LIST_FORMS[name](uni, verts[0], direction_sensitive=helpers.DIR_SENS_ANY)
        out = LIST_FORMS[name](
            uni, verts[0], direction_sensitive=helpers.DIR_SENS_ANY, ff_result=ff
        )
        check(same_objects(plain, out), f"{name}: falsy ff_result filtered something")
        check(ff.calls == 0, f"{name}: falsy ff_result was called")
        check(plain is not out, f"{name}: list object reused")


def preflight():
    empty = Universe()
    lone = Vertex(attributes={"i": 0})
    check(breadthfirst.bft(empty, lone) == [], "bft on empty universe")
    check(list(breadthfirst.ibft(empty, lone)) == [], "ibft on empty universe")
    for name in ("dftr", "dfti"):
        check(
            run_list(LIST_FORMS[name], empty, lone) == ("exc", "ValueError"),
            f"{name}: empty universe accepted",
        )
        check(
            run_gen(GEN_FORMS[name], empty, lone) == ("exc", "ValueError", []),
            f"{name}: generator: empty universe accepted",
        )
    for fn in (depthfirst.dfs_recursive, depthfirst.dfs_iterative):
        try:
            fn(empty, lone, "i", 0)
            check(False, f"{fn.__name__}: empty universe accepted")
        except ValueError:
            pass
    other = Universe()
    inside = Vertex(attributes={"i": 1}, universes=[other])
    for name in LIST_FORMS:
        check(
            run_list(LIST_FORMS[name], other, lone) == ("exc", "ValueError"),
            f"{name}: foreign start accepted",
        )
        check(
            labs(LIST_FORMS[name](other, inside)) == [1], f"{name}: single vertex"
        )
    for fn in (depthfirst.dfs_recursive, depthfirst.dfs_iterative):
        try:
            fn(other, lone, "i", 0)
            check(False, f"{fn.__name__}: foreign start accepted")
        except ValueError:
            pass
        check(fn(other, inside, "i", 1) is inside, f"{fn.__name__}: start match")
        check(fn(other, inside, "i", 5) is None, f"{fn.__name__}: no match")
        check(fn(None, lone, "i", 0) is lone, f"{fn.__name__}: no universe")


def equal_not_identical():
    uni = Universe()
    a = ValVertex(attributes={"i": 0, "key": "a"}, universes=[uni])
    b1 = ValVertex(attributes={"i": 1, "key": "b"}, universes=[uni])
    b2 = ValVertex(attributes={"i": 2, "key": "b"})  # equal to b1
    c = ValVertex(attributes={"i": 3, "key": "c"}, universes=[uni])
    d = ValVertex(attributes={"i": 4, "key": "d"}, universes=[uni])
    DirectedEdge(a, b1)
    DirectedEdge(a, b2)
    DirectedEdge(b2, c)
    DirectedEdge(b1, d)
    UnDirectedEdge(c, a)
    for use_uni in (True, False):
        for name in LIST_FORMS:
            for start in (a, b1, b2):
                res = run_list(LIST_FORMS[name], uni if use_uni else None, start)
                gen = run_gen(GEN_FORMS[name], uni if use_uni else None, start)
                TRACE.append(
                    (
                        "val",
                        use_uni,
                        name,
                        lab(start),
                        res[0],
                        labs(res[1]) if res[0] == "ok" else res[1],
                        gen[0],
                        labs(gen[-1]),
                    )
                )


def unhashable():
    uni = Universe()
    vs = [NoHashVertex(attributes={"i": k}, universes=[uni]) for k in range(5)]
    DirectedEdge(vs[0], vs[1])
    DirectedEdge(vs[1], vs[2])
    UnDirectedEdge(vs[2], vs[0])
    DirectedEdge(vs[0], vs[0])
    DirectedEdge(vs[2], vs[3])
    for u in (uni, None):
        check(
            labs(depthfirst.dft_iterative(u, vs[0])) == [0, 2, 3, 1],
            "dfti with unhashable vertices",
        )
        check(
            run_list(depthfirst.dft_recursive, u, vs[0]) == ("exc", "TypeError"),
            "dftr with unhashable vertices",
        )
        check(
            run_gen(depthfirst.idft_recursive, u, vs[0]) == ("exc", "TypeError", []),
            "idftr with unhashable vertices",
        )
        check(
            run_list(breadthfirst.bft, u, vs[0]) == ("exc", "TypeError"),
            "bft with unhashable vertices",
        )


def none_ends():
    uni = Universe()
    a = Vertex(attributes={"i": 0}, universes=[uni])
    b = Vertex(attributes={"i": 1}, universes=[uni])
    DirectedEdge(a, b)
    DirectedEdge(a, None)
    UnDirectedEdge(None, b)
    for name in LIST_FORMS:
        check(labs(LIST_FORMS[name](uni, a)) == [0, 1], f"{name}: None end in universe")
        got = run_gen(GEN_FORMS[name], None, a)
        check(got[0] == "exc" and got[1] == "AttributeError", f"{name}: None end: {got[:2]}")
        TRACE.append(("none", name, labs(got[2])))


def nested_universe():
    outer = Universe()
    inner = Universe(attributes={"i": 10})
    a = Vertex(attributes={"i": 0}, universes=[outer])
    b = Vertex(attributes={"i": 1}, universes=[outer, inner])
    c = Vertex(attributes={"i": 2}, universes=[inner])
    outer.add_vertex(inner)
    DirectedEdge(a, inner)
    DirectedEdge(inner, b)
    DirectedEdge(b, c)
    UnDirectedEdge(c, inner)
    for name in LIST_FORMS:
        TRACE.append(
            (
                "nested",
                name,
                labs(LIST_FORMS[name](outer, a)),
                labs(LIST_FORMS[name](inner, b)),
                labs(LIST_FORMS[name](None, a)),
                labs(LIST_FORMS[name](outer, inner, direction_sensitive=helpers.DIR_SENS_ANY)),
            )
        )
    check(set(labs(depthfirst.dft_recursive(outer, a))) == {0, 10, 1}, "nested outer")
    check(set(labs(depthfirst.dft_iterative(inner, b))) == {1, 2}, "nested inner")


def mutate_while_running():
    """The universe (and the graph) may change between two items of a
    generator; membership is looked up afresh every time."""
    for name in GEN_FORMS:
        uni = Universe()
        vs = [Vertex(attributes={"i": k}, universes=[uni]) for k in range(6)]
        for k in range(5):
            DirectedEdge(vs[k], vs[k + 1])
        DirectedEdge(vs[0], vs[3])
        gen = GEN_FORMS[name](uni, vs[0])
        first = next(gen)
        check(first is vs[0], f"{name}: first item")
        uni.remove_vertex(vs[2])
        DirectedEdge(vs[1], vs[5])
        rest = labs(gen)
        TRACE.append(("mutate", name, rest))
        check(2 not in rest, f"{name}: removed vertex still listed")
        check(set(rest) == {1, 3, 4, 5}, f"{name}: mutate set {rest}")


def deep_chain():
    uni = Universe()
    n = 400
    vs = [Vertex(attributes={"i": k}, universes=[uni]) for k in range(n)]
    for k in range(n - 1):
        DirectedEdge(vs[k], vs[k + 1])
    check(labs(depthfirst.dft_iterative(uni, vs[0])) == list(range(n)), "chain dfti")
    check(labs(breadthfirst.bft(uni, vs[0])) == list(range(n)), "chain bft")
    check(labs(depthfirst.dft_recursive(uni, vs[0])) == list(range(n)), "chain dftr")
    old = sys.getrecursionlimit()
    sys.setrecursionlimit(150)
    try:
        check(
            run_list(depthfirst.dft_recursive, uni, vs[0]) == ("exc", "RecursionError"),
            "chain dftr must hit the recursion limit",
        )
        check(labs(depthfirst.dft_iterative(uni, vs[0])) == list(range(n)), "chain dfti (low limit)")
        check(labs(breadthfirst.bft(uni, vs[0])) == list(range(n)), "chain bft (low limit)")
    finally:
        sys.setrecursionlimit(old)


def bad_direction():
    uni = Universe()
    a = Vertex(attributes={"i": 0}, universes=[uni])
    b = Vertex(attributes={"i": 1}, universes=[uni])
    for name in LIST_FORMS:
        # without links the setting is never looked at
        check(labs(LIST_FORMS[name](uni, a, direction_sensitive=17)) == [0], f"{name}: lone")
    DirectedEdge(a, b)
    for name in LIST_FORMS:
        check(
            run_list(LIST_FORMS[name], uni, a, direction_sensitive=17) == ("exc", "ValueError"),
            f"{name}: bad direction",
        )
        check(
            labs(LIST_FORMS[name](uni, a, direction_sensitive=False, unknown_handling=7)) == [0, 1],
            f"{name}: False == FORWARD",
        )


def level_order(tag, uni_all, verts):
    """bft lists vertices in order of non-decreasing distance from the start,
    and within the expansion of one vertex in neighbors() order."""
    for use_uni, start, d in itertools.product([True, False], verts, DIRS):
        uni = uni_all if use_uni else None
        if uni is not None and not any(start is x for x in uni.vertices):
            continue
        nbkw = {
            "direction_sensitive": d,
            "unknown_handling": helpers.LNK_UNKNOWN_NEIGHBOR,
        }
        # reference: textbook queue-based BFS written with a deque
        dist = {id(start): 0}
        order = [start]
        queue = collections.deque([start])
        while queue:
            u = queue.popleft()
            for w in helpers.neighbors(u, **nbkw):
                if uni is not None and not any(w is x for x in uni.vertices):
                    continue
                if id(w) not in dist:
                    dist[id(w)] = dist[id(u)] + 1
                    order.append(w)
                    queue.append(w)
        out = breadthfirst.bft(uni, start, **nbkw)
        check(same_objects(out, order), f"{tag}: bft order {labs(out)} != {labs(order)}")
        ds = [dist[id(x)] for x in out]
        check(ds == sorted(ds), f"{tag}: bft not level by level")
        gen = breadthfirst.ibft(uni, start, **nbkw)
        check(same_objects(list(itertools.islice(gen, 2)), order[:2]), f"{tag}: ibft prefix")
        check(same_objects(list(gen), order[2:]), f"{tag}: ibft resumed")


def bfs_search(tag, uni_all, verts):
    for use_uni, start in itertools.product([True, False], verts):
        uni = uni_all if use_uni else None
        for target in list(range(len(verts) + 1)) + [None]:
            try:
                got = breadthfirst.bfs(uni, start, "i", target)
                res = ("ok", lab(got))
            except Exception as exc:  # pylint: disable=broad-except
                res = ("exc", type(exc).__name__)
            TRACE.append(("bfs", tag, use_uni, lab(start), target, res))
    lone = Vertex(attributes={"i": 0})
    check(breadthfirst.bfs(Universe(), lone, "i", 0) is None, "bfs on empty universe")
    check(breadthfirst.bfs(None, lone, "i", 0) is lone, "bfs without universe")
    check(breadthfirst.bfs(None, lone, "missing", 0) is None, "bfs missing attribute")
    try:
        breadthfirst.bfs(uni_all, lone, "i", 0)
        check(False, "bfs: foreign start accepted")
    except ValueError:
        pass


def main():
    results = {}
    for caching in (False, True):
        Vertex.NEIGHBOR_CACHING = caching
        TRACE.clear()

        via_filters = [
            ("none", None),
            ("w-odd", lambda e, v2: e.w % 2 == 1),
            ("not-3", lambda e, v2: v2.i != 3),
        ]
        for seed, n, m, n_out in [(1, 6, 9, 1), (2, 7, 14, 2), (3, 5, 4, 0), (4, 8, 11, 3)]:
            uni, verts = build(seed, n, m, n_out)
            property_sweep(f"g{seed}", uni, verts, via_filters)
            level_order(f"g{seed}", uni, verts)
            bfs_search(f"g{seed}", uni, verts)
            if seed == 2:
                callback_order(uni, verts)
                raising_callbacks(uni, verts)
                falsy_filter(uni, verts)

        preflight()
        equal_not_identical()
        unhashable()
        none_ends()
        nested_universe()
        mutate_while_running()
        deep_chain()
        bad_direction()

        results[caching] = hashlib.sha256(repr(TRACE).encode()).hexdigest()

    Vertex.NEIGHBOR_CACHING = False

    check(results[False] == results[True], "caching changes an outcome")
    if "--print" in sys.argv:
        print(results[False])
    elif results[False] != GOLDEN:
        FAILURES.append(f"outcome digest {results[False]} != recorded {GOLDEN}")

    if FAILURES:
        for f in FAILURES[:40]:
            print("FAIL:", f)
        print(f"{len(FAILURES)} failure(s)")
        return 1
    print("equiv: OK")
    return 0


if __name__ == "__main__":
    sys.exit(main())
