#!/usr/bin/env python3
"""
equiv.py for C07 / rewrite 1 (helpers.neighbors cascade + Vertex neighbor-answer store).

Checks, through the public API only, that bft / dft_recursive / dft_iterative list
vertices in the canonical BFS / DFS orders induced by link order, for every
direction / unknown / filter setting, with and without neighbor caching, and that
neighbors() behaves as documented (order, ownership of the returned list,
exception classes, cache statistics text, invalidation, pickling).

Exit status 0 = everything as expected.
"""
import itertools
import pickle
import random
import sys

from edgegraph.structure import (
    Vertex,
    Universe,
    Link,
    TwoEndedLink,
    DirectedEdge,
    UnDirectedEdge,
)
from edgegraph.traversal import helpers, breadthfirst, depthfirst
from edgegraph.traversal.helpers import (
    DIR_SENS_FORWARD as FWD,
    DIR_SENS_ANY as ANY,
    DIR_SENS_BACKWARD as BWD,
    LNK_UNKNOWN_NONNEIGHBOR as U_NO,
    LNK_UNKNOWN_NEIGHBOR as U_YES,
    LNK_UNKNOWN_ERROR as U_ERR,
)
from edgegraph.output import nrpickler

CHECKS = 0


def check(cond, what):
    global CHECKS
    CHECKS += 1
    if not cond:
        print("FAILED:", what)
        sys.exit(1)


class OddLink(TwoEndedLink):
    """Two-ended, but neither directed nor undirected: an 'unknown' class."""


class BothWays(UnDirectedEdge, DirectedEdge):
    """Subclass of both edge kinds: must count as undirected."""


class SubDirected(DirectedEdge):
    pass


class BareLink(Link):
    """A link class without other(): neighbors() cannot handle it."""


KINDS = {
    "D": DirectedEdge,
    "U": UnDirectedEdge,
    "X": OddLink,
    "B": BothWays,
    "S": SubDirected,
}


# --------------------------------------------------------------------------
# independent reference implementations (public API only)
# --------------------------------------------------------------------------
def ref_neighbors(v, ds, uh, ff):
    out = []
    for lnk in v.links:
        far = lnk.other(v)
        if ds == ANY:
            verdict = "take"
        elif ds in (FWD, BWD):
            if isinstance(lnk, UnDirectedEdge):
                verdict = "take"
            elif isinstance(lnk, DirectedEdge):
                src, dst = (lnk.v1, lnk.v2) if ds == FWD else (lnk.v2, lnk.v1)
                if src is v:
                    verdict = "take"
                elif dst is v:
                    verdict = "skip"
                else:
                    verdict = "unknown"
            else:
                verdict = "unknown"
        else:
            raise ValueError("bad direction")
        if verdict == "unknown":
            if uh == U_NO:
                verdict = "skip"
            elif uh == U_YES:
                verdict = "take"
            else:
                raise NotImplementedError("unknown link")
        if verdict == "take" and (ff is None or ff(lnk, far)):
            out.append(far)
    return out


def inside(uni, v):
    return uni is None or any(v is x or v == x for x in uni.vertices)


def ref_bft(uni, start, ds, uh, fv, fr):
    if uni is not None and not uni.vertices:
        return []
    if not inside(uni, start):
        raise ValueError
    order, seen, level = [start], {id(start)}, {id(start): 0}
    i = 0
    while i < len(order):
        u = order[i]
        i += 1
        for w in ref_neighbors(u, ds, uh, fv):
            if inside(uni, w) and id(w) not in seen:
                seen.add(id(w))
                level[id(w)] = level[id(u)] + 1
                order.append(w)
    dists = [level[id(x)] for x in order]
    assert dists == sorted(dists)
    return [x for x in order if (not fr) or fr(x)]


def ref_dft_rec(uni, start, ds, uh, fv, fr):
    if uni is not None and not uni.vertices:
        raise ValueError
    if not inside(uni, start):
        raise ValueError
    order, seen = [], set()

    def go(v):
        seen.add(id(v))
        order.append(v)
        for w in ref_neighbors(v, ds, uh, fv):
            if inside(uni, w) and id(w) not in seen:
                go(w)

    go(start)
    return [x for x in order if (not fr) or fr(x)]


def ref_dft_it(uni, start, ds, uh, fv, fr):
    if uni is not None and not uni.vertices:
        raise ValueError
    if not inside(uni, start):
        raise ValueError
    order, seen, stack = [], set(), [start]
    while stack:
        v = stack.pop()
        if id(v) in seen or not inside(uni, v):
            continue
        seen.add(id(v))
        order.append(v)
        stack.extend(ref_neighbors(v, ds, uh, fv))
    return [x for x in order if (not fr) or fr(x)]


def outcome(fn, *a, **kw):
    """('ok', ids) or ('exc', class) -- exception *class* is what is compared."""
    try:
        res = fn(*a, **kw)
    except Exception as exc:  # noqa
        return ("exc", type(exc))
    assert type(res) is list, type(res)
    return ("ok", [id(x) for x in res])


# --------------------------------------------------------------------------
# graph construction from a spec, so the same graph can be rebuilt
# --------------------------------------------------------------------------
def build(spec):
    """
    spec = (n_vertices, universe_idx (which vertices are Universes), edges,
            extra (third-vertex attachments), members)
    edges: list of (kind, i, j) with i / j an index or None.
    """
    n, uni_idx, edges, extra, members = spec
    vs = [Universe() if k in uni_idx else Vertex() for k in range(n)]
    for k, v in enumerate(vs):
        v.idx = k
    links = []
    for kind, i, j in edges:
        a = None if i is None else vs[i]
        b = None if j is None else vs[j]
        lnk = KINDS[kind](a, b)
        lnk.tag = len(links)
        links.append(lnk)
    for li, vi in extra:
        vs[vi].add_to_link(links[li])
    uni = Universe(vertices=[vs[k] for k in members])
    return vs, links, uni


def random_spec(rng):
    n = rng.randint(1, 9)
    uni_idx = {k for k in range(n) if rng.random() < 0.15}
    edges = []
    for _ in range(rng.randint(0, 3 * n)):
        kind = rng.choice("DDDUUXBS")
        i = rng.randrange(n)
        j = rng.randrange(n)
        if rng.random() < 0.05:
            i = None
        elif rng.random() < 0.05:
            j = None
        edges.append((kind, i, j))
        if rng.random() < 0.15:  # parallel edge
            edges.append((rng.choice("DU"), i, j))
    extra = []
    if edges and rng.random() < 0.2:
        extra.append((rng.randrange(len(edges)), rng.randrange(n)))
    members = [k for k in range(n) if rng.random() < 0.8]
    rng.shuffle(members)
    return (n, uni_idx, edges, extra, members)


class FalsyKeepAll:
    """A callable that is falsy: as ff_result it must behave like 'no filter'."""

    def __len__(self):
        return 0

    def __call__(self, v):
        return False


def filters():
    def via_even(e, v2):
        return v2 is None or v2.idx % 3 != 1

    def via_tag(e, v2):
        return e.tag % 2 == 0

    def via_boom(e, v2):
        if e.tag == 3:
            raise KeyError("callback failed")
        return 1  # truthy non-bool

    def res_odd(v):
        return v is not None and v.idx % 2

    return (
        [None, via_even, via_tag, via_boom],
        [None, res_odd, FalsyKeepAll()],
    )


TRAVS = [
    (breadthfirst.bft, ref_bft),
    (depthfirst.dft_recursive, ref_dft_rec),
    (depthfirst.dft_iterative, ref_dft_it),
]


def run_world(spec, rng):
    vs, links, uni = build(spec)
    vs2, links2, uni2 = build(spec)  # the same graph rebuilt in the same order
    via_fs, res_fs = filters()
    settings = list(
        itertools.product((FWD, ANY, BWD), (U_NO, U_YES, U_ERR), via_fs, res_fs)
    )
    rng.shuffle(settings)
    for ds, uh, fv, fr in settings[:40]:
        # neighbors() itself against the reference, for every vertex
        for k, v in enumerate(vs):
            got = outcome(helpers.neighbors, v, ds, uh, fv)
            exp = outcome(ref_neighbors, v, ds, uh, fv)
            check(got == exp, f"neighbors {spec} v{k} {ds},{uh}")
            again = outcome(helpers.neighbors, v, ds, uh, fv)
            check(again == got, "neighbors repeatable")
            other = outcome(helpers.neighbors, vs2[k], ds, uh, fv)
            if got[0] == "ok":
                idx = lambda ids, pool: [  # noqa
                    next((q for q, x in enumerate(pool) if id(x) == i), None)
                    for i in ids
                ]
                check(
                    other[0] == "ok" and idx(got[1], vs) == idx(other[1], vs2),
                    "neighbors of rebuilt graph",
                )
            else:
                check(other == got, "neighbors of rebuilt graph (exception)")
        for use_uni in (uni, None):
            use_uni2 = uni2 if use_uni is not None else None
            for si in range(len(vs)):
                for trav, ref in TRAVS:
                    kw = dict(
                        direction_sensitive=ds,
                        unknown_handling=uh,
                        ff_via=fv,
                        ff_result=fr,
                    )
                    got = outcome(trav, use_uni, vs[si], **kw)
                    exp = outcome(ref, use_uni, vs[si], ds, uh, fv, fr)
                    check(
                        got == exp,
                        f"{trav.__name__} {spec} start={si} uni={use_uni is not None} "
                        f"{ds},{uh},{getattr(fv, '__name__', fv)},{fr}: {got} != {exp}",
                    )
                    check(
                        outcome(trav, use_uni, vs[si], **kw) == got,
                        f"{trav.__name__} repeat",
                    )
                    got2 = outcome(trav, use_uni2, vs2[si], **kw)
                    if got[0] == "ok":
                        pos = {id(x): q for q, x in enumerate(vs)}
                        pos2 = {id(x): q for q, x in enumerate(vs2)}
                        check(
                            got2[0] == "ok"
                            and [pos.get(i) for i in got[1]]
                            == [pos2.get(i) for i in got2[1]],
                            f"{trav.__name__} rebuilt graph",
                        )
                    else:
                        check(got2 == got, f"{trav.__name__} rebuilt graph (exc)")


def fixed_cases():
    # the documented example graph of the breadth-first module
    v = [None] + [Vertex(attributes={"idx": k}) for k in range(1, 13)]
    for a, b in [(1, 2), (1, 3), (1, 4), (2, 5), (2, 6), (4, 7), (4, 8), (5, 9), (5, 10), (7, 11), (7, 12)]:
        UnDirectedEdge(v[a], v[b])
    uni = Universe(vertices=v[1:])
    check([x.idx for x in breadthfirst.bft(uni, v[1])] == list(range(1, 13)), "doc bft")
    check(
        [x.idx for x in depthfirst.dft_recursive(uni, v[1])]
        == [1, 2, 5, 9, 10, 6, 3, 4, 7, 11, 12, 8],
        "doc-like dft_recursive",
    )
    check(
        [x.idx for x in depthfirst.dft_iterative(uni, v[1])]
        == [1, 4, 8, 7, 12, 11, 3, 2, 6, 5, 10, 9],
        "doc-like dft_iterative",
    )

    # neighbors(): one entry per link, in link order; self-loops, parallels
    a, b, c = Vertex(), Vertex(), Vertex()
    e1 = DirectedEdge(a, b)
    e2 = UnDirectedEdge(c, a)
    e3 = DirectedEdge(a, a)
    e4 = DirectedEdge(b, a)
    e5 = DirectedEdge(a, b)
    e6 = OddLink(a, c)
    check(a.links == (e1, e2, e3, e4, e5, e6), "link order")
    nb = helpers.neighbors
    check([*map(id, nb(a, unknown_handling=U_NO))] == [*map(id, [b, c, a, b])], "fwd")
    check([*map(id, nb(a, BWD, U_YES))] == [*map(id, [c, a, b, c])], "bwd")
    check([*map(id, nb(a, ANY))] == [*map(id, [b, c, a, b, b, c])], "any ignores class")
    try:
        nb(a)
        check(False, "unknown class must raise by default")
    except NotImplementedError:
        check(True, "")
    try:
        nb(a, 7)
        check(False, "bad direction must raise")
    except ValueError:
        check(True, "")
    check(nb(Vertex(), 7) == [], "bad direction goes unnoticed without links")
    check(nb(a, 0.0, False) == nb(a, FWD, U_NO), "equal-but-not-identical options")
    check(nb(a, True, U_ERR) == nb(a, ANY), "True == DIR_SENS_ANY")
    # directed edge that lists a vertex only as third entry: 'unknown'
    d = Vertex()
    d.add_to_link(e1)
    check(e1.vertices == (a, b, d) and nb(d, FWD, U_NO) == [], "third vertex, non-nb")
    check(nb(d, BWD, U_YES) == [None], "third vertex, nb -> other() is None")
    check(nb(d, ANY) == [None], "third vertex, any")
    for ds in (FWD, BWD):
        try:
            nb(d, ds)
            check(False, "third vertex must raise")
        except NotImplementedError:
            check(True, "")
    # None end
    z = Vertex()
    DirectedEdge(None, z)
    check(nb(z) == [] and nb(z, BWD) == [None], "None end")
    check(outcome(breadthfirst.bft, None, z, direction_sensitive=BWD) == ("exc", AttributeError), "None reached")
    check(breadthfirst.bft(Universe(vertices=[z]), z, direction_sensitive=BWD) == [z], "None outside universe")
    # a link class without other()
    q = Vertex()
    BareLink(vertices=[q, Vertex()])
    check(outcome(nb, q, ANY) == ("exc", AttributeError), "no other()")
    # filter sees (link, far end); is only asked for candidate links
    seen = []
    nb(a, FWD, U_NO, lambda e, v2: seen.append((e, v2)))
    check([(id(e), id(x)) for e, x in seen] == [(id(e1), id(b)), (id(e2), id(c)), (id(e3), id(a)), (id(e5), id(b))], "filter calls")


def cache_cases():
    old = Vertex.NEIGHBOR_CACHING
    try:
        Vertex.NEIGHBOR_CACHING = True
        a, b, c = Vertex(), Vertex(), Vertex()
        DirectedEdge(a, b)
        before = Vertex.total_cache_stats()
        r1 = helpers.neighbors(a)
        r2 = helpers.neighbors(a)
        check(r1 == [b] and r2 == [b] and r1 is not r2, "fresh list on every call")
        r1.append("junk")
        r2.clear()
        check(helpers.neighbors(a) == [b], "results are owned by the caller")
        e = DirectedEdge(a, c)
        check(helpers.neighbors(a) == [b, c], "invalidated by linking")
        e.v2 = b
        check(helpers.neighbors(a) == [b, b], "invalidated by re-pointing an end")
        check(helpers.neighbors(c) == [], "old end forgot the link")
        a.remove_from_link(e)
        check(helpers.neighbors(a) == [b], "invalidated by unlinking")
        f = lambda e_, v2: True  # noqa
        check(helpers.neighbors(a, filterfunc=f) == [b], "filter key")
        check(helpers.neighbors(a, filterfunc=f) == [b], "filter key hit")
        try:
            helpers.neighbors(a, filterfunc=UnhashableFilter())
            check(False, "unhashable filter cannot be a cache key")
        except TypeError:
            check(True, "")
        after = Vertex.total_cache_stats()
        check(before != after and after.startswith("=== CACHE STATISTICS OVERALL ==="), "stats text")

        def numbers(text):
            return [int(line.split()[-1]) for line in text.splitlines()[1:]]

        nb, na = numbers(before), numbers(after)
        # hits: 2 plain + 1 filter; misses and insertions: 4 plain on a, 1 on c,
        # 1 filter; the unhashable filter fails before anything is counted
        check([na[k] - nb[k] for k in (1, 2, 4)] == [3, 6, 6], f"stats deltas {nb} {na}")

        # switching caching off and on again never yields stale answers
        Vertex.NEIGHBOR_CACHING = False
        DirectedEdge(a, c)
        Vertex.NEIGHBOR_CACHING = True
        check(helpers.neighbors(a) == [b, c], "no stale answer after re-enabling")

        # pickling keeps traversal order, with caches filled
        vs = [Vertex(attributes={"idx": k}) for k in range(6)]
        for i, j in [(0, 3), (0, 1), (1, 2), (3, 2), (2, 4), (4, 0), (3, 5)]:
            DirectedEdge(vs[i], vs[j])
        uni = Universe(vertices=vs)
        want = {t.__name__: [x.idx for x in t(uni, vs[0])] for t, _ in TRAVS}
        for dumps in (pickle.dumps, nrpickler.dumps):
            uni_l = pickle.loads(dumps(uni))
            start = uni_l.vertices[0]
            got = {t.__name__: [x.idx for x in t(uni_l, start)] for t, _ in TRAVS}
            check(got == want, f"order survives {dumps.__module__}")
            got = {t.__name__: [x.idx for x in t(uni_l, start)] for t, _ in TRAVS}
            check(got == want, "and again (cached)")
    finally:
        Vertex.NEIGHBOR_CACHING = old
    check(Vertex.total_cache_stats() == "Neighbor caching is DISABLED" or old, "disabled text")


class UnhashableFilter:
    __hash__ = None

    def __call__(self, e, v2):
        return True


def main():
    for caching in (False, True):
        Vertex.NEIGHBOR_CACHING = caching
        fixed_cases()
        rng = random.Random(20240707)
        for _ in range(40):
            run_world(random_spec(rng), rng)
    Vertex.NEIGHBOR_CACHING = False
    cache_cases()
    print(f"equiv.py: all {CHECKS} checks passed")
    return 0


if __name__ == "__main__":
    sys.exit(main())
